From C01 Require Import Order ProofsOrdA.
Local Open Scope Z_scope.

(* ---------- list plumbing ---------- *)
Lemma remove_split {A} (d : A) (l1 : list A) x l2 :
  nth (length l1) (l1 ++ x :: l2) d = x /\
  firstn (length l1) (l1 ++ x :: l2) ++ skipn (S (length l1)) (l1 ++ x :: l2) = l1 ++ l2.
Proof.
  induction l1 as [|a l1 IH]; [split; reflexivity|].
  destruct IH as (IH1 & IH2). split; [exact IH1|]. cbn [length app firstn skipn]. cbn [app]. f_equal. exact IH2.
Qed.

Lemma split_at {A} (d : A) (l : list A) i : (i < length l)%nat ->
  exists l1 l2, l = l1 ++ nth i l d :: l2 /\ length l1 = i.
Proof. intros H. apply nth_split. exact H. Qed.

Definition spec : Type := (nat * (list ev * Z))%type.
Definition s_pos (q : spec) : nat := fst q.
Definition s_tr (q : spec) : list ev := fst (snd q).
Definition s_val (q : spec) : Z := snd (snd q).

Section CSide.
  Variable s : store.

  Definition tspec (th : thunk) (trs : list ev) (v : Z) : Prop :=
    forall t o, exists o', th (s, t) o = ((s, rev trs ++ t), v, o').

  Inductive pend_ok : list (nat * thunk) -> list spec -> Prop :=
    | pend_nil : pend_ok [] []
    | pend_cons pos th trs v ps qs : tspec th trs v -> pend_ok ps qs ->
        pend_ok ((pos, th) :: ps) ((pos, (trs, v)) :: qs).

  Lemma pend_ok_length ps qs : pend_ok ps qs -> length ps = length qs.
  Proof. induction 1; cbn; congruence. Qed.

  Lemma pend_ok_app ps1 qs1 ps2 qs2 : pend_ok ps1 qs1 -> pend_ok ps2 qs2 -> pend_ok (ps1 ++ ps2) (qs1 ++ qs2).
  Proof. induction 1; cbn [app]; auto. intros. constructor; auto. Qed.

  Lemma pend_ok_split ps1 p ps2 qs : pend_ok (ps1 ++ p :: ps2) qs ->
    exists qs1 q qs2, qs = qs1 ++ q :: qs2 /\ length qs1 = length ps1 /\
      pend_ok ps1 qs1 /\ pend_ok ps2 qs2 /\ fst p = s_pos q /\ tspec (snd p) (s_tr q) (s_val q).
  Proof.
    revert qs. induction ps1 as [|a ps1 IH]; intros qs H.
    - inversion H; subst. exists [], (pos, (trs, v)), qs0. repeat split; auto. constructor.
    - inversion H; subst. destruct (IH _ H4) as (qs1 & q & qs2 & -> & L & O1 & O2 & E & T).
      exists ((pos, (trs, v)) :: qs1), q, qs2. repeat split; auto. cbn. congruence. constructor; auto.
  Qed.

  (* ---- sequential evaluation of temporaries ---- *)
  Lemma run_seq_spec ps qs : pend_ok ps qs -> forall t o acc, exists o',
    run_seq ps (s, t) o acc =
    ((s, rev (concat (map s_tr qs)) ++ t), rev (map (fun q => (s_pos q, s_val q)) qs) ++ acc, o').
  Proof.
    induction 1 as [|pos th trs v ps qs T _ IH]; intros t o acc.
    - exists o. reflexivity.
    - cbn [run_seq]. destruct (T t o) as (o1 & E1). rewrite E1. cbv beta iota zeta.
      destruct (IH (rev trs ++ t) o1 ((pos, v) :: acc)) as (o2 & E2). exists o2. etransitivity; [exact E2|].
      cbn [map concat s_tr s_pos s_val fst snd rev]. rewrite rev_app_distr, <- !app_assoc. reflexivity.
  Qed.

  (* ---- at most one non-empty trace ---- *)
  Definition nonempty (l : list ev) : bool := match l with [] => false | _ => true end.
  Definition amo (L : list (list ev)) : Prop := (length (filter nonempty L) <= 1)%nat.

  Lemma all_empty_concat L : filter nonempty L = [] -> concat L = [].
  Proof.
    induction L as [|x L IH]; [reflexivity|]. cbn [filter concat]. destruct x; cbn [nonempty]; [auto|discriminate].
  Qed.

  Lemma amo_remove A x B : amo (A ++ x :: B) -> amo (A ++ B) /\ concat (A ++ x :: B) = x ++ concat (A ++ B).
  Proof.
    unfold amo. rewrite !filter_app, !app_length. cbn [filter]. intros H.
    destruct x as [|e x]; cbn [nonempty] in *.
    - split; [exact H|]. rewrite !concat_app. cbn [concat app]. reflexivity.
    - cbn [length] in H.
      assert (filter nonempty A = []) by (destruct (filter nonempty A); [reflexivity|cbn in H; lia]).
      assert (filter nonempty B = []) by (destruct (filter nonempty B); [reflexivity|cbn in H; lia]).
      split; [rewrite H0, H1; cbn; lia|].
      rewrite !concat_app. cbn [concat]. rewrite (all_empty_concat A H0), (all_empty_concat B H1).
      cbn [app]. rewrite !app_nil_r. reflexivity.
  Qed.

  (* ---- unsequenced evaluation: any order, same trace when at most one operand is noisy ---- *)
  Definition vals_ok (qs : list spec) (acc acc' : list (nat * Z)) : Prop :=
    (forall q, In q qs -> value_at acc' (s_pos q) = s_val q) /\
    (forall pos, ~ In pos (map s_pos qs) -> value_at acc' pos = value_at acc pos).

  Lemma value_at_cons_eq pos v acc : value_at ((pos, v) :: acc) pos = v.
  Proof. unfold value_at. cbn [find fst]. rewrite Nat.eqb_refl. reflexivity. Qed.
  Lemma value_at_cons_ne pos pos' v acc : pos <> pos' -> value_at ((pos', v) :: acc) pos = value_at acc pos.
  Proof. intros H. unfold value_at. cbn [find fst]. destruct (Nat.eqb_spec pos' pos); [congruence|reflexivity]. Qed.

  Lemma run_unseq_unfold n p0 ps0 (st : state) o acc :
    run_unseq (S n) (p0 :: ps0) st o acc =
    let '(c, o1) := pick o in
    let i := (c mod length (p0 :: ps0))%nat in
    let '(pos, th) := nth i (p0 :: ps0) p0 in
    let '(s1, v, o2) := th st o1 in
    run_unseq n (firstn i (p0 :: ps0) ++ skipn (S i) (p0 :: ps0)) s1 o2 ((pos, v) :: acc).
  Proof. reflexivity. Qed.

  Lemma run_unseq_spec : forall n ps qs, pend_ok ps qs -> n = length ps ->
    amo (map s_tr qs) -> NoDup (map s_pos qs) ->
    forall t o acc, exists o' acc',
      run_unseq n ps (s, t) o acc = ((s, rev (concat (map s_tr qs)) ++ t), acc', o') /\ vals_ok qs acc acc'.
  Proof.
    induction n as [|n IH]; intros ps qs Hok Hn Hamo Hnd t o acc.
    - destruct ps; [|discriminate]. inversion Hok; subst. exists o, acc. split; [reflexivity|].
      split; [intros q []|intros; reflexivity].
    - destruct ps as [|p0 ps0]; [discriminate|].
      rewrite run_unseq_unfold. set (ps := p0 :: ps0) in *.
      assert (Hlen : (0 < length ps)%nat) by (unfold ps; cbn; lia).
      destruct (pick o) as [c o1]. cbv zeta.
      set (i := (c mod length ps)%nat).
      assert (Hi : (i < length ps)%nat) by (apply Nat.mod_upper_bound; lia).
      destruct (split_at p0 ps i Hi) as (A & B & Esplit & LA).
      destruct (remove_split p0 A (nth i ps p0) B) as (Hnth & Hrem). rewrite LA, <- Esplit in Hnth, Hrem.
      rewrite Hrem. clear Hrem.
      rewrite Esplit in Hok. destruct (pend_ok_split _ _ _ _ Hok) as (QA & q & QB & -> & LQ & OA & OB & Epos & T).
      destruct (nth i ps p0) as [pos th] eqn:Ep. cbn [fst snd] in Epos, T.
      cbv beta iota zeta. destruct (T t o1) as (o2 & E2). rewrite E2. cbv beta iota zeta.
      rewrite map_app in Hamo, Hnd. cbn [map] in Hamo, Hnd.
      destruct (amo_remove _ _ _ Hamo) as (Hamo' & Hcat).
      assert (Hnd' : NoDup (map s_pos QA ++ map s_pos QB)) by (eapply NoDup_remove_1; exact Hnd).
      assert (Hnotin : ~ In (s_pos q) (map s_pos QA ++ map s_pos QB)) by (eapply NoDup_remove_2; exact Hnd).
      assert (Hn' : n = length (A ++ B)).
      { rewrite Esplit in Hn. rewrite app_length in *. cbn [length] in Hn. lia. }
      rewrite <- map_app in Hamo', Hnd', Hnotin.
      destruct (IH (A ++ B) (QA ++ QB) (pend_ok_app _ _ _ _ OA OB) Hn' Hamo' Hnd' (rev (s_tr q) ++ t) o2 ((pos, s_val q) :: acc))
        as (o3 & acc' & E3 & (V1 & V2)).
      exists o3, acc'. split.
      + assert (Etr : rev (concat (map s_tr (QA ++ q :: QB))) = rev (concat (map s_tr (QA ++ QB))) ++ rev (s_tr q)).
        { rewrite (map_app s_tr QA (q :: QB)). cbn [map]. rewrite Hcat, rev_app_distr, map_app. reflexivity. }
        rewrite Etr, <- app_assoc. exact E3.
      + split.
        * intros q' Hq'. apply in_app_or in Hq'. destruct Hq' as [Hq'|[<-|Hq']].
          -- apply V1. apply in_or_app. left. exact Hq'.
          -- rewrite (V2 _ Hnotin). subst pos. apply value_at_cons_eq.
          -- apply V1. apply in_or_app. right. exact Hq'.
        * intros p Hp. rewrite map_app in Hp. cbn [map] in Hp.
          assert (Hp1 : ~ In p (map s_pos (QA ++ QB))).
          { rewrite map_app. intros H. apply Hp. apply in_app_or in H. apply in_or_app. destruct H; [left|right; right]; auto. }
          rewrite (V2 _ Hp1). apply value_at_cons_ne. intros ->. apply Hp. apply in_or_app. right. left. subst pos. reflexivity.
  Qed.
End CSide.
