(* C01, core 3: evaluation order of side-effecting operands.
   Source language: expressions over constants, variables, calls and binary operators.
   Reference semantics [leval] = what the Lua 5.4 interpreter does (lcode.c luaK_infix /
   luaK_posfix): operands left to right, call arguments left to right, except that a *register
   local* used directly as the left operand of an arithmetic/bitwise/comparison operator is read
   when the operator executes, i.e. after the right operand has been evaluated.
   Compiler model [comp] = cgenerator.lua visitors.BinaryOp / visitor_Call with the analyzer's
   `sideeffect` attribute (analyzer.lua: a call has it iff the callee's type has it or - rule p_args_propagate,
   /repo 7b4cb3f - one of its arguments has it, an operator iff one of its operands has it); the two repaired
   rules are parameters [se_policy], scraped into Gen.v, not hard-coded.
   C semantics [ceval] of the output: operands of a plain C operator and the arguments of a plain C
   call are evaluated in an order chosen by an oracle (a list of naturals consumed left to right);
   statement-expression temporaries are sequenced.  No proofs here. *)
From Base Require Export LuaInt.
Local Open Scope Z_scope.

Inductive vkind := VLocal | VGlobal.   (* register local of the running function / anything else *)
Inductive aop := AAdd | ASub | AMul | ALt.

Inductive expr :=
  | EConst (v : Z)
  | EVar (k : vkind) (x : nat)
  | ECall (f : nat) (args : list expr)
  | EBin (o : aop) (l r : expr).

(* a function: whether it prints (an event), the writes it performs, the variable whose final value
   it adds to its result, its base result.  [w_direct] tells whether a write is an assignment to a
   static-storage *variable* or goes through a record field, an array element, a pointer or self.  Since
   /repo 9e49985 the analyzer marks the enclosing function for both kinds (analyzer.lua visitors.Assign:
   `if symbol.staticstorage then mark ... else mark`); before, only direct writes were seen.
   [w_inc] = the write is `x = x + v` rather than `x = v`. *)
Record wspec := mk_w { w_direct : bool; w_var : nat; w_val : Z; w_inc : bool }.
Record fdef := mk_fdef { f_event : bool; f_writes : list wspec; f_retvar : option nat; f_base : Z }.
Definition fenv := nat -> fdef.
(* what the analyzer looks at when it computes the `sideeffect` attribute; both facts are scraped from
   analyzer.lua into Gen.v (C01: se_policy), the theorems say which of them they need:
     p_args_propagate  visitor_Call: a call whose callee has no side effect takes the attribute from its
                       arguments (`if argnodes[i].attr.sideeffect then attr.sideeffect = true end`, /repo 7b4cb3f)
     p_indirect_marks  visitors.Assign: a store whose target has no symbol (field, index, pointer, self) marks
                       the enclosing function (`else context:mark_funcscope_sideeffect()`, /repo 9e49985) *)
Record se_policy := mk_sep { p_args_propagate : bool; p_indirect_marks : bool }.
(* the `sideeffect` attribute of a function as the analyzer computes it: it prints, or performs a write the
   analyzer sees (a direct write always; an indirect one under p_indirect_marks) *)
Definition f_se (pol : se_policy) (d : fdef) : bool :=
  f_event d || existsb (fun w => w_direct w || p_indirect_marks pol) (f_writes d).

Definition store := list Z.
Definition rd (s : store) (x : nat) : Z := nth x s 0.
Fixpoint wr (s : store) (x : nat) (v : Z) : store :=
  match s, x with
  | [], O => [v]
  | [], S x' => 0 :: wr [] x' v
  | _ :: r, O => v :: r
  | a :: r, S x' => a :: wr r x' v
  end.

(* state: store and the trace of events (function id, argument values), most recent first *)
Definition state : Type := store * list (nat * list Z).

Definition binop (o : aop) (a b : Z) : Z :=
  match o with AAdd => ladd a b | ASub => lsub a b | AMul => lmul a b | ALt => if a <? b then 1 else 0 end.

Definition apply_w (s : store) (w : wspec) : store :=
  wr s (w_var w) (if w_inc w then ladd (rd s (w_var w)) (w_val w) else w_val w).

Definition do_call (fe : fenv) (f : nat) (vs : list Z) (st : state) : state * Z :=
  let d := fe f in
  let s' := fold_left apply_w (f_writes d) (fst st) in
  let r := fold_left ladd vs (f_base d) in
  let r := match f_retvar d with Some x => ladd r (rd s' x) | None => r end in
  ((s', if f_event d then (f, vs) :: snd st else snd st), r).

(* ---------------- reference: Lua 5.4 ---------------- *)
Fixpoint leval (fe : fenv) (e : expr) (st : state) : state * Z :=
  match e with
  | EConst v => (st, v)
  | EVar _ x => (st, rd (fst st) x)
  | ECall f args =>
    let '(st', vs) :=
      (fix go (l : list expr) (st : state) : state * list Z :=
         match l with
         | [] => (st, [])
         | a :: r => let '(s1, v) := leval fe a st in let '(s2, vs) := go r s1 in (s2, v :: vs)
         end) args st in
    do_call fe f vs st'
  | EBin o l r =>
    match l with
    | EVar VLocal x =>
      let '(s1, vr) := leval fe r st in (s1, binop o (rd (fst s1) x) vr)
    | _ =>
      let '(s1, vl) := leval fe l st in
      let '(s2, vr) := leval fe r s1 in (s2, binop o vl vr)
    end
  end.

(* ---------------- the compiler ---------------- *)
Fixpoint has_se (pol : se_policy) (fe : fenv) (e : expr) : bool :=
  match e with
  | EConst _ | EVar _ _ => false
  | ECall f args => f_se pol (fe f) || (p_args_propagate pol && existsb (has_se pol fe) args)
  | EBin _ l r => has_se pol fe l || has_se pol fe r
  end.

Inductive cexpr :=
  | CConst (v : Z)
  | CVar (x : nat)
  | CCall (f : nat) (args : list cexpr)                 (* f(a1, .., an) *)
  | CCallSeq (f : nat) (args : list (bool * cexpr))     (* ({ T _tmp1 = ..; ..; f(.., _tmpk, ..); }) : flagged arguments first, in order *)
  | CBin (o : aop) (l r : cexpr)                        (* (l op r) *)
  | CBinSeq (o : aop) (l r : cexpr).                    (* ({ T t1_ = l; T t2_ = r; t1_ op t2_; }) *)

Fixpoint comp (pol : se_policy) (fe : fenv) (e : expr) : cexpr :=
  match e with
  | EConst v => CConst v
  | EVar _ x => CVar x
  | ECall f args =>
    let cargs := map (comp pol fe) args in
    let flags := map (has_se pol fe) args in
    if (2 <=? length (filter (fun b => b) flags))%nat then CCallSeq f (combine flags cargs) else CCall f cargs
  | EBin o l r =>
    if has_se pol fe l && has_se pol fe r then CBinSeq o (comp pol fe l) (comp pol fe r) else CBin o (comp pol fe l) (comp pol fe r)
  end.

(* ---------------- C semantics with an oracle ---------------- *)
Definition oracle := list nat.
Definition pick (o : oracle) : nat * oracle := match o with [] => (O, []) | c :: r => (c, r) end.
Definition thunk := state -> oracle -> state * Z * oracle.

(* evaluate the pending (position, thunk) pairs in an order chosen by the oracle *)
Fixpoint run_unseq (n : nat) (pending : list (nat * thunk)) (st : state) (o : oracle) (acc : list (nat * Z))
  : state * list (nat * Z) * oracle :=
  match n with
  | O => (st, acc, o)
  | S n' =>
    match pending with
    | [] => (st, acc, o)
    | p0 :: _ =>
      let '(c, o1) := pick o in
      let i := (c mod length pending)%nat in
      let '(pos, th) := nth i pending p0 in
      let '(s1, v, o2) := th st o1 in
      run_unseq n' (firstn i pending ++ skipn (S i) pending) s1 o2 ((pos, v) :: acc)
    end
  end.

(* evaluate in list order *)
Fixpoint run_seq (pending : list (nat * thunk)) (st : state) (o : oracle) (acc : list (nat * Z))
  : state * list (nat * Z) * oracle :=
  match pending with
  | [] => (st, acc, o)
  | (pos, th) :: r => let '(s1, v, o1) := th st o in run_seq r s1 o1 ((pos, v) :: acc)
  end.

Definition value_at (vals : list (nat * Z)) (pos : nat) : Z :=
  match find (fun p => Nat.eqb (fst p) pos) vals with Some p => snd p | None => 0 end.

Fixpoint number {A} (n : nat) (l : list A) : list (nat * A) :=
  match l with [] => [] | a :: r => (n, a) :: number (S n) r end.

Fixpoint ceval (fe : fenv) (e : cexpr) : thunk :=
  fun st o =>
  match e with
  | CConst v => (st, v, o)
  | CVar x => (st, rd (fst st) x, o)
  | CBin op l r =>
    let '(c, o1) := pick o in
    if Nat.even c then
      let '(s1, vl, o2) := ceval fe l st o1 in
      let '(s2, vr, o3) := ceval fe r s1 o2 in (s2, binop op vl vr, o3)
    else
      let '(s1, vr, o2) := ceval fe r st o1 in
      let '(s2, vl, o3) := ceval fe l s1 o2 in (s2, binop op vl vr, o3)
  | CBinSeq op l r =>
    let '(s1, vl, o1) := ceval fe l st o in
    let '(s2, vr, o2) := ceval fe r s1 o1 in (s2, binop op vl vr, o2)
  | CCall f args =>
    let ths := number O ((fix mk (l : list cexpr) : list thunk :=
                            match l with [] => [] | a :: r => ceval fe a :: mk r end) args) in
    let '(s1, vals, o1) := run_unseq (length ths) ths st o [] in
    let '(s2, v) := do_call fe f (map (fun p => value_at vals (fst p)) ths) s1 in (s2, v, o1)
  | CCallSeq f fargs =>
    let ths := number O ((fix mk (l : list (bool * cexpr)) : list (bool * thunk) :=
                            match l with [] => [] | (b, a) :: r => (b, ceval fe a) :: mk r end) fargs) in
    let tmps := map (fun p => (fst p, snd (snd p))) (filter (fun p => fst (snd p)) ths) in
    let rest := map (fun p => (fst p, snd (snd p))) (filter (fun p => negb (fst (snd p))) ths) in
    let '(s1, vals1, o1) := run_seq tmps st o [] in
    let '(s2, vals2, o2) := run_unseq (length rest) rest s1 o1 vals1 in
    let '(s3, v) := do_call fe f (map (fun p => value_at vals2 (fst p)) ths) s2 in (s3, v, o2)
  end.

(* what is observable: final store, trace, value *)
Definition lua_run (fe : fenv) (e : expr) (st : state) : state * Z := leval fe e st.
Definition nelua_run (pol : se_policy) (fe : fenv) (e : expr) (st : state) (o : oracle) : state * Z :=
  let '(s, v, _) := ceval fe (comp pol fe e) st o in (s, v).
