(* One case per line on stdin, one result line on stdout (extracted model of coq/C01).
   Integers travel as signed hex (zutil).
     bin <op> <a> <b>        op in add sub mul band bor bxor idiv imod shl shr lt le eq ne
                             -> "rt=<outcome> lua=<outcome>"   outcome = v:<hex> | panic | ub
     un <op> <a>             op in unm bnot
     mix <op> <i> <float>    op in lt_if le_if lt_fi le_fi eq_if gt_if ge_if ne_if ; float = nan | +inf | -inf | fin:<m>:<e>
                             -> "rt=<0|1> lua=<0|1> exact=<0|1>"
     rne <i>                 -> hex of rne53 i
     for <a> <b> <s> <cap>   -> "lua=<v,v,..>/<ended> nelua=<v,v,..>/<ended>/<ub>"
     parse <tok> ...         tokens: n<k> | <binop name> | u:<unop name> | ( | )
                             -> "nelua=<sexpr> lua=<sexpr>"                                      *)
open Model
open Zutil

let out_s (o : outcome) = match o with OUB -> "ub" | OPanic -> "panic" | ORet v -> "v:" ^ hex_of_z v
let b2s b = if b then "1" else "0"
let obool (b : bool) : outcome = ORet (if b then z_of_int 1 else Z0)

let binop_of_name = function
  | "or" -> OpOr | "and" -> OpAnd | "lt" -> OpLt | "gt" -> OpGt | "le" -> OpLe | "ge" -> OpGe
  | "eq" -> OpEq | "ne" -> OpNe | "bor" -> OpBor | "bxor" -> OpBxor | "band" -> OpBand
  | "shl" -> OpShl | "shr" -> OpShr | "concat" -> OpConcat | "add" -> OpAdd | "sub" -> OpSub
  | "mul" -> OpMul | "div" -> OpDiv | "idiv" -> OpIdiv | "mod" -> OpMod | "pow" -> OpPow
  | s -> failwith ("binop " ^ s)
let name_of_binop = function
  | OpOr -> "or" | OpAnd -> "and" | OpLt -> "lt" | OpGt -> "gt" | OpLe -> "le" | OpGe -> "ge"
  | OpEq -> "eq" | OpNe -> "ne" | OpBor -> "bor" | OpBxor -> "bxor" | OpBand -> "band"
  | OpShl -> "shl" | OpShr -> "shr" | OpConcat -> "concat" | OpAdd -> "add" | OpSub -> "sub"
  | OpMul -> "mul" | OpDiv -> "div" | OpIdiv -> "idiv" | OpMod -> "mod" | OpPow -> "pow"
let unop_of_name = function
  | "not" -> UNot | "unm" -> UNeg | "len" -> ULen | "bnot" -> UBnot | s -> failwith ("unop " ^ s)
let name_of_unop = function UNot -> "not" | UNeg -> "unm" | ULen -> "len" | UBnot -> "bnot"

let rec sexpr (a : ast) : string =
  match a with
  | ANum n -> string_of_int (int_of_z n)
  | ABin (o, l, r) -> "(" ^ name_of_binop o ^ " " ^ sexpr l ^ " " ^ sexpr r ^ ")"
  | AUn (u, x) -> "(" ^ name_of_unop u ^ " " ^ sexpr x ^ ")"
  | AParen x -> "(paren " ^ sexpr x ^ ")"

let pres (p : presult) = match p with PErr -> "error" | PFuel -> "fuel" | POk (a, _) -> sexpr a

let tok_of (s : string) : tok =
  if s = "(" then TLp else if s = ")" then TRp
  else if s.[0] = 'n' && String.length s > 1 && s.[1] >= '0' && s.[1] <= '9' then
    TNum (z_of_int (int_of_string (String.sub s 1 (String.length s - 1))))
  else if String.length s > 2 && String.sub s 0 2 = "u:" then TUn (unop_of_name (String.sub s 2 (String.length s - 2)))
  else TBin (binop_of_name s)

let fl_of (s : string) : fl =
  match String.split_on_char ':' s with
  | [ "nan" ] -> FNaN
  | [ "+inf" ] -> FInf false
  | [ "-inf" ] -> FInf true
  | [ "fin"; m; e ] -> FFin (z_of_hex m, z_of_hex e)
  | _ -> failwith ("float " ^ s)

let zl (l : z list) = String.concat "," (List.map hex_of_z l)

(* ---- evaluation order cases ----
   order F <nf> {<id> <event 0|1> <base> <retvar|-> <nw> {<direct 0|1> <var> <val> <inc 0|1>}} S <n> {<v>} E <expr>
   expr (prefix): c <v> | l <x> | g <x> | call <f> <n> <expr>.. | add|sub|mul|lt <expr> <expr>  *)
let rec take_n n f ts = if n = 0 then ([], ts) else let x, r = f ts in let l, r' = take_n (n - 1) f r in (x :: l, r')
let rec parse_expr (ts : string list) : expr * string list =
  match ts with
  | "c" :: v :: r -> (EConst (z_of_hex v), r)
  | "l" :: x :: r -> (EVar (VLocal, nat_of_int (int_of_string x)), r)
  | "g" :: x :: r -> (EVar (VGlobal, nat_of_int (int_of_string x)), r)
  | "call" :: f :: n :: r ->
    let args, r' = take_n (int_of_string n) parse_expr r in
    (ECall (nat_of_int (int_of_string f), args), r')
  | op :: r when op = "add" || op = "sub" || op = "mul" || op = "lt" ->
    let l, r1 = parse_expr r in
    let rr, r2 = parse_expr r1 in
    (EBin ((match op with "add" -> AAdd | "sub" -> ASub | "mul" -> AMul | _ -> ALt), l, rr), r2)
  | _ -> failwith "expr syntax"

let parse_fenv (ts : string list) : (nat -> fdef) * string list =
  match ts with
  | "F" :: nf :: r ->
    let one ts = (match ts with
      | id :: ev :: base :: rv :: nw :: r ->
        let ws, r' = take_n (int_of_string nw) (fun ts -> match ts with
          | dir :: x :: v :: inc :: r ->
            ({ w_direct = (dir = "1"); w_var = nat_of_int (int_of_string x); w_val = z_of_hex v; w_inc = (inc = "1") }, r)
          | _ -> failwith "write") r in
        ((int_of_string id, { f_event = (ev = "1"); f_writes = ws;
                              f_retvar = (if rv = "-" then None else Some (nat_of_int (int_of_string rv)));
                              f_base = z_of_hex base }), r')
      | _ -> failwith "fdef") in
    let defs, r' = take_n (int_of_string nf) one r in
    ((fun f -> match List.assoc_opt (int_of_nat f) defs with
               | Some d -> d | None -> { f_event = false; f_writes = []; f_retvar = None; f_base = Z0 }), r')
  | _ -> failwith "fenv syntax"

let show_result ((st, v) : (z list * (nat * z list) list) * z) : string =
  let store, trace = st in
  hex_of_z v ^ ";" ^ zl store ^ ";"
  ^ String.concat "|" (List.rev_map (fun (f, vs) -> string_of_int (int_of_nat f) ^ ":" ^ zl vs) trace)

(* all oracle prefixes of length len over 0..k-1 *)
let rec oracles k len : nat list list =
  if len = 0 then [ [] ]
  else List.concat_map (fun o -> List.init k (fun c -> nat_of_int c :: o)) (oracles k (len - 1))

let () =
  iter_lines (fun line ->
    match split_ws line with
    | [] -> ()
    | kind :: args ->
      let z i = z_of_hex (List.nth args i) in
      let out =
        try
          (match kind with
           | "bin" ->
             let a = z 1 and b = z 2 in
             let rt, lua =
               (match List.nth args 0 with
                | "add" -> (rt_add a b, ORet (ladd a b))
                | "sub" -> (rt_sub a b, ORet (lsub a b))
                | "mul" -> (rt_mul a b, ORet (lmul a b))
                | "band" -> (rt_band a b, ORet (lband a b))
                | "bor" -> (rt_bor a b, ORet (lbor a b))
                | "bxor" -> (rt_bxor a b, ORet (lbxor a b))
                | "idiv" -> (rt_idiv false a b, lua_out (lidiv a b))
                | "imod" -> (rt_imod false a b, lua_out (lmod a b))
                | "idiv_nc" -> (rt_idiv true a b, lua_out (lidiv a b))
                | "imod_nc" -> (rt_imod true a b, lua_out (lmod a b))
                | "shl" -> (rt_shl false a b, ORet (lshl a b))
                | "shr" -> (rt_shr false a b, ORet (lshr a b))
                | "shlk" -> (rt_shl true a b, ORet (lshl a b))
                | "shrk" -> (rt_shr true a b, ORet (lshr a b))
                | "lt" -> (rt_lt a b, obool (llt a b))
                | "le" -> (rt_le a b, obool (lle a b))
                | "eq" -> (rt_eq a b, obool (Z.eqb a b))
                | "ne" -> (rt_ne a b, obool (not (Z.eqb a b)))
                | "gt" -> (rt_lt b a, obool (llt b a))      (* a > b is b < a (lvm.c: OP_LT with swapped operands) *)
                | "ge" -> (rt_le b a, obool (lle b a))
                | s -> failwith ("op " ^ s)) in
             "rt=" ^ out_s rt ^ " lua=" ^ out_s lua
           | "un" ->
             let a = z 1 in
             let rt, lua =
               (match List.nth args 0 with
                | "unm" -> (rt_unm a, ORet (lneg a))
                | "bnot" -> (rt_bnot a, ORet (lbnot a))
                | s -> failwith ("op " ^ s)) in
             "rt=" ^ out_s rt ^ " lua=" ^ out_s lua
           | "mix" ->
             let i = z 1 and f = fl_of (List.nth args 2) in
             let rt, lua, ex =
               (match List.nth args 0 with
                | "lt_if" -> (rt_lt_if i f, lua_lt_if i f, exact_lt_if i f)
                | "le_if" -> (rt_le_if i f, lua_le_if i f, exact_le_if i f)
                | "lt_fi" -> (rt_lt_fi f i, lua_lt_fi f i, exact_lt_fi f i)
                | "le_fi" -> (rt_le_fi f i, lua_le_fi f i, exact_le_fi f i)
                | "eq_if" -> (rt_eq_if i f, lua_eq_if i f, exact_eq_if i f)
                | "gt_if" -> (rt_lt_fi f i, lua_lt_fi f i, exact_lt_fi f i)      (* i > f is f < i *)
                | "ge_if" -> (rt_le_fi f i, lua_le_fi f i, exact_le_fi f i)
                | "ne_if" -> (not (rt_eq_if i f), not (lua_eq_if i f), not (exact_eq_if i f))
                | s -> failwith ("op " ^ s)) in
             "rt=" ^ b2s rt ^ " lua=" ^ b2s lua ^ " exact=" ^ b2s ex
           | "rne" -> hex_of_z (rne53 (z 0))
           | "for" ->
             let a = z 0 and b = z 1 and s = z 2 in
             let cap = nat_of_int (int_of_string (List.nth args 3)) in
             let l = (match lua_for_prefix cap a b s with
                      | None -> "error"
                      | Some (vs, ended) -> zl vs ^ "/" ^ b2s ended) in
             let ((vs, ended), ub) = nelua_prefix cap a b s in
             "lua=" ^ l ^ " nelua=" ^ zl vs ^ "/" ^ b2s ended ^ "/" ^ b2s ub
           | "vd" ->
             (* vd <slot> ..   slot = (u|d)(N | C<e> | P<e> | R<k>:<e>): order of the effects of a declaration *)
             let nat s = nat_of_int (int_of_string s) in
             let slot a =
               let used = (a.[0] = 'u') in
               let rest = String.sub a 2 (String.length a - 2) in
               let src = (match a.[1] with
                 | 'N' -> VNone
                 | 'C' -> VPlain (nat rest, false)
                 | 'P' -> VPlain (nat rest, true)
                 | 'R' -> (match String.split_on_char ':' rest with
                           | [ k; e ] -> VRet (nat k, nat e) | _ -> failwith "slot")
                 | _ -> failwith "slot") in
               { s_used = used; s_src = src } in
             let l = List.map slot args in
             let show x = String.concat "," (List.map (fun n -> string_of_int (int_of_nat n)) x) in
             Printf.sprintf "wf=%d dce=%s nodce=%s src=%s" (if vd_wf l then 1 else 0)
               (show (vd_effects vardecl_policy false l)) (show (vd_effects vardecl_policy true l)) (show (src_effects l))
           | "parse" ->
             let ts = List.map tok_of args in
             "nelua=" ^ pres (climb nelua_table ts) ^ " lua=" ^ pres (climb lua_table ts)
           | "order" ->
             let fe, r = parse_fenv args in
             let store, r = (match r with
               | "S" :: n :: r -> take_n (int_of_string n) (fun ts -> (z_of_hex (List.hd ts), List.tl ts)) r
               | _ -> failwith "store") in
             let e, _ = (match r with "E" :: r -> parse_expr r | _ -> failwith "expr") in
             let st = (store, []) in
             let l = show_result (lua_run fe e st) in
             (* number of choice points met when every choice is 0, as an upper bound on the depth needed *)
             let zeros = List.init 64 (fun _ -> O) in
             let ((_, _), rest) = ceval fe (comp analyzer_se_policy fe e) st zeros in
             let npicks = 64 - List.length rest in
             let rs =
               if npicks > 8 then [ "?" ]
               else List.sort_uniq compare (List.map (fun o -> show_result (nelua_run analyzer_se_policy fe e st o)) (oracles 3 npicks)) in
             "lua=" ^ l ^ " nelua=" ^ String.concat " " rs
           | _ -> "?unknown")
        with e -> "!exn " ^ Printexc.to_string e
      in
      print_string out; print_newline ())
