From C01 Require Import Model Order.
Require Extraction.
Require Import ExtrOcamlBasic.
Extraction "model.ml"
  rt_add rt_sub rt_mul rt_band rt_bor rt_bxor rt_unm rt_bnot rt_lt rt_le rt_eq rt_ne
  rt_idiv rt_imod rt_shl rt_shr
  ladd lsub lmul lband lbor lbxor lneg lbnot llt lle lidiv lmod lshl lshr lua_out
  rne53 rt_lt_if rt_le_if rt_lt_fi rt_le_fi rt_eq_if lua_lt_if lua_le_if lua_lt_fi lua_le_fi lua_eq_if
  exact_lt_if exact_le_if exact_lt_fi exact_le_fi exact_eq_if
  lua_for_prefix nelua_prefix
  climb nelua_table lua_table
  lua_run nelua_run mk_fdef mk_w f_se ceval comp
  vd_effects src_effects vd_wf vardecl_policy analyzer_se_policy.
