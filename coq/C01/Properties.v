(* Property C01: compiled programs behave exactly like the same program under reference Lua 5.4.
   Only the property theorems; each is closed by [exact] of a lemma of Proofs*.v and followed by
   Print Assumptions.  rt_* = what Nelua emits for integer = int64 (Helpers.v over CSem.v in the
   dialect given by the scraped base flags); l* = Lua 5.4 (Base.LuaInt). *)
From Coq Require Import Permutation.
From C01 Require Import Model Order ProofsArith ProofsDiv ProofsShift ProofsMisc ProofsOrder ProofsFor ProofsOrdA ProofsOrdD ProofsMixed.
Local Open Scope Z_scope.

(* ---- core 1: integer operators ---- *)
Theorem C01_add_eq : forall a b, in_i64 a -> in_i64 b -> rt_add a b = ORet (ladd a b).
Proof. exact rt_add_ok. Qed.
Print Assumptions C01_add_eq.

Theorem C01_sub_eq : forall a b, in_i64 a -> in_i64 b -> rt_sub a b = ORet (lsub a b).
Proof. exact rt_sub_ok. Qed.
Print Assumptions C01_sub_eq.

Theorem C01_mul_eq : forall a b, in_i64 a -> in_i64 b -> rt_mul a b = ORet (lmul a b).
Proof. exact rt_mul_ok. Qed.
Print Assumptions C01_mul_eq.

Theorem C01_unm_eq : forall a, in_i64 a -> rt_unm a = ORet (lneg a).
Proof. exact rt_unm_ok. Qed.
Print Assumptions C01_unm_eq.

Theorem C01_band_eq : forall a b, in_i64 a -> in_i64 b -> rt_band a b = ORet (lband a b).
Proof. exact rt_band_ok. Qed.
Print Assumptions C01_band_eq.

Theorem C01_bor_eq : forall a b, in_i64 a -> in_i64 b -> rt_bor a b = ORet (lbor a b).
Proof. exact rt_bor_ok. Qed.
Print Assumptions C01_bor_eq.

Theorem C01_bxor_eq : forall a b, in_i64 a -> in_i64 b -> rt_bxor a b = ORet (lbxor a b).
Proof. exact rt_bxor_ok. Qed.
Print Assumptions C01_bxor_eq.

Theorem C01_bnot_eq : forall a, in_i64 a -> rt_bnot a = ORet (lbnot a).
Proof. exact rt_bnot_ok. Qed.
Print Assumptions C01_bnot_eq.

(* floor division and modulo: for every non-zero divisor, checked or not, the helper returns
   Lua's luaV_idiv / luaV_mod; for a zero divisor both sides stop with an error *)
Theorem C01_idiv_eq : forall nochecks a b, in_i64 a -> in_i64 b -> b <> 0 ->
  rt_idiv nochecks a b = lua_out (lidiv a b).
Proof. exact rt_idiv_ok. Qed.
Print Assumptions C01_idiv_eq.

Theorem C01_imod_eq : forall nochecks a b, in_i64 a -> in_i64 b -> b <> 0 ->
  rt_imod nochecks a b = lua_out (lmod a b).
Proof. exact rt_imod_ok. Qed.
Print Assumptions C01_imod_eq.

(* the two theorems above depend on the scraped answer of Attr:is_maybe_negative for a run-time int64 operand
   (Model.rt_maybe_negative, computed from the scraped exits): for EVERY answer, the emitted // and % are Lua's for
   all operands exactly when the operand counts as possibly negative; otherwise -7 // 2 = -3 and -7 % 2 = -1 *)
Theorem C01_idiv_maybe_negative_iff : forall mn,
  (forall nochecks a b, in_i64 a -> in_i64 b -> b <> 0 ->
     emit_idiv idiv_guard_first base_mode I64 mn nochecks a b = lua_out (lidiv a b) /\
     emit_imod imod_guard_first base_mode I64 mn nochecks a b = lua_out (lmod a b)) <-> mn = true.
Proof. exact idiv_maybe_negative_iff. Qed.
Print Assumptions C01_idiv_maybe_negative_iff.

Theorem C01_div_by_zero_both_stop : forall a, in_i64 a ->
  rt_idiv false a 0 = lua_out (lidiv a 0) /\ rt_imod false a 0 = lua_out (lmod a 0).
Proof. exact rt_div_zero. Qed.
Print Assumptions C01_div_by_zero_both_stop.

(* shifts: every count, including negative and >= 64, with or without the compile-time-count shortcut *)
Theorem C01_shl_eq : forall cnt_comptime a b, in_i64 a -> in_i64 b -> rt_shl cnt_comptime a b = ORet (lshl a b).
Proof. exact rt_shl_ok. Qed.
Print Assumptions C01_shl_eq.

Theorem C01_shr_eq : forall cnt_comptime a b, in_i64 a -> in_i64 b -> rt_shr cnt_comptime a b = ORet (lshr a b).
Proof. exact rt_shr_ok. Qed.
Print Assumptions C01_shr_eq.

Theorem C01_cmp_eq : forall a b, in_i64 a -> in_i64 b ->
  rt_lt a b = ORet (b2z (llt a b)) /\ rt_le a b = ORet (b2z (lle a b)) /\
  rt_eq a b = ORet (b2z (a =? b)) /\ rt_ne a b = ORet (b2z (negb (a =? b))).
Proof. exact rt_cmps_ok. Qed.
Print Assumptions C01_cmp_eq.

(* ---- core 1: mixed integer/float comparison: full statement false on the unchanged tree ---- *)
Theorem C01_mixed_cmp_refuted : ~ mixed_cmp_eq_full.
Proof. exact mixed_cmp_refuted. Qed.
Print Assumptions C01_mixed_cmp_refuted.

Theorem C01_mixed_cmp_partial : forall i f, in_i64 i -> Z.abs i <= 2 ^ 53 ->
  rt_lt_if i f = lua_lt_if i f /\ rt_le_if i f = lua_le_if i f /\
  rt_lt_fi f i = lua_lt_fi f i /\ rt_le_fi f i = lua_le_fi f i /\ rt_eq_if i f = lua_eq_if i f.
Proof. exact mixed_cmp_partial. Qed.
Print Assumptions C01_mixed_cmp_partial.

(* the reference side is exact: lvm.c LTintfloat / LEintfloat / LTfloatint / LEfloatint and
   luaV_equalobj decide the mathematical comparison for every int64 i and every float f (finite,
   infinite or NaN) *)
Theorem C01_lua_mixed_cmp_exact : forall i f, in_i64 i ->
  lua_lt_if i f = exact_lt_if i f /\ lua_le_if i f = exact_le_if i f /\
  lua_lt_fi f i = exact_lt_fi f i /\ lua_le_fi f i = exact_le_fi f i /\ lua_eq_if i f = exact_eq_if i f.
Proof. exact lua_mixed_cmp_exact. Qed.
Print Assumptions C01_lua_mixed_cmp_exact.

(* ---- core 2: numeric for ---- *)
Theorem C01_fornum_refuted : ~ fornum_eq_full.
Proof. exact fornum_refuted. Qed.
Print Assumptions C01_fornum_refuted.

(* away from the type limits (limit + step representable) the emitted C loop terminates and yields
   exactly the iteration values of lvm.c forprep/forloop, for every start, limit and non-zero step *)
Theorem C01_fornum_partial : forall a b s, in_i64 a -> in_i64 b -> in_i64 s -> s <> 0 ->
  (0 < s -> b + s <= maxint) -> (s < 0 -> minint <= b + s) ->
  exists fuel l, nelua_loop fuel a b s = LDone l /\ lua_for a b s = Some l.
Proof. exact fornum_partial. Qed.
Print Assumptions C01_fornum_partial.

(* ---- core 3: evaluation order (Order.v).  [pol] = analyzer_se_policy, the analyzer's two `sideeffect` rules as
   scraped from analyzer.lua into Gen.v (a call takes the attribute of its arguments; a store through a field,
   an index or a pointer marks the enclosing function).  Full statement: for every expression, state and choice
   the C compiler may make, the compiled code leaves the same store, trace and value as Lua.  It is
   false on the unchanged tree in four ways. ---- *)
Theorem C01_order_refuted : ~ order_preserved_full.
Proof. exact order_refuted. Qed.
Print Assumptions C01_order_refuted.

Theorem C01_order_refuted_global : exists o, snd (nelua_run pol fe_w e_global st_w o) <> snd (lua_run fe_w e_global st_w).
Proof. exact order_refuted_global. Qed.
Print Assumptions C01_order_refuted_global.

Theorem C01_order_refuted_local : exists o, snd (nelua_run pol fe_w e_local st_w o) <> snd (lua_run fe_w e_local st_w).
Proof. exact order_refuted_local. Qed.
Print Assumptions C01_order_refuted_local.

Theorem C01_order_refuted_args3 : forall o, nelua_run pol fe_w e_args3 st_w o <> lua_run fe_w e_args3 st_w.
Proof. exact order_refuted_args3. Qed.
Print Assumptions C01_order_refuted_args3.

(* the two repaired analyzer rules, for EVERY policy: each former witness agrees with Lua under every C evaluation
   order exactly when the corresponding rule is in force (a revert of /repo 7b4cb3f or 9e49985 flips the scraped
   boolean and breaks the three theorems after this one) *)
Theorem C01_order_se_policy_iff : forall p,
  (p_args_propagate p = true <-> (forall o, nelua_run p fe_w e_wrapper st_w o = lua_run fe_w e_wrapper st_w)) /\
  (p_indirect_marks p = true <-> (forall o, nelua_run p fe_w e_unflagged st_w o = lua_run fe_w e_unflagged st_w)).
Proof. exact (fun p => conj (args_propagate_iff p) (indirect_marks_iff p)). Qed.
Print Assumptions C01_order_se_policy_iff.

(* id(f()) + h(): repaired in /repo 7b4cb3f (a call inherits the side effects of its arguments) *)
Theorem C01_order_wrapper_sequenced : forall o, nelua_run pol fe_w e_wrapper st_w o = lua_run fe_w e_wrapper st_w.
Proof. exact (proj1 (args_propagate_iff pol) (proj1 se_policy_facts)). Qed.
Print Assumptions C01_order_wrapper_sequenced.

(* g(h(f(1)), h(f(2))) with h free of side effects *)
Theorem C01_order_wrapped_args_sequenced : forall st o, nelua_run pol fe_ex e_wrapped_args st o = lua_run fe_ex e_wrapped_args st.
Proof. exact (fun st o => wrapped_args_sequenced pol st o (proj1 se_policy_facts)). Qed.
Print Assumptions C01_order_wrapped_args_sequenced.

(* show(bump(), bump()): repaired in /repo 9e49985 (a callee that only stores through a field is marked) *)
Theorem C01_order_indirect_store_sequenced : forall o, nelua_run pol fe_w e_unflagged st_w o = lua_run fe_w e_unflagged st_w.
Proof. exact (proj1 (indirect_marks_iff pol) (proj2 se_policy_facts)). Qed.
Print Assumptions C01_order_indirect_store_sequenced.

(* the positive statement, still restricted: when NO function writes a variable (the store is never written;
   the effects are events and values only), the compiled expression leaves the same trace of events and the
   same value as Lua for EVERY expression and EVERY order of evaluation the C compiler may choose - plain C
   operators/calls and both kinds of statement-expression temporaries.  It needs the analyzer rule
   p_args_propagate (discharged by the fact lemma over the scraped policy) and is false without it. *)
Theorem C01_order_preserved_partial : forall fe e st o,
  no_writes fe -> nelua_run pol fe e st o = lua_run fe e st.
Proof. exact (fun fe e st o => order_preserved_partial pol fe e st o (proj1 se_policy_facts)). Qed.
Print Assumptions C01_order_preserved_partial.

Theorem C01_order_args_rule_needed : forall p, p_args_propagate p = false ->
  no_writes fe_ex /\ exists o, nelua_run p fe_ex e_wrapped_args ([3], []) o <> lua_run fe_ex e_wrapped_args ([3], []).
Proof. exact args_policy_needed. Qed.
Print Assumptions C01_order_args_rule_needed.

(* ---- order of the values of a multi-variable declaration (VarDecl.v) ----
   full strength: the values of `local v1, .., vn = e1, .., em` are evaluated left to right, as Lua does, in every
   build mode, for every well-formed declaration.  True since /repo d685d37 and f54f9c0 (the bare initializer of a
   variable dropped by dead code elimination and the `_asgnret = call` statement of a trailing multiple-return
   call are written to `defemitter` like the definitions; the placement is scraped into Gen.vardecl_policy).  The two
   former witnesses are still replayed on every run and must agree with Lua. *)
Theorem C01_vardecl_order : vardecl_order_src_full vardecl_policy.
Proof. exact vardecl_order_src. Qed.
Print Assumptions C01_vardecl_order.

(* for every placement of the two kinds of statements: source order exactly when both go to defemitter
   (the two proposed repairs) *)
Theorem C01_vardecl_order_iff_policy : forall pol,
  vardecl_order_src_full pol <-> (p_dead_in_def pol = true /\ p_asgnret_in_def pol = true).
Proof. exact vd_src_iff. Qed.
Print Assumptions C01_vardecl_order_iff_policy.

(* for every placement (also the unrepaired ones): every value is evaluated exactly once (the C order is a permutation
   of the source order), and a declaration with at most one effectful value is in source order *)
Theorem C01_vardecl_order_partial : forall pol nodce l,
  Permutation (vd_effects pol nodce l) (src_effects l) /\
  ((length (src_effects l) <= 1)%nat -> vd_effects pol nodce l = src_effects l).
Proof. exact (fun pol nodce l => conj (vd_effects_perm pol nodce l) (vd_effects_single pol nodce l)). Qed.
Print Assumptions C01_vardecl_order_partial.

(* ---- core 4: precedence and associativity ---- *)
Theorem C01_tables_agree : forall ts, climb nelua_table ts = climb lua_table ts.
Proof. exact climb_tables_agree. Qed.
Print Assumptions C01_tables_agree.

(* tripwire for the scraped ladder: the facts about rule numbers the climb model relies on *)
Theorem C01_ladder_facts :
  (forall l, nelua_limit l <= nelua_unary_level) /\ nelua_unary_operand_level = nelua_unary_level /\
  (forall o, 1 <= nelua_level o) /\ (forall o, nelua_level o < nelua_operand_level o \/ nelua_operand_level o <= nelua_level o).
Proof. exact ladder_facts. Qed.
Print Assumptions C01_ladder_facts.
