(* The operators of the Lua 5.4 / Nelua shared subset (hand-written; Gen.v, which is generated,
   gives their positions in the two grammars). *)
From Coq Require Import ZArith List Bool.
Import ListNotations.

Inductive binop :=
  | OpOr | OpAnd
  | OpLt | OpGt | OpLe | OpGe | OpEq | OpNe
  | OpBor | OpBxor | OpBand | OpShl | OpShr
  | OpConcat | OpAdd | OpSub | OpMul | OpDiv | OpIdiv | OpMod | OpPow.

Inductive unop := UNot | UNeg | ULen | UBnot.

Definition all_binops : list binop :=
  [OpOr; OpAnd; OpLt; OpGt; OpLe; OpGe; OpEq; OpNe; OpBor; OpBxor; OpBand; OpShl; OpShr;
   OpConcat; OpAdd; OpSub; OpMul; OpDiv; OpIdiv; OpMod; OpPow].

Lemma all_binops_complete : forall o, In o all_binops.
Proof. destruct o; cbn; tauto. Qed.

Definition binop_eqb (a b : binop) : bool :=
  match a, b with
  | OpOr, OpOr | OpAnd, OpAnd | OpLt, OpLt | OpGt, OpGt | OpLe, OpLe | OpGe, OpGe | OpEq, OpEq
  | OpNe, OpNe | OpBor, OpBor | OpBxor, OpBxor | OpBand, OpBand | OpShl, OpShl | OpShr, OpShr
  | OpConcat, OpConcat | OpAdd, OpAdd | OpSub, OpSub | OpMul, OpMul | OpDiv, OpDiv
  | OpIdiv, OpIdiv | OpMod, OpMod | OpPow, OpPow => true
  | _, _ => false
  end.
