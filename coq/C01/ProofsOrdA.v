From C01 Require Import Order.
Local Open Scope Z_scope.

(* ---------- induction principle for expressions ---------- *)
Section ExprInd.
  Variable P : expr -> Prop.
  Hypothesis Hc : forall v, P (EConst v).
  Hypothesis Hv : forall k x, P (EVar k x).
  Hypothesis Hcall : forall f args, Forall P args -> P (ECall f args).
  Hypothesis Hbin : forall o l r, P l -> P r -> P (EBin o l r).
  Fixpoint expr_ind' (e : expr) : P e :=
    match e with
    | EConst v => Hc v
    | EVar k x => Hv k x
    | ECall f args => Hcall f args ((fix F (l : list expr) : Forall P l :=
                        match l with [] => Forall_nil P | x :: r => Forall_cons x (expr_ind' x) (F r) end) args)
    | EBin o l r => Hbin o l r (expr_ind' l) (expr_ind' r)
    end.
End ExprInd.

Notation ev := (nat * list Z)%type.

(* value and trace of an expression when no function writes a variable: they depend on the store only *)
Fixpoint val (fe : fenv) (s : store) (e : expr) : Z :=
  match e with
  | EConst v => v
  | EVar _ x => rd s x
  | ECall f args =>
    let r := fold_left ladd (map (val fe s) args) (f_base (fe f)) in
    match f_retvar (fe f) with Some x => ladd r (rd s x) | None => r end
  | EBin o l r => binop o (val fe s l) (val fe s r)
  end.
Fixpoint tr (fe : fenv) (s : store) (e : expr) : list ev :=
  match e with
  | ECall f args => flat_map (tr fe s) args ++ (if f_event (fe f) then [(f, map (val fe s) args)] else [])
  | EBin _ l r => tr fe s l ++ tr fe s r
  | _ => []
  end.

Definition no_writes (fe : fenv) : Prop := forall f, f_writes (fe f) = [].

Section NoWrites.
  Variable pol : se_policy.
  Hypothesis PA : p_args_propagate pol = true.   (* a call takes the attribute of its arguments *)
  Variable fe : fenv.
  Hypothesis NW : no_writes fe.
  Variable s : store.

  Lemma do_call_nw f vs t :
    do_call fe f vs (s, t) =
    ((s, if f_event (fe f) then (f, vs) :: t else t),
     let r := fold_left ladd vs (f_base (fe f)) in
     match f_retvar (fe f) with Some x => ladd r (rd s x) | None => r end).
  Proof. unfold do_call. rewrite NW. reflexivity. Qed.

  (* ---- Lua ---- *)
  Lemma leval_spec : forall e t, leval fe e (s, t) = ((s, rev (tr fe s e) ++ t), val fe s e).
  Proof.
    induction e as [v|k x|f args IH|o l r IHl IHr] using expr_ind'; intros t.
    - reflexivity.
    - reflexivity.
    - cbn [leval].
      assert (G : forall t, (fix go (l : list expr) (st : state) : state * list Z :=
                    match l with
                    | [] => (st, [])
                    | a :: r => let '(s1, v) := leval fe a st in let '(s2, vs) := go r s1 in (s2, v :: vs)
                    end) args (s, t) = ((s, rev (flat_map (tr fe s) args) ++ t), map (val fe s) args)).
      { induction IH as [|a r Ha _ IHr]; intros t0; [reflexivity|].
        rewrite Ha, IHr. cbn [flat_map map]. rewrite rev_app_distr, <- app_assoc. reflexivity. }
      rewrite G, do_call_nw. cbn [tr val]. f_equal. f_equal.
      destruct (f_event (fe f)); [|rewrite app_nil_r; reflexivity].
      rewrite rev_app_distr. reflexivity.
    - cbn [tr val].
      assert (D : leval fe (EBin o l r) (s, t) =
                  (let '(s1, vl) := leval fe l (s, t) in let '(s2, vr) := leval fe r s1 in (s2, binop o vl vr))).
      { destruct l as [v|[] x|f args|o' l1 l2]; try reflexivity.
        (* register local read late: same value, the store never changes *)
        cbn [leval]. rewrite IHr. reflexivity. }
      rewrite D, IHl, IHr. rewrite rev_app_distr, <- app_assoc. reflexivity.
  Qed.

  (* ---- expressions the analyzer leaves unmarked have an empty trace ---- *)
  Lemma f_se_nw f : f_se pol (fe f) = f_event (fe f).
  Proof. unfold f_se. rewrite NW. cbn. apply orb_false_r. Qed.

  Lemma unmarked_silent : forall e, has_se pol fe e = false -> tr fe s e = [].
  Proof.
    induction e as [v|k x|f args IH|o l r IHl IHr] using expr_ind'; intros Hs; try reflexivity.
    - cbn [has_se tr] in *. apply orb_false_iff in Hs. destruct Hs as (Hf & Hnone).
      rewrite PA in Hnone. cbn [andb] in Hnone.
      rewrite f_se_nw in Hf. rewrite Hf, app_nil_r.
      induction IH as [|a r' Ha _ IHr']; [reflexivity|].
      cbn [existsb flat_map] in *. apply orb_false_iff in Hnone. destruct Hnone as (N1 & N2).
      rewrite (Ha N1), (IHr' N2). reflexivity.
    - cbn [has_se tr] in *. apply orb_false_iff in Hs. destruct Hs as (S1 & S2). rewrite (IHl S1), (IHr S2). reflexivity.
  Qed.
End NoWrites.
