(* One case per line, one result per line:
   generic <call>|<call>..      call = T<id>;V<val>;..            -> eval index per instantiation, then #evals
   poly <alwayspoly> <call>|..  call = <type>:<tcomptime>:<isattr>:<comptime>:<value|->;...  -> index per call, then #evals
   hyg <def> <use> <body> <queries>   csv of k=v ("-" = empty), scope levels separated by '/', innermost first; queries csv of names
                                -> inside:<v|nil>,.. after:<v|nil>,..
   expand <prefix token stream> -> lines separated by '|', pieces by ',': t<n> i<z> n<prefix>:<z>
   (token stream: stmts = <k> stmt*;  stmt = emit <k> piece* | for <v> expr expr stmts | if cond stmts stmts
    | call <v> expr stmts;  piece = t <n> | s expr | n <prefix> expr;  expr = c <z> | v <n> | + e e | * e e | % e e;
    cond = = e e | < e e | ! cond) *)
open Model
open Zutil

let zi s = z_of_int (int_of_string s)
let split c s = if s = "" || s = "-" then [] else String.split_on_char c s
let kv s = match String.split_on_char '=' s with [ k; v ] -> (zi k, zi v) | _ -> failwith "kv"

let parse_garg a = match a.[0] with
  | 'T' -> GType (zi (String.sub a 1 (String.length a - 1)))
  | 'V' -> GVal (zi (String.sub a 1 (String.length a - 1)))
  | 'N' -> GNil
  | _ -> failwith "garg"
let parse_parg a = match String.split_on_char ':' a with
  | [ t; tc; ia; c; v ] -> { a_type = zi t; a_type_comptime = tc = "1"; a_is_attr = ia = "1"; a_comptime = c = "1";
                             a_value = (if v = "-" then None else Some (zi v)) }
  | _ -> failwith "parg"

(* token stream parser *)
let toks = ref []
let next () = match !toks with t :: r -> toks := r; t | [] -> failwith "eof"
let rec p_expr () = match next () with
  | "c" -> EConst (zi (next ()))
  | "v" -> EVar (nat_of_int (int_of_string (next ())))
  | "+" -> let a = p_expr () in let b = p_expr () in EAdd (a, b)
  | "*" -> let a = p_expr () in let b = p_expr () in EMul (a, b)
  | "%" -> let a = p_expr () in let b = p_expr () in EMod (a, b)
  | t -> failwith ("expr " ^ t)
let rec p_cond () = match next () with
  | "=" -> let a = p_expr () in let b = p_expr () in CEq (a, b)
  | "<" -> let a = p_expr () in let b = p_expr () in CLt (a, b)
  | "!" -> CNot (p_cond ())
  | t -> failwith ("cond " ^ t)
let p_piece () = match next () with
  | "t" -> PText (zi (next ()))
  | "s" -> PSubst (p_expr ())
  | "n" -> let p = zi (next ()) in PName (p, p_expr ())
  | t -> failwith ("piece " ^ t)
let rec p_list f = let k = int_of_string (next ()) in List.init k (fun _ -> ()) |> List.map (fun () -> f ())
let rec p_stmt () = match next () with
  | "emit" -> TEmit (p_list p_piece)
  | "for" -> let v = nat_of_int (int_of_string (next ())) in let lo = p_expr () in let hi = p_expr () in
    TFor (v, lo, hi, p_list p_stmt)
  | "if" -> let c = p_cond () in let th = p_list p_stmt in let el = p_list p_stmt in TIf (c, th, el)
  | "call" -> let v = nat_of_int (int_of_string (next ())) in let a = p_expr () in TCall (v, a, p_list p_stmt)
  | t -> failwith ("stmt " ^ t)

(* inject: items = p <id> | d <h> | c <acts of one call>; acts: e <id> | c <h> <k> acts* *)
let rec p_act () = match next () with
  | "e" -> HEmit (zi (next ()))
  | "c" -> let h = nat_of_int (int_of_string (next ())) in HCall (h, p_list p_act)
  | t -> failwith ("act " ^ t)

let show_opt = function Some v -> string_of_int (int_of_z v) | None -> "nil"

let () =
  iter_lines (fun line ->
    let out =
      try
        match split_ws line with
        | [] -> ""
        | [ "generic"; calls ] ->
          let cs = List.map (fun c -> List.map parse_garg (split ';' c)) (String.split_on_char '|' calls) in
          let rs, n = generic_run cs in
          String.concat " " (List.map (fun (i, _) -> string_of_int (int_of_nat i)) rs) ^ " #" ^ string_of_int (int_of_nat n)
        | [ "poly"; ap; calls ] ->
          let cs = List.map (fun c -> List.map parse_parg (split ';' c)) (String.split_on_char '|' calls) in
          let is, ev = poly_run pOLY_COMPARES_COMPTIME_VALUES (ap = "1") [] cs in
          String.concat " " (List.map (fun i -> string_of_int (int_of_nat i)) is) ^ " #" ^ string_of_int (List.length ev)
        | [ "hyg"; def; use; body; qs ] ->
          let mk l = List.fold_left (fun m (k, v) -> sset m k v) sempty (List.map kv (split ',' l)) in
          let levels x = List.map mk (String.split_on_char '/' x) in   (* innermost scope first *)
          let cp = levels def in
          let s = { cur = levels use; cpstack = [] } in
          (match hygienic_call pOP_CHECKPOINT_MERGES s cp (declare_all (List.map kv (split ',' body))) with
           | Some (inside, s3) ->
             let q = List.map zi (split ',' qs) in
             "inside:" ^ String.concat "," (List.map (fun k -> show_opt (lookup_chain inside sempty k)) q)
             ^ " after:" ^ String.concat "," (List.map (fun k -> show_opt (lookup_chain s3.cur sempty k)) q)
           | None -> "stack-underflow")
        | "inject" :: ts ->
          toks := ts;
          if hYGIENIZE_USES_CURSORS then begin
            let st = ref { hc_nodes = []; hc_cur = None; hc_fn = None; hc_saved = (fun _ -> O) } in
            (try
               while !toks <> [] do
                 (match next () with
                  | "p" -> st := hc_emit !st (zi (next ()))
                  | "d" -> let h = nat_of_int (int_of_string (next ())) in
                    st := { !st with hc_saved = set_saved !st.hc_saved h (nat_of_int (List.length !st.hc_nodes)) }
                  | "c" -> toks := "c" :: !toks; st := hc_run !st (p_act ())
                  | t -> failwith ("item " ^ t))
               done
             with Failure m when m = "eof" -> ());
            String.concat "," (List.map (fun z -> string_of_int (int_of_z z)) !st.hc_nodes)
          end else begin
            let st = ref { h_nodes = []; h_cur = None; h_saved = (fun _ -> O) } in
            (try
               while !toks <> [] do
                 (match next () with
                  | "p" -> st := h_emit !st (zi (next ()))
                  | "d" -> let h = nat_of_int (int_of_string (next ())) in
                    st := { !st with h_saved = set_saved !st.h_saved h (nat_of_int (List.length !st.h_nodes)) }
                  | "c" -> toks := "c" :: !toks; st := h_run hYGIENIZE_ADJUSTS_CALLER !st (p_act ())
                  | t -> failwith ("item " ^ t))
               done
             with Failure m when m = "eof" -> ());
            String.concat "," (List.map (fun z -> string_of_int (int_of_z z)) !st.h_nodes)
          end
        | "expand" :: ts ->
          toks := ts;
          let b = p_list p_stmt in
          let xs = expand (fun _ -> Z0) b in
          String.concat "|" (List.map (fun l -> String.concat "," (List.map (function
              | XText n -> "t" ^ string_of_int (int_of_z n)
              | XInt z -> "i" ^ string_of_int (int_of_z z)
              | XName (p, z) -> "n" ^ string_of_int (int_of_z p) ^ ":" ^ string_of_int (int_of_z z)) l)) xs)
        | _ -> "?unknown"
      with e -> "!exn " ^ Printexc.to_string e
    in
    print_string out; print_newline ())
