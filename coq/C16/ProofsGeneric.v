(* The premises of memoize_canonical are discharged for the argument match of generics as modelled
   (types by identity, comptime values by value, nil = nil), and the statement of the property follows:
   instantiating a generic with equal argument lists yields one and the same type object. *)
From Coq Require Import ZArith Bool List Lia.
From C16 Require Import Model ProofsMemo.
Import ListNotations.
Local Open Scope Z_scope.

Lemma garg_eqb_eq a b : garg_eqb a b = true <-> a = b.
Proof.
  destruct a, b; simpl; split; try discriminate; try reflexivity; rewrite ?Z.eqb_eq; try congruence;
    intros E; inversion E; reflexivity.
Qed.
Lemma gargs_eqb_eq a : forall b, gargs_eqb a b = true <-> a = b.
Proof.
  induction a as [|x a IH]; intros [|y b]; simpl; split; try discriminate; try reflexivity.
  - rewrite andb_true_iff, garg_eqb_eq, IH. intros [-> ->]; reflexivity.
  - intros E; inversion E; subst. rewrite andb_true_iff. split; [apply garg_eqb_eq|apply IH]; reflexivity.
Qed.
Lemma gargs_eqb_refl a : gargs_eqb a a = true.
Proof. apply gargs_eqb_eq; reflexivity. Qed.
Lemma gargs_eqb_sym a b : gargs_eqb a b = true -> gargs_eqb b a = true.
Proof. rewrite !gargs_eqb_eq; congruence. Qed.
Lemma gargs_eqb_trans a b c : gargs_eqb a b = true -> gargs_eqb b c = true -> gargs_eqb a c = true.
Proof. rewrite !gargs_eqb_eq; congruence. Qed.

(* two instantiations with equal argument lists are answered with the same evaluation (= the same
   type object); with different lists, with different ones *)
Theorem generic_same_type_lemma (args : list (list garg)) i j ai aj ri rj :
  nth_error args i = Some ai -> nth_error args j = Some aj ->
  nth_error (fst (generic_run args)) i = Some ri -> nth_error (fst (generic_run args)) j = Some rj ->
  ai = aj -> ri = rj.
Proof.
  intros Hi Hj Ri Rj E. unfold generic_run in *.
  destruct (memo_run (list garg) unit gargs_eqb (fun _ => tt) [] [] 0%nat args) as [rs nf] eqn:M. simpl in *.
  destruct (memo_run_canonical_lemma (list garg) unit gargs_eqb (fun _ => tt) gargs_eqb_refl gargs_eqb_sym gargs_eqb_trans
              args [] [] 0%nat rs nf (Forall_nil _) (good_nil _ _ _) M) as [_ C].
  subst aj. exact (C i j ai ai ri rj Hi Hj Ri Rj (gargs_eqb_refl ai)).
Qed.
