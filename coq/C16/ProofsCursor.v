(* The cursor bookkeeping of hygienize (ppcontext.lua since 6cc3727):
   the statements a hygienized function emits itself keep their emission order, whatever its body calls. *)
From Coq Require Import ZArith Bool List Lia.
From C16 Require Import Model.
Import ListNotations.
Local Open Scope Z_scope.

(* ---------- list facts about insert_at ---------- *)
Lemma insert_at_split {A} (l : list A) p y : (p <= length l)%nat ->
  exists l1 l2, l = l1 ++ l2 /\ length l1 = p /\ insert_at p y l = l1 ++ y :: l2.
Proof.
  intros L. exists (firstn p l), (skipn p l). split; [symmetry; apply firstn_skipn|].
  split; [apply firstn_length_le; auto|reflexivity].
Qed.

Lemma firstn_app_exact {A} (l1 l2 : list A) : firstn (length l1) (l1 ++ l2) = l1.
Proof. rewrite firstn_app, Nat.sub_diag, firstn_all. simpl. apply app_nil_r. Qed.
Lemma skipn_app_exact {A} (l1 l2 : list A) : skipn (length l1) (l1 ++ l2) = l2.
Proof. rewrite skipn_app, Nat.sub_diag, skipn_all. reflexivity. Qed.

Definition keep (D : list Z) (l : list Z) : list Z := restrict D l.
Lemma keep_app D a b : keep D (a ++ b) = keep D a ++ keep D b.
Proof. unfold keep, restrict. apply filter_app. Qed.
Lemma keep_foreign D y : ~ In y D -> keep D [y] = [].
Proof.
  intros N. unfold keep, restrict. simpl. destruct (existsb (Z.eqb y) D) eqn:E; auto.
  apply existsb_exists in E as [z [I Q]]. apply Z.eqb_eq in Q. subst. contradiction.
Qed.
Lemma keep_own D x : In x D -> keep D [x] = [x].
Proof.
  intros I. unfold keep, restrict. simpl.
  assert (existsb (Z.eqb x) D = true) as -> by (apply existsb_exists; exists x; split; auto; apply Z.eqb_refl).
  reflexivity.
Qed.
Lemma keep_none D l : (forall x, In x D -> ~ In x l) -> keep D l = [].
Proof.
  intros N. induction l as [|a l IH]; auto. unfold keep, restrict in *. simpl.
  destruct (existsb (Z.eqb a) D) eqn:E.
  - apply existsb_exists in E as [z [I Q]]. apply Z.eqb_eq in Q. subst. exfalso. apply (N z I). left; auto.
  - apply IH. intros x I J. apply (N x I). right; auto.
Qed.

(* the two halves of a list around position k, seen through keep D *)
Definition halves (D : list Z) (l : list Z) (k : nat) : list Z * list Z := (keep D (firstn k l), keep D (skipn k l)).

(* a foreign statement inserted at p moves a cursor at k >= p one step on: both halves look the same *)
Lemma halves_insert_foreign D l p y k :
  ~ In y D -> (p <= length l)%nat -> (k <= length l)%nat ->
  halves D (insert_at p y l) (if Nat.leb p k then S k else k) = halves D l k.
Proof.
  intros N Lp Lk. destruct (insert_at_split l p y Lp) as (l1 & l2 & -> & L1 & ->).
  unfold halves. destruct (Nat.leb_spec p k) as [LE|GT].
  - (* k = p + j with j <= |l2| *)
    rewrite app_length in Lk.
    replace (S k) with (length (l1 ++ [y]) + (k - p))%nat by (rewrite app_length; simpl; lia).
    replace (l1 ++ y :: l2) with ((l1 ++ [y]) ++ l2) by (rewrite <- app_assoc; reflexivity).
    replace k with (length l1 + (k - p))%nat at 3 4 by lia.
    rewrite !firstn_app_2, !skipn_app. rewrite !skipn_all2 by (rewrite ?app_length; simpl; lia).
    replace (length (l1 ++ [y]) + (k - p) - length (l1 ++ [y]))%nat with (k - p)%nat by lia.
    replace (length l1 + (k - p) - length l1)%nat with (k - p)%nat by lia.
    rewrite ?(skipn_all2 l1) by lia. rewrite ?(skipn_all2 (l1 ++ [y])) by (rewrite app_length; simpl; lia).
    simpl. rewrite !keep_app. rewrite (keep_foreign D y N). rewrite app_nil_r. reflexivity.
  - (* k < p: the prefix is inside l1 *)
    assert (K1 : (k <= length l1)%nat) by lia.
    rewrite !firstn_app, !skipn_app.
    replace (k - length l1)%nat with 0%nat by lia. simpl. rewrite !app_nil_r.
    rewrite !keep_app.
    change (y :: l2) with ([y] ++ l2). rewrite keep_app, (keep_foreign D y N). reflexivity.
Qed.

Lemma halves_append_foreign D l y k :
  ~ In y D -> (k <= length l)%nat -> halves D (l ++ [y]) k = halves D l k.
Proof.
  intros N L. unfold halves. rewrite firstn_app, skipn_app.
  replace (k - length l)%nat with 0%nat by lia. simpl. rewrite app_nil_r.
  rewrite keep_app, (keep_foreign D y N), app_nil_r. reflexivity.
Qed.

(* the function's own statement inserted at its cursor k *)
Lemma halves_insert_own D l x k :
  In x D -> (k <= length l)%nat ->
  halves D (insert_at k x l) (S k) = (fst (halves D l k) ++ [x], snd (halves D l k)).
Proof.
  intros I L. destruct (insert_at_split l k x L) as (l1 & l2 & -> & L1 & ->). subst k.
  unfold halves. cbn [fst snd].
  rewrite firstn_app_exact, skipn_app_exact.
  replace (l1 ++ x :: l2) with ((l1 ++ [x]) ++ l2) by (rewrite <- app_assoc; reflexivity).
  replace (S (length l1)) with (length (l1 ++ [x])) by (rewrite app_length; simpl; lia).
  rewrite firstn_app_exact, skipn_app_exact.
  rewrite keep_app, (keep_own D x I). reflexivity.
Qed.

(* ---------- the cursor machine ---------- *)
Fixpoint calls (a : hact) : list nat :=
  match a with
  | HEmit _ => []
  | HCall g body => g :: (fix go (b : list hact) : list nat := match b with [] => [] | a' :: r => calls a' ++ go r end) body
  end.
Definition calls_l (b : list hact) : list nat := flat_map calls b.
Definition all_emits_l (b : list hact) : list Z := flat_map all_emits b.
Lemma calls_call g body : calls (HCall g body) = g :: calls_l body.
Proof. simpl. f_equal. Qed.
Lemma all_emits_call g body : all_emits (HCall g body) = all_emits_l body.
Proof. simpl. unfold all_emits_l. induction body; simpl; congruence. Qed.

Lemma hc_run_call s h body :
  hc_run s (HCall h body) =
  let old := hc_cur s in
  let oldfn := hc_fn s in
  let saved1 := match oldfn, old with Some f, Some o => set_saved (hc_saved s) f o | _, _ => hc_saved s end in
  let s2 := fold_left hc_run body (mkHC (hc_nodes s) (Some (saved1 h)) (Some h) saved1) in
  let pos := match hc_cur s2 with Some k => k | None => saved1 h end in
  let saved' := set_saved (hc_saved s2) h pos in
  mkHC (hc_nodes s2) (match oldfn with Some f => Some (saved' f) | None => old end) oldfn saved'.
Proof.
  simpl.
  assert (G : forall b st, (fix go (b : list hact) (st : hcst) : hcst :=
                              match b with [] => st | a' :: r => go r (hc_run st a') end) b st = fold_left hc_run b st).
  { induction b; intros; simpl; auto. }
  rewrite G. reflexivity.
Qed.

Section HactInd.
  Variable P : hact -> Prop.
  Hypothesis PE : forall x, P (HEmit x).
  Hypothesis PC : forall h body, Forall P body -> P (HCall h body).
  Fixpoint hact_ind2 (a : hact) : P a :=
    match a with
    | HEmit x => PE x
    | HCall h body =>
      PC h body ((fix go (b : list hact) : Forall P b :=
                    match b with [] => Forall_nil P | a' :: r => Forall_cons a' (hact_ind2 a') (go r) end) body)
    end.
End HactInd.

Record WF (s : hcst) : Prop := {
  wf_saved : forall f, (hc_saved s f <= length (hc_nodes s))%nat;
  wf_cur : forall k, hc_cur s = Some k -> (k <= length (hc_nodes s))%nat;
  wf_live : forall f, hc_fn s = Some f -> hc_cur s <> None
}.

Lemma set_saved_same f h v : set_saved f h v h = v.
Proof. unfold set_saved. rewrite Nat.eqb_refl. reflexivity. Qed.
Lemma set_saved_other f h v g : g <> h -> set_saved f h v g = f g.
Proof. unfold set_saved. intros N. destruct (Nat.eqb_spec g h); congruence. Qed.

Section Foreign.
  Variable h : nat.            (* the function whose statements we follow *)
  Variable D : list Z.         (* its own statements *)

  (* what running an action that never activates h does to h's view of the list *)
  Definition foreign_ok (a : hact) : Prop :=
    forall st, WF st -> hc_fn st <> Some h -> ~ In h (calls a) -> (forall y, In y (all_emits a) -> ~ In y D) ->
      WF (hc_run st a) /\ hc_fn (hc_run st a) = hc_fn st /\
      (length (hc_nodes st) <= length (hc_nodes (hc_run st a)))%nat /\
      halves D (hc_nodes (hc_run st a)) (hc_saved (hc_run st a) h) = halves D (hc_nodes st) (hc_saved st h).

  Lemma foreign_list b : Forall foreign_ok b ->
    forall st, WF st -> hc_fn st <> Some h -> ~ In h (calls_l b) -> (forall y, In y (all_emits_l b) -> ~ In y D) ->
      WF (fold_left hc_run b st) /\ hc_fn (fold_left hc_run b st) = hc_fn st /\
      (length (hc_nodes st) <= length (hc_nodes (fold_left hc_run b st)))%nat /\
      halves D (hc_nodes (fold_left hc_run b st)) (hc_saved (fold_left hc_run b st) h) = halves D (hc_nodes st) (hc_saved st h).
  Proof.
    induction 1 as [|a r Pa _ IH]; intros st W F NC NE; simpl.
    - split; [exact W|]. split; [reflexivity|]. split; [lia|reflexivity].
    - unfold calls_l, all_emits_l in NC, NE. simpl in NC, NE.
      destruct (Pa st W F) as (W1 & F1 & L1 & H1).
      { intros I; apply NC, in_or_app; auto. } { intros y I; apply NE, in_or_app; auto. }
      destruct (IH (hc_run st a) W1) as (W2 & F2 & L2 & H2).
      { congruence. } { intros I; apply NC, in_or_app; auto. } { intros y I; apply NE, in_or_app; auto. }
      split; [exact W2|]. split; [congruence|]. split; [lia|congruence].
  Qed.

  Lemma foreign_emit y : foreign_ok (HEmit y).
  Proof.
    intros st [Ws Wc Wl] F _ NE. simpl. unfold hc_emit.
    assert (Ny : ~ In y D) by (apply NE; left; reflexivity).
    destruct (hc_cur st) as [p|] eqn:C; simpl.
    - pose proof (Wc p eq_refl) as Lp.
      assert (LI : length (insert_at p y (hc_nodes st)) = S (length (hc_nodes st))).
      { destruct (insert_at_split (hc_nodes st) p y Lp) as (l1 & l2 & E & _ & ->). rewrite E, !app_length. simpl. lia. }
      split; [|split; [reflexivity|split; [lia|]]].
      + constructor; simpl.
        * intros f. rewrite LI. pose proof (Ws f). destruct (_ && _); lia.
        * intros k E. inversion E; subst. rewrite LI. lia.
        * intros f E. discriminate.
      + assert (G : (match hc_fn st with Some f => negb (Nat.eqb f h) | None => true end) = true).
        { destruct (hc_fn st) as [f|]; auto. destruct (Nat.eqb_spec f h); [subst; congruence|reflexivity]. }
        rewrite G. simpl. apply halves_insert_foreign; auto.
    - split; [|split; [reflexivity|split; [rewrite app_length; lia|]]].
      + constructor; simpl.
        * intros f. rewrite app_length. pose proof (Ws f). lia.
        * intros k E. discriminate.
        * intros f E. exfalso. apply (Wl f E). reflexivity.
      + apply halves_append_foreign; auto.
  Qed.

  Lemma foreign_call g body : Forall foreign_ok body -> foreign_ok (HCall g body).
  Proof.
    intros FB st W F NC NE. rewrite calls_call in NC. rewrite all_emits_call in NE.
    assert (GH : g <> h) by (intros ->; apply NC; left; reflexivity).
    rewrite hc_run_call. cbv zeta.
    set (saved1 := match hc_fn st, hc_cur st with Some f, Some o => set_saved (hc_saved st) f o | _, _ => hc_saved st end).
    assert (S1h : saved1 h = hc_saved st h).
    { unfold saved1. destruct (hc_fn st) as [f|] eqn:Ef, (hc_cur st) as [o|]; auto.
      apply set_saved_other. intros ->. apply F. reflexivity. }
    destruct W as [Ws Wc Wl].
    assert (S1le : forall f, (saved1 f <= length (hc_nodes st))%nat).
    { intros f. unfold saved1. destruct (hc_fn st) as [f0|], (hc_cur st) as [o|] eqn:C; auto.
      unfold set_saved. destruct (Nat.eqb f f0); auto. }
    set (s1 := mkHC (hc_nodes st) (Some (saved1 g)) (Some g) saved1).
    assert (W1 : WF s1).
    { constructor; simpl; auto. - intros k E; inversion E; subst; auto. - intros; discriminate. }
    destruct (foreign_list body FB s1 W1) as (W2 & F2 & L2 & H2).
    { simpl. intros E; inversion E; contradiction. } { intros I; apply NC; right; auto. } { auto. }
    set (s2 := fold_left hc_run body s1) in *.
    destruct W2 as [Ws2 Wc2 Wl2].
    assert (POS : exists k, hc_cur s2 = Some k /\ (k <= length (hc_nodes s2))%nat).
    { destruct (hc_cur s2) as [k|] eqn:C; [eauto|]. exfalso. apply (Wl2 g); auto. }
    destruct POS as (k & Ck & Lk). rewrite Ck.
    simpl in L2, H2. split; [|split; [reflexivity|split; [exact L2|]]].
    - constructor; simpl.
      + intros f. unfold set_saved. destruct (Nat.eqb f g); auto.
      + intros k0. destruct (hc_fn st) as [f|] eqn:Ef.
        * intros E; inversion E; subst. unfold set_saved. destruct (Nat.eqb f g); auto.
        * intros E. pose proof (Wc _ E). lia.
      + intros f E. rewrite E. discriminate.
    - simpl. rewrite (set_saved_other _ _ _ _ (not_eq_sym GH)). rewrite H2. simpl. rewrite S1h. reflexivity.
  Qed.

  Theorem foreign_all a : foreign_ok a.
  Proof. induction a using hact_ind2; [apply foreign_emit|apply foreign_call; auto]. Qed.
End Foreign.

(* statements emitted by the calls nested in a body (not by the body itself) *)
Definition nested_emits (b : list hact) : list Z :=
  flat_map (fun a => match a with HEmit _ => [] | HCall _ body => all_emits_l body end) b.

Section Own.
  Variable h : nat.
  Variable D : list Z.

  (* h is live at position k; [done] = its own statements so far, all before k, none after *)
  Lemma own_body b : forall st k done,
    WF st -> hc_fn st = Some h -> hc_cur st = Some k ->
    halves D (hc_nodes st) k = (done, []) ->
    ~ In h (calls_l b) -> (forall x, In x (own_emits b) -> In x D) -> (forall y, In y (nested_emits b) -> ~ In y D) ->
    let st' := fold_left hc_run b st in
    WF st' /\ hc_fn st' = Some h /\
    exists k', hc_cur st' = Some k' /\ halves D (hc_nodes st') k' = (done ++ own_emits b, []).
  Proof.
    induction b as [|a r IH]; intros st k done W F C Hv NC OW NE; simpl.
    - split; auto. split; auto. exists k. rewrite app_nil_r. auto.
    - unfold calls_l, own_emits, nested_emits in NC, OW, NE. simpl in NC, OW, NE.
      destruct a as [x|g body].
      + (* own statement *)
        assert (Ix : In x D) by (apply OW; left; reflexivity).
        destruct W as [Ws Wc Wl]. pose proof (Wc k C) as Lk.
        assert (LI : length (insert_at k x (hc_nodes st)) = S (length (hc_nodes st))).
        { destruct (insert_at_split (hc_nodes st) k x Lk) as (l1 & l2 & E & _ & ->). rewrite E, !app_length. simpl. lia. }
        assert (E1 : hc_run st (HEmit x) =
                     mkHC (insert_at k x (hc_nodes st)) (Some (S k)) (hc_fn st)
                          (fun h' => if (match hc_fn st with Some f => negb (Nat.eqb f h') | None => true end) && Nat.leb k (hc_saved st h')
                                     then S (hc_saved st h') else hc_saved st h')).
        { simpl. unfold hc_emit. rewrite C. reflexivity. }
        rewrite E1.
        match goal with |- context [fold_left hc_run r ?S] => set (s1 := S) end.
        assert (W1 : WF s1).
        { constructor; unfold s1; simpl.
          - intros f. rewrite LI. pose proof (Ws f). destruct (_ && _); lia.
          - intros k0 E; inversion E; subst. rewrite LI. lia.
          - intros; discriminate. }
        assert (H1 : halves D (hc_nodes s1) (S k) = (done ++ [x], [])).
        { unfold s1; simpl. rewrite (halves_insert_own D _ x k Ix Lk), Hv. reflexivity. }
        destruct (IH s1 (S k) (done ++ [x]) W1 F eq_refl H1) as (W2 & F2 & k' & C2 & H2); auto.
        { intros y I. apply OW. right; auto. }
        split; auto. split; auto. exists k'. split; auto.
        rewrite H2. unfold own_emits. simpl. rewrite <- app_assoc. reflexivity.
      + (* nested call of another hygienized function *)
        assert (GH : g <> h).
        { intros ->. apply NC. rewrite calls_call. left; reflexivity. }
        rewrite hc_run_call. cbv zeta. rewrite F, C.
        set (saved1 := set_saved (hc_saved st) h k).
        destruct W as [Ws Wc Wl]. pose proof (Wc k C) as Lk.
        set (s1 := mkHC (hc_nodes st) (Some (saved1 g)) (Some g) saved1).
        assert (W1 : WF s1).
        { constructor; unfold s1, saved1; simpl.
          - intros f. unfold set_saved. destruct (Nat.eqb f h); auto.
          - intros k0 E; inversion E; subst. unfold set_saved. destruct (Nat.eqb g h); auto.
          - intros; discriminate. }
        destruct (foreign_list h D body (proj2 (Forall_forall _ _) (fun a _ => foreign_all h D a)) s1 W1) as (W2 & F2 & L2 & H2).
        { unfold s1; simpl. intros E; inversion E; contradiction. }
        { intros I. apply NC. rewrite calls_call. right. apply in_or_app; left; auto. }
        { intros y I. apply NE. apply in_or_app; left; auto. }
        set (s2 := fold_left hc_run body s1) in *.
        destruct W2 as [Ws2 Wc2 Wl2].
        assert (POS : exists kk, hc_cur s2 = Some kk /\ (kk <= length (hc_nodes s2))%nat).
        { destruct (hc_cur s2) as [kk|] eqn:C2; [eauto|]. exfalso. apply (Wl2 g); auto. }
        destruct POS as (kk & Ck & Lkk). rewrite Ck.
        match goal with |- context [fold_left hc_run r ?S] => set (s3 := S) end.
        assert (K3 : hc_saved s2 h = set_saved (hc_saved s2) g kk h) by (symmetry; apply set_saved_other; auto).
        assert (W3 : WF s3).
        { constructor; unfold s3; simpl.
          - intros f. unfold set_saved. destruct (Nat.eqb f g); auto.
          - intros k0 E; inversion E; subst. unfold set_saved. destruct (Nat.eqb h g); auto.
          - intros; discriminate. }
        assert (H3 : halves D (hc_nodes s3) (set_saved (hc_saved s2) g kk h) = (done, [])).
        { unfold s3; simpl. rewrite <- K3. rewrite H2. unfold s1, saved1; simpl. rewrite set_saved_same. exact Hv. }
        destruct (IH s3 _ done W3 eq_refl eq_refl H3) as (W4 & F4 & k' & C4 & H4).
        { intros I. apply NC. rewrite calls_call. right. apply in_or_app; right; auto. }
        { intros x I. apply OW. exact I. }
        { intros y I. apply NE. apply in_or_app; right; auto. }
        split; auto. split; auto. exists k'. split; auto.
  Qed.
End Own.

(* Full-strength own-order statement for the cursor bookkeeping: whatever a hygienized function's body
   calls (other hygienized functions, to any depth), the statements it emits itself keep their
   emission order in the statement list. *)
Theorem cursor_own_order_lemma s h body :
  hc_cur s = None -> hc_fn s = None ->
  (forall f, (hc_saved s f <= length (hc_nodes s))%nat) ->              (* every cursor points into the list *)
  ~ In h (calls_l body) ->                                               (* no recursion into h itself *)
  (forall x, In x (own_emits body) -> ~ In x (hc_nodes s)) ->            (* its statements are new ... *)
  (forall y, In y (nested_emits body) -> ~ In y (own_emits body)) ->     (* ... and differ from the nested ones *)
  restrict (own_emits body) (hc_nodes (hc_run s (HCall h body))) = own_emits body.
Proof.
  intros C F Ws NC NW NE. rewrite hc_run_call. cbv zeta. rewrite F, C.
  set (D := own_emits body).
  set (s1 := mkHC (hc_nodes s) (Some (hc_saved s h)) (Some h) (hc_saved s)).
  assert (W1 : WF s1).
  { constructor; unfold s1; simpl; auto. - intros k E; inversion E; subst; auto. - intros; discriminate. }
  assert (H1 : halves D (hc_nodes s1) (hc_saved s h) = ([], [])).
  { unfold halves, s1; simpl. f_equal; apply keep_none; intros x I J.
    - apply (NW x I). rewrite <- (firstn_skipn (hc_saved s h) (hc_nodes s)). apply in_or_app; left; exact J.
    - apply (NW x I). rewrite <- (firstn_skipn (hc_saved s h) (hc_nodes s)). apply in_or_app; right; exact J. }
  destruct (own_body h D body s1 (hc_saved s h) [] W1 eq_refl eq_refl H1 NC (fun x I => I) NE) as (W2 & F2 & k' & C2 & H2).
  simpl. change (restrict D ?l) with (keep D l).
  rewrite <- (firstn_skipn k' (hc_nodes (fold_left hc_run body s1))), keep_app.
  unfold halves in H2. inversion H2 as [[A B]]. rewrite A, B. simpl. apply app_nil_r.
Qed.

(* non-vacuity: the witness that the index bookkeeping used before 6cc3727 turned into B, A2, A1 *)
Example cursor_witness :
  hc_nodes (hc_run (mkHC [100; 200] None None (fun _ => 0%nat)) (HCall 1%nat [HEmit 1; HCall 0%nat [HEmit 5]; HEmit 2]))
  = [1; 5; 2; 100; 200].
Proof. vm_compute. reflexivity. Qed.
