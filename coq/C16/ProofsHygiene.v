(* make/set/merge/push/pop_checkpoint and the hygienized call: what the body sees, what the
   scope holds afterwards, and the (non-)leak of names the body introduces. *)
From Coq Require Import ZArith Bool List Lia.
From C16 Require Import Model.
Import ListNotations.
Local Open Scope Z_scope.

(* chains are compared level by level, maps pointwise *)
Definition meq (m m' : smap) : Prop := forall k, m k = m' k.
Definition ceq (c c' : chain) : Prop := Forall2 meq c c'.

Lemma ceq_refl c : ceq c c.
Proof. induction c; constructor; auto. intros k; reflexivity. Qed.

Lemma set_checkpoint_ceq c cp : length cp = length c -> ceq (set_checkpoint c cp) cp.
Proof.
  revert cp; induction c as [|s c IH]; intros [|p cp]; simpl; try discriminate; intros L; constructor.
  - intros k. unfold supdate, sempty. destruct (p k); reflexivity.
  - apply IH. lia.
Qed.

Lemma length_set_checkpoint c cp : length (set_checkpoint c cp) = length c.
Proof. revert cp; induction c as [|s c IH]; intros [|p cp]; simpl; auto. Qed.

Lemma merge_checkpoint_nth c cp : length cp = length c -> forall i m p,
  nth_error c i = Some m -> nth_error cp i = Some p ->
  exists m', nth_error (merge_checkpoint c cp) i = Some m' /\ meq m' (supdate m p).
Proof.
  revert cp; induction c as [|s c IH]; intros [|q cp]; simpl; try discriminate; intros L [|i] m p; simpl; try discriminate.
  - intros X Y; inversion X; inversion Y; subst. eexists; split; eauto. intros k; reflexivity.
  - intros X Y. apply IH; auto.
Qed.

Lemma lookup_chain_ceq c c' below : ceq c c' -> forall k, lookup_chain c below k = lookup_chain c' below k.
Proof.
  induction 1 as [|m m' c c' E _ IH]; intros k; simpl; auto. rewrite (E k). destruct (m' k); auto.
Qed.

Lemma lookup_chain_bound c k v : lookup_chain c sempty k = Some v -> forall below, lookup_chain c below k = Some v.
Proof.
  induction c as [|m c IH]; simpl; [discriminate|]. destruct (m k); auto.
Qed.

Section Hygiene.
  Variable merges : bool.
  Variables (s : sstate) (cp : chain) (body : chain -> chain).
  Hypothesis len_cp : length cp = length (cur s).          (* same scope object: same ancestors *)
  Hypothesis len_body : forall c, length (body c) = length c.
  Variables (inside : chain) (s3 : sstate).
  Hypothesis call : hygienic_call merges s cp body = Some (inside, s3).

  Lemma call_unfold :
    inside = set_checkpoint (cur s) cp /\ cpstack s3 = cpstack s /\
    cur s3 = (if merges then merge_checkpoint (body inside) (cur s) else set_checkpoint (body inside) (cur s)).
  Proof.
    unfold hygienic_call, push_checkpoint, pop_checkpoint, make_checkpoint in call. simpl in call.
    inversion call; subst. auto.
  Qed.

  (* (1) the body runs with exactly the definition-time symbols at every checkpointed level ... *)
  Theorem hygiene_inside_lemma : ceq inside cp.
  Proof. destruct call_unfold as (-> & _). apply set_checkpoint_ceq; auto. Qed.

  (* ... so a free name bound at definition time resolves to that binding, whatever the use site
     holds (in the checkpointed scopes or below them) *)
  Theorem hygiene_resolution_lemma k v :
    lookup_chain cp sempty k = Some v -> forall below, lookup_chain inside below k = Some v.
  Proof.
    intros L below. rewrite (lookup_chain_ceq _ _ below hygiene_inside_lemma). apply lookup_chain_bound; auto.
  Qed.

  (* a name not bound at definition time falls through to the un-checkpointed part as it is NOW *)
  Theorem hygiene_fallthrough_lemma k below :
    lookup_chain cp sempty k = None -> lookup_chain inside below k = below k.
  Proof.
    intros L. rewrite (lookup_chain_ceq _ _ below hygiene_inside_lemma).
    clear - L. induction cp as [|m c IH]; simpl in *; auto. destruct (m k); [discriminate|auto].
  Qed.

  (* (2) the checkpoint stack is as before *)
  Theorem hygiene_stack_lemma : cpstack s3 = cpstack s.
  Proof. apply call_unfold. Qed.
End Hygiene.

(* (3) afterwards, with the merging pop of the current code: every use-site binding is what it was;
   a name that was unbound keeps whatever the body declared *)
Theorem hygiene_after_merge_lemma s cp body inside s3 :
  length cp = length (cur s) -> (forall c, length (body c) = length c) ->
  hygienic_call true s cp body = Some (inside, s3) ->
  forall i m mb, nth_error (cur s) i = Some m -> nth_error (body inside) i = Some mb ->
    exists m3, nth_error (cur s3) i = Some m3 /\
               forall k, m3 k = match m k with Some v => Some v | None => mb k end.
Proof.
  intros L LB C i m mb Hm Hb.
  destruct (call_unfold true s cp body inside s3 C) as (Ei & _ & Ec). rewrite Ec.
  assert (LL : length (cur s) = length (body inside)).
  { rewrite LB, Ei, length_set_checkpoint. reflexivity. }
  destruct (merge_checkpoint_nth (body inside) (cur s) LL i mb m Hb Hm) as (m3 & N & E).
  exists m3. split; [exact N|exact E].
Qed.

(* full-strength non-leak: after the call the scopes are exactly what they were *)
Definition hygiene_no_leak (merges : bool) : Prop :=
  forall s cp body inside s3,
    length cp = length (cur s) -> (forall c, length (body c) = length c) ->
    hygienic_call merges s cp body = Some (inside, s3) -> ceq (cur s3) (cur s).

(* refuted for the merging pop: a name declared by the body stays in the definition scope *)
Theorem hygiene_no_leak_refuted_lemma : ~ hygiene_no_leak true.
Proof.
  intros F.
  specialize (F (mkSS [sempty] []) [sempty] (declare_all [(1, 7)]) (set_checkpoint [sempty] [sempty])
                (mkSS (merge_checkpoint (declare_all [(1, 7)] (set_checkpoint [sempty] [sempty])) [sempty]) [])
                eq_refl).
  assert (LB : forall c, length (declare_all [(1, 7)] c) = length c) by (intros [|x c]; reflexivity).
  specialize (F LB eq_refl). inversion F as [|? ? ? ? E _]; subst. specialize (E 1). vm_compute in E. discriminate.
Qed.

(* a pop that restores with set_checkpoint would not leak *)
Theorem hygiene_no_leak_with_set_lemma : hygiene_no_leak false.
Proof.
  intros s cp body inside s3 L LB C.
  destruct (call_unfold false s cp body inside s3 C) as (Ei & _ & Ec). rewrite Ec.
  apply set_checkpoint_ceq. rewrite LB, Ei, length_set_checkpoint. reflexivity.
Qed.

(* the merging pop used before b8843bb: a use site that rebinds K and a body that declares a new name *)
Example hygiene_example_merging_pop :
  let def := [sset (sset sempty 1 10) 2 5] in              (* at definition: K(1) -> 10, G(2) -> 5 *)
  let use := mkSS [sset (sset (sset sempty 1 10) 2 5) 1 20] [] in   (* use site: K rebound to 20 *)
  match hygienic_call true use def (declare_all [(3, 99)]) with
  | Some (inside, s3) =>
    lookup_chain inside sempty 1 = Some 10 /\           (* the body sees the definition-time K *)
    lookup_chain (cur s3) sempty 1 = Some 20 /\         (* the use site keeps its K *)
    lookup_chain (cur s3) sempty 3 = Some 99            (* the body's name leaked *)
  | None => False
  end.
Proof. vm_compute. auto. Qed.

(* non-vacuity of the current obligation (restoring pop): same situation, the body's name does not survive *)
Example hygiene_example_restoring_pop :
  let def := [sset (sset sempty 1 10) 2 5] in
  let use := mkSS [sset (sset (sset sempty 1 10) 2 5) 1 20] [] in
  match hygienic_call false use def (declare_all [(3, 99)]) with
  | Some (inside, s3) =>
    lookup_chain inside sempty 1 = Some 10 /\ lookup_chain inside sempty 3 = None /\
    lookup_chain (cur s3) sempty 1 = Some 20 /\ lookup_chain (cur s3) sempty 3 = None
  | None => False
  end.
Proof. vm_compute. auto. Qed.
