(* Where and in which order a hygienized function injects its statements. *)
From Coq Require Import ZArith Bool List Lia.
From C16 Require Import Model.
Import ListNotations.
Local Open Scope Z_scope.

Lemma insert_at_app {A} (pre post : list A) x : insert_at (length pre) x (pre ++ post) = pre ++ x :: post.
Proof.
  unfold insert_at. rewrite firstn_app, skipn_app, Nat.sub_diag, firstn_all, skipn_all. simpl.
  rewrite app_nil_r. reflexivity.
Qed.

(* a run of plain emissions at position |pre| inserts them there, in emission order *)
Lemma emits_block adjust xs : forall pre post saved,
  fold_left (h_run adjust) (map HEmit xs) (mkH (pre ++ post) (Some (length pre)) saved)
  = mkH (pre ++ xs ++ post) (Some (length pre + length xs)%nat) saved.
Proof.
  induction xs as [|x r IH]; intros pre post saved; simpl.
  - rewrite Nat.add_0_r. reflexivity.
  - unfold h_emit; simpl. rewrite insert_at_app.
    replace (pre ++ x :: post) with ((pre ++ [x]) ++ post) by (rewrite <- app_assoc; reflexivity).
    replace (S (length pre)) with (length (pre ++ [x])) by (rewrite app_length; simpl; lia).
    rewrite IH. rewrite app_length. simpl. rewrite <- !app_assoc. simpl. f_equal. f_equal. lia.
Qed.

Lemma go_is_fold adjust (b : list hact) st :
  (fix go (b : list hact) (st : hst) : hst :=
     match b with [] => st | a' :: r => go r (h_run adjust st a') end) b st = fold_left (h_run adjust) b st.
Proof. revert st; induction b; intros; simpl; auto. Qed.

(* a call whose body only emits (no nested hygienized call): its statements land as one block at
   the function's definition point, in emission order, and the function's index moves past them *)
Lemma emits_block_at adjust xs l k saved :
  (k <= length l)%nat ->
  fold_left (h_run adjust) (map HEmit xs) (mkH l (Some k) saved)
  = mkH (firstn k l ++ xs ++ skipn k l) (Some (k + length xs)%nat) saved.
Proof.
  intros L. assert (LK : length (firstn k l) = k) by (apply firstn_length_le; exact L).
  pose proof (emits_block adjust xs (firstn k l) (skipn k l) saved) as E.
  rewrite firstn_skipn, LK in E. exact E.
Qed.

Theorem flat_call_block_lemma adjust s h xs :
  (h_saved s h <= length (h_nodes s))%nat ->
  let k := h_saved s h in
  h_nodes (h_run adjust s (HCall h (map HEmit xs))) = firstn k (h_nodes s) ++ xs ++ skipn k (h_nodes s) /\
  h_saved (h_run adjust s (HCall h (map HEmit xs))) h = (k + length xs)%nat.
Proof.
  intros L k. simpl. rewrite go_is_fold. fold k.
  rewrite (emits_block_at adjust xs (h_nodes s) k (h_saved s) L). simpl. split; [reflexivity|].
  destruct (Nat.eqb_spec (k + length xs) k) as [E|NE].
  - fold k. lia.
  - unfold set_saved. rewrite Nat.eqb_refl. reflexivity.
Qed.

(* full-strength statement: the statements a hygienized function emits itself keep their emission
   order in the statement list, whatever else its body calls *)
Definition inject_own_order (adjust : bool) : Prop :=
  forall s h body,
    h_cur s = None -> NoDup (own_emits body) -> (forall x, In x (own_emits body) -> ~ In x (h_nodes s)) ->
    restrict (own_emits body) (h_nodes (h_run adjust s (HCall h body))) = own_emits body.

(* refuted for the index bookkeeping used before 6cc3727: A emits A1, calls B (defined at or before A's definition point),
   emits A2 - the list ends up B, A2, A1 *)
Theorem inject_own_order_refuted_lemma : ~ inject_own_order false.
Proof.
  intros F.
  specialize (F (mkH [100; 200] None (fun _ => 0%nat)) 1%nat [HEmit 1; HCall 0%nat [HEmit 5]; HEmit 2] eq_refl).
  assert (ND : NoDup (own_emits [HEmit 1; HCall 0%nat [HEmit 5]; HEmit 2])).
  { simpl. repeat constructor; simpl; intuition discriminate. }
  specialize (F ND). vm_compute in F.
  assert (X : forall x : Z, 1 = x \/ 2 = x \/ False -> 100 = x \/ 200 = x \/ False -> False) by (intros x [<-|[<-|[]]] [E|[E|[]]]; discriminate).
  specialize (F X). discriminate.
Qed.

Example inject_witness_model :
  h_nodes (h_run false (mkH [100; 200] None (fun _ => 0%nat)) (HCall 1%nat [HEmit 1; HCall 0%nat [HEmit 5]; HEmit 2]))
  = [5; 2; 1; 100; 200] /\
  h_nodes (h_run true (mkH [100; 200] None (fun _ => 0%nat)) (HCall 1%nat [HEmit 1; HCall 0%nat [HEmit 5]; HEmit 2]))
  = [5; 1; 2; 100; 200].
Proof. vm_compute. auto. Qed.
