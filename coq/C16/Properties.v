(* Property C16: preprocessor expansion and specialisation preserve meaning and type identity.
   Only the property theorems; each is closed by a lemma of Proofs*.v and followed by
   Print Assumptions.  POLY_COMPARES_COMPTIME_VALUES / POP_CHECKPOINT_MERGES are scraped (Gen.v). *)
From Coq Require Import ZArith Bool List Permutation.
From C16 Require Import Gen Model ProofsMemo ProofsGeneric ProofsPoly ProofsHygiene ProofsExpand ProofsInject ProofsCursor.
Import ListNotations.
Local Open Scope Z_scope.

(* generalize = generic(memoize(hygienize f)): equal (equivalent) argument lists get the SAME result
   object - one type per argument class - whatever order pairs(cache) uses *)
Theorem C16_memoize_canonical :
  forall A R (eqv : A -> A -> bool) (f : A -> R),
    (forall a, eqv a a = true) -> (forall a b, eqv a b = true -> eqv b a = true) ->
    (forall a b c, eqv a b = true -> eqv b c = true -> eqv a c = true) ->
    forall args perms c n rs nf,
      Forall (is_perm A R) perms -> good A R eqv c -> memo_run A R eqv f perms c n args = (rs, nf) ->
      (forall i a r, nth_error args i = Some a -> nth_error rs i = Some r ->
                     forall x rx, In (x, rx) c -> eqv x a = true -> r = rx) /\
      (forall i j ai aj ri rj,
          nth_error args i = Some ai -> nth_error args j = Some aj ->
          nth_error rs i = Some ri -> nth_error rs j = Some rj -> eqv ai aj = true -> ri = rj).
Proof. exact memo_run_canonical_lemma. Qed.
Print Assumptions C16_memoize_canonical.

(* the generic body is evaluated once per class of arguments *)
Theorem C16_memoize_once_per_class :
  forall A R (eqv : A -> A -> bool) (f : A -> R) args perms c n,
    Forall (is_perm A R) perms ->
    snd (memo_run A R eqv f perms c n args) = (n + new_classes A eqv (map fst c) args)%nat.
Proof. exact memo_run_evaluations_lemma. Qed.
Print Assumptions C16_memoize_once_per_class.

(* the premises are discharged for the argument match of generics as modelled (types by identity,
   comptime values by value, an omitted parameter = nil): equal argument lists -> the same type object *)
Theorem C16_generic_same_type :
  forall (args : list (list garg)) i j ai aj ri rj,
    nth_error args i = Some ai -> nth_error args j = Some aj ->
    nth_error (fst (generic_run args)) i = Some ri -> nth_error (fst (generic_run args)) j = Some rj ->
    ai = aj -> ri = rj.
Proof. exact generic_same_type_lemma. Qed.
Print Assumptions C16_generic_same_type.

(* eval_poly returns an existing evaluation iff poly_args_matches holds for one (the first), and
   appends exactly one otherwise; alwayspoly always appends *)
Theorem C16_polyeval_reuse :
  forall alwayspoly evals args,
  (alwayspoly = true ->
   eval_poly POLY_COMPARES_COMPTIME_VALUES alwayspoly evals args = (length evals, evals ++ [args])) /\
  (alwayspoly = false ->
   ((exists e, In e evals /\ args_match POLY_COMPARES_COMPTIME_VALUES e args = true) ->
    exists i e, eval_poly POLY_COMPARES_COMPTIME_VALUES alwayspoly evals args = (i, evals) /\
                nth_error evals i = Some e /\ args_match POLY_COMPARES_COMPTIME_VALUES e args = true /\
                forall k' e', (k' < i)%nat -> nth_error evals k' = Some e' ->
                              args_match POLY_COMPARES_COMPTIME_VALUES e' args = false) /\
   ((forall e, In e evals -> args_match POLY_COMPARES_COMPTIME_VALUES e args = false) ->
    eval_poly POLY_COMPARES_COMPTIME_VALUES alwayspoly evals args = (length evals, evals ++ [args]))).
Proof. exact (eval_poly_spec_lemma POLY_COMPARES_COMPTIME_VALUES). Qed.
Print Assumptions C16_polyeval_reuse.

(* same argument types and comptime values: the same specialisation, nothing new *)
Theorem C16_polyeval_same_args_one_specialisation :
  forall evals args i evals',
    eval_poly POLY_COMPARES_COMPTIME_VALUES false evals args = (i, evals') ->
    eval_poly POLY_COMPARES_COMPTIME_VALUES false evals' args = (i, evals').
Proof. exact (polyeval_same_args_reuse_lemma POLY_COMPARES_COMPTIME_VALUES). Qed.
Print Assumptions C16_polyeval_same_args_one_specialisation.

(* different argument types: distinct specialisations *)
Theorem C16_polyeval_distinct_types_distinct_specialisations :
  forall ap evals a b i j ev1 ev2,
    eval_poly POLY_COMPARES_COMPTIME_VALUES ap evals a = (i, ev1) ->
    eval_poly POLY_COMPARES_COMPTIME_VALUES ap ev1 b = (j, ev2) ->
    map a_type a <> map a_type b -> i <> j.
Proof. exact (polyeval_distinct_types_lemma POLY_COMPARES_COMPTIME_VALUES). Qed.
Print Assumptions C16_polyeval_distinct_types_distinct_specialisations.

(* calls sharing a specialisation agree with one stored entry on every comptime value *)
Theorem C16_polyeval_comptime_values_distinguish :
  forall ap evals a b i ev1 ev2,
    eval_poly POLY_COMPARES_COMPTIME_VALUES ap evals a = (i, ev1) ->
    eval_poly POLY_COMPARES_COMPTIME_VALUES ap ev1 b = (i, ev2) ->
    exists e,
      Forall2 (fun x y => comptime_pos x = true -> a_value x = a_value y /\ a_is_attr y = true) e a /\
      Forall2 (fun x y => comptime_pos x = true -> a_value x = a_value y /\ a_is_attr y = true) e b.
Proof.
  intros ap evals a b i ev1 ev2 E1 E2.
  destruct (polyeval_shared_entry_lemma _ _ _ _ _ _ _ _ E1 E2) as (e & M1 & M2).
  exists e. split; apply args_match_values; assumption.
Qed.
Print Assumptions C16_polyeval_comptime_values_distinguish.

(* Comptime values are compared with Lua's `~=`, so the model's value ids are ==-classes.  Over RAW values
   ([cls] maps a raw value to its class) the full statement "calls that differ in a comptime value get
   distinct specialisations" holds iff no two raw values share a class; Lua's == puts 0.0 and -0.0 in one
   class (the defect repaired by cab9725; its witness is replayed by the polyc stream on every run). *)
Definition C16_polyeval_distinct_values_full (cls : Z -> Z) : Prop := distinct_raw_values_distinct_specialisations cls.
Theorem C16_value_comparison_separation_needed :
  forall cls, (exists r r', r <> r' /\ cls r = cls r') -> ~ C16_polyeval_distinct_values_full cls.
Proof. exact lua_equal_values_share_refuted_lemma. Qed.
Print Assumptions C16_value_comparison_separation_needed.
Theorem C16_polyeval_distinct_values_partial :
  forall cls, (forall r r', cls r = cls r' -> r = r') -> C16_polyeval_distinct_values_full cls.
Proof. exact distinct_raw_values_lemma. Qed.
Print Assumptions C16_polyeval_distinct_values_partial.

(* TRIPWIRE on the scraped flag (the value ids of the model are abstract: with the flag every raw id of the
   replayer is its own class, and the statement is about the first two calls of a fresh function); the
   content is in the scrape of poly_args_matches / same_comptime_value and in the polyc stream.
   For the code as it is (since cab9725 poly_args_matches compares compile-time values through
   same_comptime_value, which tells 0.0 from -0.0; Gen.POLY_DISTINGUISHES_SIGNED_ZERO, checked by
   computation: on a revert this proof no longer checks) calls that differ in a raw compile-time value -
   the replayer's values, 0.0 and -0.0 included - get distinct specialisations *)
Theorem C16_polyeval_signed_zero :
  POLY_DISTINGUISHES_SIGNED_ZERO = true /\
  C16_polyeval_distinct_values_full (raw_cls POLY_DISTINGUISHES_SIGNED_ZERO).
Proof. split; [reflexivity|exact (raw_cls_spec true)]. Qed.
Print Assumptions C16_polyeval_signed_zero.

(* hygiene: inside a hygienized call a free name bound at definition time resolves to that
   binding whatever the use site holds; the checkpoint stack is restored *)
Theorem C16_hygiene_resolution :
  forall merges s cp body inside s3,
    length cp = length (cur s) -> hygienic_call merges s cp body = Some (inside, s3) ->
    ceq inside cp /\
    (forall k v, lookup_chain cp sempty k = Some v -> forall below, lookup_chain inside below k = Some v) /\
    cpstack s3 = cpstack s.
Proof.
  intros merges s cp body inside s3 L C. split; [|split].
  - eapply hygiene_inside_lemma; eauto.
  - intros; eapply hygiene_resolution_lemma; eauto.
  - eapply hygiene_stack_lemma; eauto.
Qed.
Print Assumptions C16_hygiene_resolution.

(* MAIN HYGIENE OBLIGATION (full strength).  After a hygienized call the scopes are exactly what they
   were: every use-site binding is preserved AND no name introduced by the body stays behind.  It holds
   for the code as it is (pop_checkpoint restores with set_checkpoint since b8843bb; the policy fact
   POP_CHECKPOINT_MERGES = false is checked by computation on Gen.v: if the source goes back to the
   merging pop this proof no longer checks). *)
Definition C16_hygiene_no_leak_full : Prop := hygiene_no_leak POP_CHECKPOINT_MERGES.
Theorem C16_hygiene_no_leak : C16_hygiene_no_leak_full.
Proof. exact hygiene_no_leak_with_set_lemma. Qed.
Print Assumptions C16_hygiene_no_leak.

(* the restoring pop is necessary: a pop that merges the saved symbols back (the code before b8843bb)
   violates the statement - a name declared by the body stays in the definition scope *)
Theorem C16_restoring_pop_needed : ~ hygiene_no_leak true.
Proof. exact hygiene_no_leak_refuted_lemma. Qed.
Print Assumptions C16_restoring_pop_needed.

(* a name NOT bound at definition time resolves in the un-checkpointed part (the root scope when the
   generic was defined in a nested scope) as it is at the time of the call *)
Theorem C16_hygiene_unbound_names_fall_through_partial :
  forall merges s cp body inside s3,
    length cp = length (cur s) -> hygienic_call merges s cp body = Some (inside, s3) ->
    forall k below, lookup_chain cp sempty k = None -> lookup_chain inside below k = below k.
Proof. intros; eapply hygiene_fallthrough_lemma; eauto. Qed.
Print Assumptions C16_hygiene_unbound_names_fall_through_partial.

(* template expansion (definitional; compiled against the real preprocessor in the tie) *)
Theorem C16_expand_for :
  forall e v lo hi body,
    expand_stmt e (TFor v lo hi body) =
    flat_map (fun i => expand (eset e v i) body) (zrange (eval e lo) (eval e hi)).
Proof. exact expand_for_lemma. Qed.
Print Assumptions C16_expand_for.
Theorem C16_expand_loop_order :
  forall lo hi,
    length (zrange lo hi) = Z.to_nat (hi - lo + 1) /\
    (forall k, (k < Z.to_nat (hi - lo + 1))%nat -> nth_error (zrange lo hi) k = Some (lo + Z.of_nat k)) /\
    (hi < lo -> zrange lo hi = []).
Proof. exact zrange_spec_lemma. Qed.
Print Assumptions C16_expand_loop_order.
Theorem C16_expand_if_call :
  forall e c th el v arg body,
    expand_stmt e (TIf c th el) = expand e (if evalc e c then th else el) /\
    expand_stmt e (TCall v arg body) = expand (eset e v (eval e arg)) body.
Proof. intros; split; [apply expand_if_lemma|apply expand_call_lemma]. Qed.
Print Assumptions C16_expand_if_call.

(* MAIN INJECTION-ORDER OBLIGATION (full strength).  hygienize keeps, since 6cc3727, one cursor per
   hygienized function which add_statnode keeps up to date (model hc_run; the scrape sets
   HYGIENIZE_USES_CURSORS, checked here by computation: if the source goes back to saved absolute
   indices this proof no longer checks).  Whatever a hygienized function's body calls - other
   hygienized functions to any depth, not itself - the statements it emits keep their emission order. *)
Theorem C16_hygienize_own_order :
  HYGIENIZE_USES_CURSORS = true /\
  forall s h body,
    hc_cur s = None -> hc_fn s = None ->
    (forall f, (hc_saved s f <= length (hc_nodes s))%nat) ->
    ~ In h (calls_l body) ->
    (forall x, In x (own_emits body) -> ~ In x (hc_nodes s)) ->
    (forall y, In y (nested_emits body) -> ~ In y (own_emits body)) ->
    restrict (own_emits body) (hc_nodes (hc_run s (HCall h body))) = own_emits body.
Proof. split; [reflexivity|exact cursor_own_order_lemma]. Qed.
Print Assumptions C16_hygienize_own_order.
