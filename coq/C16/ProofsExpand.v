(* Template expansion: a preprocessor loop expands to the concatenation of its instantiated
   body in loop order; conditionals select one branch; a macro call is its body with the
   parameter bound.  (Definitional: the content of the property is in the tie, where the
   expansion computed here is compiled next to the template by the real compiler.) *)
From Coq Require Import ZArith Bool List Lia.
From C16 Require Import Model.
Import ListNotations.
Local Open Scope Z_scope.

Lemma go_is_expand e (b : list tstmt) :
  (fix go (b : list tstmt) : list xline :=
     match b with [] => [] | s' :: r => expand_stmt e s' ++ go r end) b = expand e b.
Proof. unfold expand. induction b as [|s r IH]; simpl; congruence. Qed.

Theorem expand_for_lemma e v lo hi body :
  expand_stmt e (TFor v lo hi body) =
  flat_map (fun i => expand (eset e v i) body) (zrange (eval e lo) (eval e hi)).
Proof.
  simpl. apply flat_map_ext. intros i. apply go_is_expand.
Qed.

Theorem expand_if_lemma e c th el :
  expand_stmt e (TIf c th el) = expand e (if evalc e c then th else el).
Proof. simpl. apply go_is_expand. Qed.

Theorem expand_call_lemma e v arg body :
  expand_stmt e (TCall v arg body) = expand (eset e v (eval e arg)) body.
Proof. simpl. apply go_is_expand. Qed.

Theorem expand_emit_lemma e l : expand_stmt e (TEmit l) = [map (inst_piece e) l].
Proof. reflexivity. Qed.

Lemma expand_app e a b : expand e (a ++ b) = expand e a ++ expand e b.
Proof. unfold expand. apply flat_map_app. Qed.

(* the loop counter takes the values lo..hi in ascending order, none when hi < lo *)
Lemma zrange_from_nth lo n : forall k, (k < n)%nat -> nth_error (zrange_from lo n) k = Some (lo + Z.of_nat k).
Proof.
  revert lo; induction n as [|n IH]; intros lo k L; [lia|]. destruct k as [|k]; simpl.
  - f_equal. lia.
  - rewrite IH by lia. f_equal. lia.
Qed.
Lemma zrange_from_length lo n : length (zrange_from lo n) = n.
Proof. revert lo; induction n; intros; simpl; auto. Qed.

Theorem zrange_spec_lemma lo hi :
  length (zrange lo hi) = Z.to_nat (hi - lo + 1) /\
  (forall k, (k < Z.to_nat (hi - lo + 1))%nat -> nth_error (zrange lo hi) k = Some (lo + Z.of_nat k)) /\
  (hi < lo -> zrange lo hi = []).
Proof.
  unfold zrange. split; [apply zrange_from_length|]. split; [apply zrange_from_nth|].
  intros L. replace (Z.to_nat (hi - lo + 1)) with 0%nat by lia. reflexivity.
Qed.

Example expand_example :
  (* ## for i=1,3 do  <text0> #|'f'..i|# <text1> #[i*2]#  ## if i%2==1 then <text2> #[i]# ## end ## end *)
  expand (fun _ => 0)
         [TFor 0 (EConst 1) (EConst 3)
               [TEmit [PText 0; PName 0 (EVar 0); PText 1; PSubst (EMul (EVar 0) (EConst 2))];
                TIf (CEq (EMod (EVar 0) (EConst 2)) (EConst 1)) [TEmit [PText 2; PSubst (EVar 0)]] []]]
  = [[XText 0; XName 0 1; XText 1; XInt 2]; [XText 2; XInt 1];
     [XText 0; XName 0 2; XText 1; XInt 4];
     [XText 0; XName 0 3; XText 1; XInt 6]; [XText 2; XInt 3]].
Proof. vm_compute. reflexivity. Qed.
