(* get_poly_eval / eval_poly: an existing evaluation is returned iff poly_args_matches holds for
   it; otherwise one entry is appended. *)
From Coq Require Import ZArith Bool List Lia.
From C16 Require Import Model.
Import ListNotations.
Local Open Scope Z_scope.

Lemma zopt_eqb_refl a : zopt_eqb a a = true.
Proof. destruct a; simpl; auto using Z.eqb_refl. Qed.
Lemma zopt_eqb_eq a b : zopt_eqb a b = true -> a = b.
Proof. destruct a, b; simpl; try discriminate; auto. rewrite Z.eqb_eq. congruence. Qed.

Lemma arg_match_refl cv a : arg_match cv a a = true.
Proof.
  unfold arg_match. rewrite Z.eqb_refl. simpl.
  destruct cv, (a_is_attr a) eqn:E; simpl; auto.
  destruct (a_type_comptime a || a_comptime a); auto. rewrite zopt_eqb_refl. reflexivity.
Qed.
Lemma args_match_refl cv l : args_match cv l l = true.
Proof. induction l; simpl; auto. rewrite arg_match_refl. auto. Qed.

Lemma args_match_types cv l r : args_match cv l r = true -> map a_type l = map a_type r.
Proof.
  revert r; induction l as [|x l IH]; intros [|y r]; simpl; try discriminate; auto.
  rewrite andb_true_iff. intros [A B]. unfold arg_match in A. apply andb_true_iff in A as [A _].
  apply Z.eqb_eq in A. rewrite A. f_equal. auto.
Qed.

(* with value comparison on, matching arguments agree on every comptime value *)
Definition comptime_pos (x : parg) : bool := a_is_attr x && (a_type_comptime x || a_comptime x).
Lemma args_match_values l r :
  args_match true l r = true ->
  Forall2 (fun x y => comptime_pos x = true -> a_value x = a_value y /\ a_is_attr y = true) l r.
Proof.
  revert r; induction l as [|x l IH]; intros [|y r]; simpl; try discriminate; [constructor|].
  rewrite andb_true_iff. intros [A B]. constructor; auto.
  unfold arg_match, comptime_pos in *. apply andb_true_iff in A as [_ A]. simpl in A.
  intros C. rewrite C in A.
  apply andb_true_iff in A as [A1 A2]. split; auto using zopt_eqb_eq.
Qed.

Lemma get_poly_eval_some cv evals args : forall i j,
  get_poly_eval cv evals args i = Some j ->
  exists k e, j = (i + k)%nat /\ nth_error evals k = Some e /\ args_match cv e args = true /\
              forall k' e', (k' < k)%nat -> nth_error evals k' = Some e' -> args_match cv e' args = false.
Proof.
  induction evals as [|e r IH]; intros i j; simpl; [discriminate|].
  destruct (args_match cv e args) eqn:M.
  - intros X; inversion X; subst. exists 0%nat, e. repeat split; auto; try lia.
  - intros X. destruct (IH _ _ X) as (k & e0 & -> & N & M0 & F).
    exists (S k), e0. repeat split; auto; try lia.
    intros [|k'] e' L; simpl; [intros Y; inversion Y; subst; auto|]. intros Y. eapply F; eauto. lia.
Qed.

Lemma get_poly_eval_none cv evals args : forall i,
  get_poly_eval cv evals args i = None <-> (forall e, In e evals -> args_match cv e args = false).
Proof.
  induction evals as [|e r IH]; intros i; simpl; [split; auto; intros _ ? []|].
  destruct (args_match cv e args) eqn:M.
  - split; [discriminate|]. intros A. rewrite (A e (or_introl eq_refl)) in M. discriminate.
  - rewrite IH. split; [intros A x [<-|I]; auto|intros A x I; apply A; auto].
Qed.

(* the specification of eval_poly *)
Theorem eval_poly_spec_lemma cv alwayspoly evals args :
  (alwayspoly = true -> eval_poly cv alwayspoly evals args = (length evals, evals ++ [args])) /\
  (alwayspoly = false ->
   (* an existing entry is returned iff some entry matches: the first one, list unchanged *)
   ((exists e, In e evals /\ args_match cv e args = true) ->
    exists i e, eval_poly cv alwayspoly evals args = (i, evals) /\ nth_error evals i = Some e /\
                args_match cv e args = true /\
                forall k' e', (k' < i)%nat -> nth_error evals k' = Some e' -> args_match cv e' args = false) /\
   ((forall e, In e evals -> args_match cv e args = false) ->
    eval_poly cv alwayspoly evals args = (length evals, evals ++ [args]))).
Proof.
  unfold eval_poly. split; [intros ->; reflexivity|]. intros ->. split.
  - intros [e [I M]]. destruct (get_poly_eval cv evals args 0) as [j|] eqn:G.
    + destruct (get_poly_eval_some _ _ _ _ _ G) as (k & e0 & -> & N & M0 & F). simpl. eauto 8.
    + rewrite get_poly_eval_none in G. rewrite (G e I) in M. discriminate.
  - intros A. rewrite (proj2 (get_poly_eval_none cv evals args 0%nat) A). reflexivity.
Qed.

(* whatever happens, the entry used matches the call's arguments and old entries keep their index *)
Lemma eval_poly_entry cv ap evals args i evals' :
  eval_poly cv ap evals args = (i, evals') ->
  (exists e, nth_error evals' i = Some e /\ args_match cv e args = true) /\
  (exists tl, evals' = evals ++ tl) /\ (length evals <= length evals' <= length evals + 1)%nat.
Proof.
  unfold eval_poly. destruct (if ap then None else get_poly_eval cv evals args 0) as [j|] eqn:G.
  - intros X; inversion X; subst. destruct ap; [discriminate|].
    destruct (get_poly_eval_some _ _ _ _ _ G) as (k & e0 & -> & N & M0 & F). simpl.
    split; [eauto|]. split; [exists []; rewrite app_nil_r; auto|lia].
  - intros X; inversion X; subst. split.
    + exists args. rewrite nth_error_app2 by lia. rewrite Nat.sub_diag. simpl. split; auto using args_match_refl.
    + split; [eauto|]. rewrite app_length. simpl. lia.
Qed.

(* same argument types (and comptime values): the same specialisation, nothing new *)
Theorem polyeval_same_args_reuse_lemma cv evals args i evals' :
  eval_poly cv false evals args = (i, evals') -> eval_poly cv false evals' args = (i, evals').
Proof.
  unfold eval_poly. destruct (get_poly_eval cv evals args 0) as [j|] eqn:G.
  - intros X; inversion X; subst. rewrite G. reflexivity.
  - intros X; inversion X; subst. rewrite get_poly_eval_none in G.
    assert (H : forall i, get_poly_eval cv (evals ++ [args]) args i = Some (i + length evals)%nat).
    { clear X. induction evals as [|e r IH]; intros i; simpl.
      - rewrite args_match_refl. f_equal; lia.
      - rewrite (G e (or_introl eq_refl)). rewrite IH; [f_equal; lia|]. intros x I; apply G; right; auto. }
    rewrite H. reflexivity.
Qed.

(* different argument types: distinct specialisations *)
Theorem polyeval_distinct_types_lemma cv ap evals a b i j ev1 ev2 :
  eval_poly cv ap evals a = (i, ev1) -> eval_poly cv ap ev1 b = (j, ev2) ->
  map a_type a <> map a_type b -> i <> j.
Proof.
  intros E1 E2 D ->.
  destruct (eval_poly_entry _ _ _ _ _ _ E1) as ((e1 & N1 & M1) & _ & _).
  destruct (eval_poly_entry _ _ _ _ _ _ E2) as ((e2 & N2 & M2) & (tl & ->) & _).
  assert (nth_error (ev1 ++ tl) j = Some e1) as N1'.
  { rewrite nth_error_app1; auto. apply nth_error_Some. congruence. }
  rewrite N1' in N2. inversion N2; subst e2.
  apply args_match_types in M1. apply args_match_types in M2. congruence.
Qed.

(* two calls share a specialisation only if one stored entry matches both; with value comparison
   on, both then carry that entry's value at each of its comptime positions (args_match_values) *)
Theorem polyeval_shared_entry_lemma cv ap evals a b i ev1 ev2 :
  eval_poly cv ap evals a = (i, ev1) -> eval_poly cv ap ev1 b = (i, ev2) ->
  exists e, args_match cv e a = true /\ args_match cv e b = true.
Proof.
  intros E1 E2.
  destruct (eval_poly_entry _ _ _ _ _ _ E1) as ((e1 & N1 & M1) & _ & _).
  destruct (eval_poly_entry _ _ _ _ _ _ E2) as ((e2 & N2 & M2) & (tl & ->) & _).
  assert (nth_error (ev1 ++ tl) i = Some e1) as N1'.
  { rewrite nth_error_app1; auto. apply nth_error_Some. congruence. }
  rewrite N1' in N2. inversion N2; subst e2. eauto.
Qed.

(* alwayspoly: a new specialisation at every call *)
Theorem polyeval_alwayspoly_lemma cv evals args :
  eval_poly cv true evals args = (length evals, evals ++ [args]).
Proof. reflexivity. Qed.

Example poly_run_example :
  let int := mkParg 1 false false false None in
  let num := mkParg 2 false false false None in
  let c v := mkParg 1 false true true (Some v) in
  fst (poly_run true false [] [[int; c 2]; [int; c 2]; [num; c 2]; [int; c 3]; [int; c 2]]) = [0; 0; 1; 2; 0]%nat /\
  fst (poly_run false false [] [[int; c 2]; [int; c 2]; [num; c 2]; [int; c 3]; [int; c 2]]) = [0; 0; 1; 0; 0]%nat.
Proof. vm_compute. auto. Qed.

(* Comptime values reach poly_args_matches as Lua values compared with `~=`: the model's value ids are
   ==-classes.  Full-strength statement over RAW values (cls maps a raw value to its ==-class): two calls
   that differ in a raw comptime value get distinct specialisations.  It fails as soon as two raw values
   share a class - 0.0 and -0.0 do. *)
Definition raw_call (cls : Z -> Z) (ty raw : Z) : list parg := [mkParg ty false true true (Some (cls raw))].
Definition distinct_raw_values_distinct_specialisations (cls : Z -> Z) : Prop :=
  forall ty r r' i j ev1 ev2,
    r <> r' ->
    eval_poly true false [] (raw_call cls ty r) = (i, ev1) ->
    eval_poly true false ev1 (raw_call cls ty r') = (j, ev2) -> i <> j.
Theorem lua_equal_values_share_refuted_lemma cls :
  (exists r r', r <> r' /\ cls r = cls r') -> ~ distinct_raw_values_distinct_specialisations cls.
Proof.
  intros (r & r' & N & E) F.
  destruct (eval_poly true false [] (raw_call cls 2 r)) as [i ev1] eqn:E1.
  destruct (eval_poly true false ev1 (raw_call cls 2 r')) as [j ev2] eqn:E2.
  apply (F 2 r r' i j ev1 ev2 N E1 E2).
  unfold raw_call in *. rewrite <- E in E2.
  pose proof (polyeval_same_args_reuse_lemma true [] _ _ _ E1) as S. rewrite S in E2. congruence.
Qed.
(* and with an injective class map (no two distinguishable values are ==) the statement holds *)
Lemma get_poly_eval_raw cls ty r r' :
  get_poly_eval true [raw_call cls ty r] (raw_call cls ty r') 0 = if cls r =? cls r' then Some 0%nat else None.
Proof.
  unfold raw_call, get_poly_eval, args_match, arg_match; cbn [a_type a_is_attr a_type_comptime a_comptime a_value zopt_eqb].
  rewrite Z.eqb_refl. cbn. destruct (cls r =? cls r'); reflexivity.
Qed.
Theorem distinct_raw_values_lemma cls :
  (forall r r', cls r = cls r' -> r = r') -> distinct_raw_values_distinct_specialisations cls.
Proof.
  intros Inj ty r r' i j ev1 ev2 N E1 E2.
  assert (A : eval_poly true false [] (raw_call cls ty r) = (0%nat, [raw_call cls ty r])) by reflexivity.
  rewrite A in E1. inversion E1; subst; clear E1.
  unfold eval_poly in E2. rewrite get_poly_eval_raw in E2.
  destruct (cls r =? cls r') eqn:Q.
  - apply Z.eqb_eq in Q. apply Inj in Q. contradiction.
  - inversion E2; subst. simpl. discriminate.
Qed.

(* the raw comptime values of the replayer (gen.POLYC_ARGS: 20 = 0.0, 21 = -0.0, every other id its own value)
   and their classes under the comparison poly_args_matches uses: Lua's == merges 0.0 and -0.0, a comparison
   that also looks at the sign of zero does not *)
Definition raw_cls (signed_zero : bool) (r : Z) : Z := if signed_zero then r else if r =? 21 then 20 else r.
Lemma raw_cls_spec signed_zero :
  match signed_zero return Prop with
  | true => distinct_raw_values_distinct_specialisations (raw_cls signed_zero)
  | false => ~ distinct_raw_values_distinct_specialisations (raw_cls signed_zero)
  end.
Proof.
  destruct signed_zero.
  - apply distinct_raw_values_lemma. intros r r' E. exact E.
  - apply lua_equal_values_share_refuted_lemma. exists 20, 21. split; [discriminate|reflexivity].
Qed.
