(* C16 - preprocessor expansion and specialisation preserve meaning and type identity.
   Executable models of
     utils/memoize.lua  memoize                          -> [memo_call], [memo_run]     (as in C07)
     types.lua  poly_args_matches / get_poly_eval / eval_poly  -> [args_match], [get_poly_eval], [eval_poly], [poly_run]
     scope.lua  make/set/merge/push/pop_checkpoint, ppcontext.lua hygienize -> [make_checkpoint] ... [hygienic_call]
     preprocessor loops / conditionals / substitutions / macro calls    -> [expand]
   No proofs in this file. *)
From Coq Require Import ZArith Bool List.
Import ListNotations.
Local Open Scope Z_scope.

(* ---------------------------------------------------------------- memoize (utils/memoize.lua) *)
Section Memo.
  Variable A R : Type.
  Variable eqv : A -> A -> bool.      (* all arguments match: pv == av or shallow_compare_nomt(pv, av) *)
  Variable f : A -> R.
  (* cache entry: packed parameters and the result OBJECT = (index of the evaluation, value) *)
  Definition entry := (A * (nat * R))%type.
  Definition memo_find (cache : list entry) (a : A) : option (nat * R) :=
    match find (fun e => eqv (fst e) a) cache with
    | Some e => Some (snd e)
    | None => None
    end.
  Definition memo_call (cache : list entry) (n : nat) (a : A) : (nat * R) * list entry * nat :=
    match memo_find cache a with
    | Some r => (r, cache, n)
    | None => let r := (n, f a) in (r, cache ++ [(a, r)], S n)
    end.
  (* [perms]: order in which pairs(cache) delivers the cache at each call *)
  Fixpoint memo_run (perms : list (list entry -> list entry)) (cache : list entry) (n : nat)
           (args : list A) : list (nat * R) * nat :=
    match args with
    | [] => ([], n)
    | a :: r =>
      let p := match perms with p :: _ => p | [] => (fun c => c) end in
      let '(res, cache', n') := memo_call (p cache) n a in
      let '(rs, nf) := memo_run (tl perms) cache' n' r in
      (res :: rs, nf)
    end.
End Memo.

(* generic arguments as the compiler passes them: types (compared by identity = type id) and
   comptime values *)
Inductive garg := GType (id : Z) | GVal (v : Z) | GNil.   (* GNil: an omitted optional parameter *)
Definition garg_eqb (a b : garg) : bool :=
  match a, b with GType x, GType y => x =? y | GVal x, GVal y => x =? y | GNil, GNil => true | _, _ => false end.
Fixpoint gargs_eqb (a b : list garg) : bool :=
  match a, b with
  | [], [] => true
  | x :: a', y :: b' => garg_eqb x y && gargs_eqb a' b'
  | _, _ => false
  end.
(* generalize(f) = generic(memoize(hygienize(f))): instantiating with a sequence of argument lists
   yields, per instantiation, the index of the evaluation that created the type *)
Definition generic_run (args : list (list garg)) : list (nat * unit) * nat :=
  memo_run (list garg) unit gargs_eqb (fun _ => tt) [] [] 0%nat args.

(* ---------------------------------------------------------------- polymorphic evaluations (types.lua) *)
Record parg := mkParg {
  a_type : Z;               (* identity of the argument type *)
  a_type_comptime : bool;   (* ltype.is_comptime *)
  a_is_attr : bool;         (* traits.is_attr(arg): the argument is an attr (carries a value), not a bare type *)
  a_comptime : bool;        (* attr.comptime *)
  a_value : option Z        (* attr.value *)
}.
Definition zopt_eqb (a b : option Z) : bool :=
  match a, b with Some x, Some y => x =? y | None, None => true | _, _ => false end.

(* one position of poly_args_matches; [cmpvals] = "comptime values are compared" (scraped) *)
Definition arg_match (cmpvals : bool) (l r : parg) : bool :=
  (a_type l =? a_type r) &&
  (if cmpvals && a_is_attr l && (a_type_comptime l || a_comptime l)
   then zopt_eqb (a_value l) (a_value r) && a_is_attr r
   else true).
(* izip2 runs until both lists are exhausted: a missing argument has type nil, never equal *)
Fixpoint args_match (cmpvals : bool) (l r : list parg) : bool :=
  match l, r with
  | [], [] => true
  | x :: l', y :: r' => arg_match cmpvals x y && args_match cmpvals l' r'
  | _, _ => false
  end.

Fixpoint get_poly_eval (cmpvals : bool) (evals : list (list parg)) (args : list parg) (i : nat) : option nat :=
  match evals with
  | [] => None
  | e :: r => if args_match cmpvals e args then Some i else get_poly_eval cmpvals r args (S i)
  end.

(* eval_poly: index of the evaluation used and the evaluation list afterwards *)
Definition eval_poly (cmpvals alwayspoly : bool) (evals : list (list parg)) (args : list parg)
  : nat * list (list parg) :=
  match (if alwayspoly then None else get_poly_eval cmpvals evals args 0%nat) with
  | Some i => (i, evals)
  | None => (length evals, evals ++ [args])
  end.

Fixpoint poly_run (cmpvals alwayspoly : bool) (evals : list (list parg)) (calls : list (list parg))
  : list nat * list (list parg) :=
  match calls with
  | [] => ([], evals)
  | c :: r => let '(i, evals') := eval_poly cmpvals alwayspoly evals c in
              let '(is, ef) := poly_run cmpvals alwayspoly evals' r in
              (i :: is, ef)
  end.

(* ---------------------------------------------------------------- scopes and checkpoints (scope.lua) *)
(* own symbols of one scope: name -> symbol; lookups fall through to the parent (__index) *)
Definition smap := Z -> option Z.
Definition sempty : smap := fun _ => None.
Definition sset (m : smap) (k v : Z) : smap := fun k' => if k' =? k then Some v else m k'.
(* tabler.update(dst, src) *)
Definition supdate (dst src : smap) : smap := fun k => match src k with Some v => Some v | None => dst k end.

(* a scope with its non-root ancestors, innermost first (make_checkpoint stops below the root
   scope unless the scope itself is the root) *)
Definition chain := list smap.

Definition make_checkpoint (c : chain) : chain := c.                 (* tabler.copy at every level *)
(* tabler.clear + tabler.update at every level for which the checkpoint has a parentcheck *)
Fixpoint set_checkpoint (c cp : chain) : chain :=
  match c, cp with
  | s :: c', p :: cp' => supdate sempty p :: set_checkpoint c' cp'
  | _, _ => c
  end.
Fixpoint merge_checkpoint (c cp : chain) : chain :=
  match c, cp with
  | s :: c', p :: cp' => supdate s p :: merge_checkpoint c' cp'
  | _, _ => c
  end.

Record sstate := mkSS { cur : chain; cpstack : list chain }.
Definition push_checkpoint (s : sstate) (cp : chain) : sstate :=
  mkSS (set_checkpoint (cur s) cp) (make_checkpoint (cur s) :: cpstack s).
(* [merges] = "pop_checkpoint merges the saved symbols back" (scraped; the alternative, used to state
   what a repair would give, restores them with set_checkpoint) *)
Definition pop_checkpoint (merges : bool) (s : sstate) : option sstate :=
  match cpstack s with
  | old :: st => Some (mkSS (if merges then merge_checkpoint (cur s) old else set_checkpoint (cur s) old) st)
  | [] => None
  end.

(* name resolution: innermost scope first, then [below] = the part of the scope chain that is not
   checkpointed (the root scope when the generic was defined in a nested scope) *)
Fixpoint lookup_chain (c : chain) (below : smap) (k : Z) : option Z :=
  match c with
  | [] => below k
  | s :: r => match s k with Some v => Some v | None => lookup_chain r below k end
  end.

(* what a hygienized function does around its body (PPContext:hygienize); the body runs with the
   definition scope current and may declare symbols in it *)
Definition hygienic_call (merges : bool) (s : sstate) (cp : chain) (body : chain -> chain) : option (chain * sstate) :=
  let s1 := push_checkpoint s cp in
  let inside := cur s1 in
  let s2 := mkSS (body inside) (cpstack s1) in
  match pop_checkpoint merges s2 with
  | Some s3 => Some (inside, s3)
  | None => None
  end.

(* a body that declares the given (name, symbol) pairs in the innermost scope *)
Definition declare_all (decls : list (Z * Z)) (c : chain) : chain :=
  match c with
  | [] => []
  | s :: r => fold_left (fun m kv => sset m (fst kv) (snd kv)) decls s :: r
  end.

(* ---------------------------------------------------------------- template expansion (preprocessor.lua) *)
Inductive pexpr :=
| EConst (z : Z) | EVar (v : nat) | EAdd (a b : pexpr) | EMul (a b : pexpr) | EMod (a b : pexpr).
Inductive pcond := CEq (a b : pexpr) | CLt (a b : pexpr) | CNot (c : pcond).
(* pieces of an emitted source line: fixed text number n (table kept by the harness),
   #[e]# and #|'<prefix n>'..e|# *)
Inductive piece := PText (n : Z) | PSubst (e : pexpr) | PName (prefix : Z) (e : pexpr).
Inductive tstmt :=
| TEmit (l : list piece)
| TFor (v : nat) (lo hi : pexpr) (body : list tstmt)      (* ## for v=lo,hi do body ## end *)
| TIf (c : pcond) (th el : list tstmt)                    (* ## if c then th ## else el ## end *)
| TCall (v : nat) (arg : pexpr) (body : list tstmt).      (* ## mac(arg): macro body with parameter v *)

Definition env := nat -> Z.
Definition eset (e : env) (v : nat) (z : Z) : env := fun v' => if Nat.eqb v' v then z else e v'.

Fixpoint eval (e : env) (x : pexpr) : Z :=
  match x with
  | EConst z => z
  | EVar v => e v
  | EAdd a b => eval e a + eval e b
  | EMul a b => eval e a * eval e b
  | EMod a b => eval e a mod eval e b        (* Lua integer % = floor modulo (b <> 0 in generated templates) *)
  end.
Fixpoint evalc (e : env) (c : pcond) : bool :=
  match c with
  | CEq a b => eval e a =? eval e b
  | CLt a b => eval e a <? eval e b
  | CNot c' => negb (evalc e c')
  end.

(* expanded pieces: text n, integer literal, name = prefix n followed by the decimal integer *)
Inductive xpiece := XText (n : Z) | XInt (z : Z) | XName (prefix : Z) (z : Z).
Definition xline := list xpiece.

Definition inst_piece (e : env) (p : piece) : xpiece :=
  match p with
  | PText n => XText n
  | PSubst x => XInt (eval e x)
  | PName pre x => XName pre (eval e x)
  end.

(* values lo, lo+1, ..., hi of a numeric for with step 1 *)
Fixpoint zrange_from (lo : Z) (n : nat) : list Z :=
  match n with O => [] | S n' => lo :: zrange_from (lo + 1) n' end.
Definition zrange (lo hi : Z) : list Z := zrange_from lo (Z.to_nat (hi - lo + 1)).

Fixpoint expand_stmt (e : env) (s : tstmt) {struct s} : list xline :=
  match s with
  | TEmit l => [map (inst_piece e) l]
  | TFor v lo hi body =>
    flat_map (fun i => (fix go (b : list tstmt) : list xline :=
                          match b with [] => [] | s' :: r => expand_stmt (eset e v i) s' ++ go r end) body)
             (zrange (eval e lo) (eval e hi))
  | TIf c th el =>
    (fix go (b : list tstmt) : list xline :=
       match b with [] => [] | s' :: r => expand_stmt e s' ++ go r end) (if evalc e c then th else el)
  | TCall v arg body =>
    (fix go (b : list tstmt) : list xline :=
       match b with [] => [] | s' :: r => expand_stmt (eset e v (eval e arg)) s' ++ go r end) body
  end.
Definition expand (e : env) (b : list tstmt) : list xline := flat_map (expand_stmt e) b.

(* ---------------------------------------------------------------- where a hygienized function injects (ppcontext.lua) *)
(* PPContext:add_statnode with statnodes.addindex, and the addindex bookkeeping of hygienize: every
   hygienized function keeps the (absolute) index of its definition point in the statement list
   and injects there; nested calls save/restore statnodes.addindex. *)
Inductive hact :=
| HEmit (x : Z)                          (* the body injects statement x *)
| HCall (h : nat) (body : list hact).    (* the body calls hygienized function h, whose body does [body] *)

Record hst := mkH {
  h_nodes : list Z;                      (* the statement list *)
  h_cur : option nat;                    (* statnodes.addindex (0-based position), None = append *)
  h_saved : nat -> nat                   (* the captured `addindex` of each hygienized function *)
}.
Definition insert_at {A} (k : nat) (x : A) (l : list A) : list A := firstn k l ++ x :: skipn k l.
Definition set_saved (f : nat -> nat) (h v : nat) : nat -> nat := fun h' => if Nat.eqb h' h then v else f h'.

Definition h_emit (s : hst) (x : Z) : hst :=
  match h_cur s with
  | Some k => mkH (insert_at k x (h_nodes s)) (Some (S k)) (h_saved s)
  | None => mkH (h_nodes s ++ [x]) None (h_saved s)
  end.

(* the index bookkeeping used before 6cc3727 ([adjust] = false), and a simpler repair that was tried and
   found insufficient ([adjust] = true: hygienize moves the caller's position
   past the statements the callee inserted at or before it). *)
Fixpoint h_run (adjust : bool) (s : hst) (a : hact) {struct a} : hst :=
  match a with
  | HEmit x => h_emit s x
  | HCall h body =>
    let old := h_cur s in
    let start := h_saved s h in
    let s1 := mkH (h_nodes s) (Some start) (h_saved s) in
    let s2 := (fix go (b : list hact) (st : hst) : hst :=
                 match b with [] => st | a' :: r => go r (h_run adjust st a') end) body s1 in
    let pos := match h_cur s2 with Some k => k | None => start end in
    let saved' := if Nat.eqb pos start then h_saved s2 else set_saved (h_saved s2) h pos in
    let ins := (length (h_nodes s2) - length (h_nodes s))%nat in
    let old' := match old with
                | Some o => if adjust && Nat.leb start o then Some (o + ins)%nat else Some o
                | None => None
                end in
    mkH (h_nodes s2) old' saved'
  end.
Definition h_run_all (adjust : bool) (s : hst) (l : list hact) : hst := fold_left (h_run adjust) l s.

(* the statements a body emits itself, in emission order *)
Definition own_emits (body : list hact) : list Z :=
  flat_map (fun a => match a with HEmit x => [x] | HCall _ _ => [] end) body.
(* all statements emitted during a call, in emission order *)
Fixpoint all_emits (a : hact) : list Z :=
  match a with
  | HEmit x => [x]
  | HCall _ body => (fix go (b : list hact) : list Z := match b with [] => [] | a' :: r => all_emits a' ++ go r end) body
  end.
(* the order in which the given statements occur in the final list *)
Definition restrict (keep : list Z) (l : list Z) : list Z := filter (fun x => existsb (Z.eqb x) keep) l.

(* The bookkeeping of ppcontext.lua since 6cc3727: every hygienized function owns a cursor into the
   statement list; an injection at position k moves every OTHER cursor at or after k one step on
   (PPContext:inject_statement, PPContext:hygienize).  [h_run] above is the index bookkeeping used before,
   kept for the refutation in ProofsInject.v and for scratch copies that revert the repair. *)
Record hcst := mkHC {
  hc_nodes : list Z;
  hc_cur : option nat;                 (* statnodes.addindex *)
  hc_fn : option nat;                  (* the function whose cursor is live in statnodes.addindex *)
  hc_saved : nat -> nat                (* cursor.index of each hygienized function *)
}.
Definition hc_emit (s : hcst) (x : Z) : hcst :=
  match hc_cur s with
  | Some k =>
    let bump := fun h' => let v := hc_saved s h' in      (* bound once: the extracted closure chain stays linear *)
                          if (match hc_fn s with Some f => negb (Nat.eqb f h') | None => true end) && Nat.leb k v
                          then S v else v in
    mkHC (insert_at k x (hc_nodes s)) (Some (S k)) (hc_fn s) bump
  | None => mkHC (hc_nodes s ++ [x]) None (hc_fn s) (hc_saved s)
  end.
Fixpoint hc_run (s : hcst) (a : hact) {struct a} : hcst :=
  match a with
  | HEmit x => hc_emit s x
  | HCall h body =>
    let old := hc_cur s in
    let oldfn := hc_fn s in
    let saved1 := match oldfn, old with Some f, Some o => set_saved (hc_saved s) f o | _, _ => hc_saved s end in
    let s1 := mkHC (hc_nodes s) (Some (saved1 h)) (Some h) saved1 in
    let s2 := (fix go (b : list hact) (st : hcst) : hcst :=
                 match b with [] => st | a' :: r => go r (hc_run st a') end) body s1 in
    let pos := match hc_cur s2 with Some k => k | None => saved1 h end in
    let saved' := set_saved (hc_saved s2) h pos in
    let old' := match oldfn with Some f => Some (saved' f) | None => old end in
    mkHC (hc_nodes s2) old' oldfn saved'
  end.
