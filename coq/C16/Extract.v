From Coq Require Import ZArith.
From C16 Require Import Gen Model.
Require Extraction.
Require Import ExtrOcamlBasic.
Definition unused_n : N := N.of_nat 0.
Extraction "model.ml" generic_run poly_run eval_poly hygienic_call declare_all lookup_chain sset sempty expand
  POLY_COMPARES_COMPTIME_VALUES POP_CHECKPOINT_MERGES HYGIENIZE_ADJUSTS_CALLER HYGIENIZE_USES_CURSORS h_run h_emit mkH hc_run hc_emit mkHC set_saved unused_n.
