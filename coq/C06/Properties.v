From C06 Require Import Model Proofs.
