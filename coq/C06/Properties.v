(* Property C06: the front end is total (level: proof, PARTIAL - see checks/C06.py).
   Only the property theorems, each closed by [exact] of a lemma of Proofs.v and followed by
   Print Assumptions.  They cover the pure cores of the error path (calcline, escape decoding,
   capture nesting); the LPegLabel matcher and the Lua VM are tested, not modelled. *)
From C06 Require Import Model Proofs.
Local Open Scope Z_scope.

(* lpegrex.calcline, for EVERY text and EVERY position >= 0: the line number is a line of the text,
   the line text is the substring of the input between two newlines / the ends, contains no
   newline, and line start + column is the (clamped) position *)
Theorem C06_calcline_spec : forall text pos c, calcline text pos = Some c ->
  let p := Z.min pos (len text) in
  0 <= pos /\
  1 <= c_lineno c <= lines text /\
  c_lineno c = count_nl (firstn (Z.to_nat p) text) + 1 /\
  0 <= c_colno c <= len (c_line c) /\
  c_linestart c - 1 + c_colno c = p /\
  c_lineend c = c_linestart c - 1 + len (c_line c) /\
  no_nl (c_line c) /\
  text = firstn (Z.to_nat (c_linestart c - 1)) text ++ c_line c ++ skipn (Z.to_nat (c_lineend c)) text /\
  (c_linestart c = 1 \/ nth (Z.to_nat (c_linestart c - 2)) text 0 = NL) /\
  (skipn (Z.to_nat (c_lineend c)) text = [] \/ exists r, skipn (Z.to_nat (c_lineend c)) text = NL :: r).
Proof. exact calcline_spec. Qed.
Print Assumptions C06_calcline_spec.

(* the full column statement (1 <= col <= |line|+1 for every position inside the input) is false
   for the code as it is ... *)
Theorem C06_calcline_col_refuted : ~ calcline_col_full.
Proof. exact calcline_col_refuted. Qed.
Print Assumptions C06_calcline_col_refuted.

(* ... column 0 is reported exactly when the position is 0 or sits on a newline ... *)
Theorem C06_calcline_col0_iff : forall text pos c, calcline text pos = Some c ->
  let p := Z.min pos (len text) in
  (c_colno c = 0 <-> (p = 0 \/ last (firstn (Z.to_nat p) text) 0 = NL)).
Proof. exact calcline_col0_iff. Qed.
Print Assumptions C06_calcline_col0_iff.

(* ... and everywhere else the column lies inside the line *)
Theorem C06_calcline_col_partial : forall text pos c, calcline text pos = Some c ->
  let p := Z.min pos (len text) in
  1 <= p -> last (firstn (Z.to_nat p) text) 0 <> NL -> 1 <= c_colno c <= len (c_line c).
Proof. exact calcline_col_partial. Qed.
Print Assumptions C06_calcline_col_partial.

(* escape decoding is a total function, but the accepted escapes are not all inside the callbacks'
   domains (string.char: 0..UCHAR_MAX, utf8.char: 0..MAXUTF): two refutations ... *)
Theorem C06_escape_total_refuted_dec : ~ escape_total.
Proof. exact escape_total_refuted_dec. Qed.
Print Assumptions C06_escape_total_refuted_dec.

Theorem C06_escape_total_refuted_u : ~ escape_total.
Proof. exact escape_total_refuted_u. Qed.
Print Assumptions C06_escape_total_refuted_u.

(* ... every value handed to tochar is a byte unless the escape is a 3-digit decimal above
   UCHAR_MAX (the family \256..\299) ... *)
Theorem C06_escape_char_partial : forall l v r, decode_escape l = EChar v r ->
  0 <= v <= Z.max UCHAR_MAX (100 * DEC3_LEAD_MAX + 99) /\ (UCHAR_MAX < v -> dec3 l v r).
Proof. exact escape_char_domain. Qed.
Print Assumptions C06_escape_char_partial.

(* ... every value handed to toutf8char is tonumber's 64-bit wrapped value of the hex digits ... *)
Theorem C06_escape_utf8_partial : forall l v r, decode_escape l = EUtf8 v r ->
  0 <= v < 2 ^ 64 /\
  exists digs, digs <> [] /\ forallb is_hex digs = true /\ v = hexval digs /\ l = 117 :: 123 :: digs ++ 125 :: r.
Proof. exact escape_utf8_domain. Qed.
Print Assumptions C06_escape_utf8_partial.

(* ... so the inputs on which a callback is called outside its domain are exactly these two families *)
Theorem C06_escape_undefined_iff : forall l, ~ esc_defined (decode_escape l) <->
  (exists v r, decode_escape l = EChar v r /\ UCHAR_MAX < v /\ dec3 l v r) \/
  (exists v r, decode_escape l = EUtf8 v r /\ MAXUTF < v).
Proof. exact escape_undefined_iff. Qed.
Print Assumptions C06_escape_undefined_iff.

(* capture nesting: with the depth the expression ladder produces for n nested bracketings,
   "subcapture nesting too deep" is raised exactly from the computed threshold on
   (for all n, every family, every context depth) *)
Theorem C06_nesting_threshold : forall f ctx n, 0 <= n ->
  (too_deep (depth f ctx n) = true <-> threshold f ctx <= n).
Proof. exact nesting_threshold. Qed.
Print Assumptions C06_nesting_threshold.
