(* Property C06: the front end is total (level: proof, PARTIAL - see checks/C06.py).
   Only the property theorems, each closed by [exact] of a lemma of Proofs.v and followed by
   Print Assumptions.  They cover the pure cores of the error path (calcline, escape decoding,
   capture nesting); the LPegLabel matcher and the Lua VM are tested, not modelled. *)
From C06 Require Import Model Proofs.
Local Open Scope Z_scope.

(* lpegrex.calcline, for EVERY text and EVERY position >= 0 (q = the number of characters whose
   newlines count: position-1 in the repaired code): the line number is a line of the text, the
   line text is the substring of the input between two newlines / the ends, contains no newline,
   and line start + column is the (clamped) position *)
Theorem C06_calcline_spec : forall text pos c, calcline text pos = Some c ->
  let p := Z.min pos (len text) in let q := calc_split p in
  0 <= pos /\ 0 <= q <= p /\
  1 <= c_lineno c <= lines text /\
  c_lineno c = count_nl (firstn (Z.to_nat q) text) + 1 /\
  0 <= c_colno c <= len (c_line c) + (p - q) /\
  c_linestart c - 1 + c_colno c = p /\
  c_lineend c = c_linestart c - 1 + len (c_line c) /\
  no_nl (c_line c) /\
  text = firstn (Z.to_nat (c_linestart c - 1)) text ++ c_line c ++ skipn (Z.to_nat (c_lineend c)) text /\
  (c_linestart c = 1 \/ nth (Z.to_nat (c_linestart c - 2)) text 0 = NL) /\
  (skipn (Z.to_nat (c_lineend c)) text = [] \/ exists r, skipn (Z.to_nat (c_lineend c)) text = NL :: r).
Proof. exact calcline_spec. Qed.
Print Assumptions C06_calcline_spec.

(* full strength (the code was repaired in /repo 4fe17f9): for every non-empty text and every
   position 1..|text|+1 the column lies in 1..|line|+1 *)
Theorem C06_calcline_col : calcline_col_full.
Proof. exact calcline_col. Qed.
Print Assumptions C06_calcline_col.

(* column 0 only for position 0 / the empty text (never for an error position inside a text) *)
Theorem C06_calcline_col0_iff : forall text pos c, calcline text pos = Some c ->
  (c_colno c = 0 <-> Z.min pos (len text) = 0).
Proof. exact calcline_col0_iff. Qed.
Print Assumptions C06_calcline_col0_iff.

(* full strength (repaired in /repo fb68b76): escape decoding is a total function and EVERY escape
   the grammar accepts calls its callback inside its domain (string.char: 0..UCHAR_MAX,
   utf8.char: 0..MAXUTF on tonumber's 64-bit wrapped value) *)
Theorem C06_escape_total : escape_total.
Proof. exact escape_total_holds. Qed.
Print Assumptions C06_escape_total.

(* every value handed to toutf8char is tonumber's value of the captured hex digits (shape of the
   \u rule) *)
Theorem C06_escape_utf8_shape : forall r1 digs r3, u_bounded_digits r1 = Some (digs, r3) ->
  0 <= hexval digs <= MAXUTF.
Proof. exact u_bounded_value. Qed.
Print Assumptions C06_escape_utf8_shape.

(* capture nesting: with the depth the expression ladder produces for n nested bracketings,
   the matcher gives up ("subcapture nesting too deep") exactly from the computed threshold on
   (for all n, every family, every context depth); since /repo c94038a the compiler turns that
   into a located syntax error instead of a stack traceback (checked by the oracle, not modelled) *)
Theorem C06_nesting_threshold : forall f ctx n, 0 <= n ->
  (too_deep (depth f ctx n) = true <-> threshold f ctx <= n).
Proof. exact nesting_threshold. Qed.
Print Assumptions C06_nesting_threshold.
