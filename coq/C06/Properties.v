(* Property C06: the front end is total (level: proof, PARTIAL - see checks/C06.py).
   Only the property theorems, each closed by [exact] of a lemma of Proofs.v and followed by
   Print Assumptions.  They cover the pure cores of the error path (calcline, escape decoding,
   capture nesting); the LPegLabel matcher and the Lua VM are tested, not modelled. *)
From C06 Require Import Model Model2 Proofs Proofs2.
Local Open Scope Z_scope.

(* lpegrex.calcline, for EVERY text and EVERY position >= 0 (q = the number of characters whose
   newlines count: position-1 in the repaired code): the line number is a line of the text, the
   line text is the substring of the input between two newlines / the ends, contains no newline,
   and line start + column is the (clamped) position *)
Theorem C06_calcline_spec : forall text pos c, calcline text pos = Some c ->
  let p := Z.min pos (len text) in let q := calc_split p in
  0 <= pos /\ 0 <= q <= p /\
  1 <= c_lineno c <= lines text /\
  c_lineno c = count_nl (firstn (Z.to_nat q) text) + 1 /\
  0 <= c_colno c <= len (c_line c) + (p - q) /\
  c_linestart c - 1 + c_colno c = p /\
  c_lineend c = c_linestart c - 1 + len (c_line c) /\
  no_nl (c_line c) /\
  text = firstn (Z.to_nat (c_linestart c - 1)) text ++ c_line c ++ skipn (Z.to_nat (c_lineend c)) text /\
  (c_linestart c = 1 \/ nth (Z.to_nat (c_linestart c - 2)) text 0 = NL) /\
  (skipn (Z.to_nat (c_lineend c)) text = [] \/ exists r, skipn (Z.to_nat (c_lineend c)) text = NL :: r).
Proof. exact calcline_spec. Qed.
Print Assumptions C06_calcline_spec.

(* full strength (the code was repaired in /repo 4fe17f9): for every non-empty text and every
   position 1..|text|+1 the column lies in 1..|line|+1 *)
Theorem C06_calcline_col : calcline_col_full.
Proof. exact calcline_col. Qed.
Print Assumptions C06_calcline_col.

(* column 0 only for position 0 / the empty text (never for an error position inside a text) *)
Theorem C06_calcline_col0_iff : forall text pos c, calcline text pos = Some c ->
  (c_colno c = 0 <-> Z.min pos (len text) = 0).
Proof. exact calcline_col0_iff. Qed.
Print Assumptions C06_calcline_col0_iff.

(* the scraped flag CALCLINE_EXCLUSIVE is needed: calcline is calcline_with CALCLINE_EXCLUSIVE (by definition), and under
   the old policy (calcline_with false: the prefix includes the position) C06_calcline_col's statement is false -
   an error position on a newline gets column 0 *)
Theorem C06_calcline_col_needs_exclusive : exists text pos c, 1 <= pos <= len text + 1 /\ 1 <= len text /\
  calcline_with false text pos = Some c /\ c_colno c = 0.
Proof. exact calcline_exclusive_needed. Qed.
Print Assumptions C06_calcline_col_needs_exclusive.

(* full strength (repaired in /repo fb68b76): escape decoding is a total function and EVERY escape
   the grammar accepts calls its callback inside its domain (string.char: 0..UCHAR_MAX,
   utf8.char: 0..MAXUTF on tonumber's 64-bit wrapped value) *)
Theorem C06_escape_total : escape_total.
Proof. exact escape_total_holds. Qed.
Print Assumptions C06_escape_total.

(* every value handed to toutf8char is tonumber's value of the captured hex digits (shape of the
   \u rule) *)
Theorem C06_escape_utf8_shape : forall r1 digs r3, u_bounded_digits r1 = Some (digs, r3) ->
  0 <= hexval digs <= MAXUTF.
Proof. exact u_bounded_value. Qed.
Print Assumptions C06_escape_utf8_shape.

(* the scraped flag U_BOUNDED is needed: under the old \u rule (the model's other branch: span_hex, any number of hex
   digits) a value above MAXUTF reaches utf8.char, so C06_escape_total's domain clause is false there *)
Theorem C06_escape_u_bound_needed : exists digs r1 r3, span_hex r1 = (digs, 125 :: r3) /\ digs <> [] /\ MAXUTF < hexval digs.
Proof. exact escape_u_bound_needed. Qed.
Print Assumptions C06_escape_u_bound_needed.

(* capture nesting: with the depth the expression ladder produces for n nested bracketings,
   the matcher gives up ("subcapture nesting too deep") exactly from the computed threshold on
   (for all n, every family, every context depth); since /repo c94038a the compiler turns that
   into a located syntax error instead of a stack traceback (checked by the oracle, not modelled) *)
Theorem C06_nesting_threshold : forall f ctx n, 0 <= n ->
  (too_deep (depth f ctx n) = true <-> threshold f ctx <= n).
Proof. exact nesting_threshold. Qed.
Print Assumptions C06_nesting_threshold.

(* C stack: the worst-case stack use of the capture recursion (MAXRECLEVEL + 2 frames of
   pushcapture, each holding PUSHCAPTURE_BUFFERS luaL_Buffer objects of LUAL_BUFFERSIZE bytes, plus
   FRAME_SLACK) together with LUAI_MAXCCALLS nested C calls stays below the 8 MiB main-thread
   stack (budget and slack are stated assumptions; the other numbers are scraped from the
   Makefile, luaconf.h, llimits.h, lplcap.c) *)
Theorem C06_cstack_budget : capture_stack_worst + ccall_stack_worst < CSTACK_BUDGET /\
  1 <= PUSHCAPTURE_BUFFERS /\ 0 < LUAL_BUFFERSIZE /\ 0 < LUAI_MAXCCALLS.
Proof. exact cstack_budget. Qed.
Print Assumptions C06_cstack_budget.

(* all nesting families: the capture nesting limit is reached exactly from the family's threshold
   on (families whose captures do not nest never reach it) *)
Theorem C06_cap_threshold : forall f n, 0 <= n ->
  match cap_threshold f with
  | Some t => (MAXRECLEVEL + 2 <= cap_depth f n <-> t <= n)
  | None => cap_depth f n = cap_base f
  end.
Proof. exact cap_threshold_spec. Qed.
Print Assumptions C06_cap_threshold.

(* the LPeg backtrack stack (limit lpeg.setmaxstack) overflows exactly from bt_threshold on; the
   per-level entries are calibrated constants of the model (validated every run), the limit is scraped *)
Theorem C06_backtrack_threshold : forall f n, 0 <= n -> (LPEG_MAXSTACK < bt_usage f n <-> bt_threshold f <= n).
Proof. exact bt_threshold_spec. Qed.
Print Assumptions C06_backtrack_threshold.

(* what the matcher does on n nested levels of a family, for every n *)
Theorem C06_family_outcome : forall f n, 0 <= n ->
  family_outcome f n =
    if bt_threshold f <=? n then BacktrackOverflow
    else match cap_threshold f with
         | Some t => if t <=? n then TooDeep else Parsed
         | None => Parsed
         end.
Proof. exact family_outcome_spec. Qed.
Print Assumptions C06_family_outcome.

(* termination in reasonable time.  work k n = 1 + k * work k (n-1) is the parse work of n nested levels
   when k alternatives/lookaheads parse the nested part completely (Model2.v); work_linear w says
   w n <= 2n + 1.  Call statements f(function() ... end): linear since /repo 0a3ab95 ... *)
Theorem C06_parse_work_call_linear : work_linear parse_work_call.
Proof. exact parse_work_call_linear. Qed.
Print Assumptions C06_parse_work_call_linear.

(* ... macro calls m!(m!(...)): linear since /repo af8f8af (ppcallprim decides with a token lookahead) ... *)
Theorem C06_parse_work_macro_linear : work_linear parse_work_macro.
Proof. exact parse_work_macro_linear. Qed.
Print Assumptions C06_parse_work_macro_linear.

(* ... but one shape still doubles per level in the grammar as it is: assignments to a field of a call
   result, f(function() ... end).x = 1 (a side effect of the
   order `call !(..) / Assign / call`; linear before 0a3ab95) *)
Theorem C06_parse_work_assign_callidx_refuted : ~ work_linear parse_work_assign_callidx.
Proof. exact parse_work_assign_callidx_refuted. Qed.
Print Assumptions C06_parse_work_assign_callidx_refuted.
Theorem C06_parse_work_assign_callidx_partial : forall n, 2 ^ Z.of_nat n <= parse_work_assign_callidx n.
Proof. exact parse_work_assign_callidx_doubles. Qed.
Print Assumptions C06_parse_work_assign_callidx_partial.

(* the diagnostic errorer.get_pretty_source_pos_errmsg builds (no colours): name ':' line ':' col
   ': syntax error: ' message, the source line, the caret line.  line and col are printed as
   non-empty decimal digit strings whose value is the number; the caret line is white space then
   '^' and, for a column inside the shown line, exactly col characters long *)
Theorem C06_diag_shape : forall name line col msg srcline, 0 <= line -> 0 <= col ->
  exists dl dc,
    format_diag name line col msg srcline =
      name ++ 58 :: dl ++ 58 :: dc ++ SEP_ERROR ++ msg ++ 10 :: srcline ++ 10 :: caret_line srcline col ++ [10] /\
    dl <> [] /\ all_digits dl /\ dec_val dl = line /\ dc <> [] /\ all_digits dc /\ dec_val dc = col /\
    (exists ws, caret_line srcline col = ws ++ [94] /\ (forall c, In c ws -> c = 9 \/ c = 32)) /\
    (1 <= col <= len srcline + 1 -> len (caret_line srcline col) = col).
Proof. exact diag_shape. Qed.
Print Assumptions C06_diag_shape.
