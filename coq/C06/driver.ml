(* C06 model driver.  One case per line:
     calcline <hex text> <pos decimal, may be negative>  ->  "L C linestart lineend <hex line>" | "error"
     esc <hex bytes after the backslash>                 ->  "lit c n" | "char v n" | "utf8 vhex n" | "skip n" | "reject"
                                                             (n = number of bytes left unconsumed), then " defined" / " undefined"
     depth <parens|calls|index> <ctx> <n>                ->  "<depth> <0|1 too deep>"
     threshold <parens|calls|index> <ctx>                ->  "<least n that is too deep>"
     ctx local <ndo> | ctx return                        ->  "<ctx depth>"   *)
open Model
open Zutil

let zdec s = if String.length s > 0 && s.[0] = '-' then z_of_int (int_of_string s) else z_of_int (int_of_string s)
let fam = function "parens" -> FParens | "calls" -> FCalls | "index" -> FIndex | s -> failwith ("family " ^ s)
let hex s = if s = "-" then [] else zlist_of_hexbytes s
let unhex l = if l = [] then "-" else hexbytes_of_zlist l

let () =
  iter_lines (fun line ->
    let out =
      try
        match split_ws line with
        | [ "calcline"; t; p ] ->
          (match calcline (hex t) (zdec p) with
           | None -> "error"
           | Some c -> Printf.sprintf "%d %d %d %d %s" (int_of_z c.c_lineno) (int_of_z c.c_colno)
                         (int_of_z c.c_linestart) (int_of_z c.c_lineend) (unhex c.c_line))
        | [ "esc"; b ] ->
          let e = decode_escape (hex b) in
          let d = if esc_defined_b e then " defined" else " undefined" in
          (match e with
           | ELit (c, r) -> Printf.sprintf "lit %d %d" (int_of_z c) (List.length r)
           | EChar (v, r) -> Printf.sprintf "char %d %d" (int_of_z v) (List.length r)
           | EUtf8 (v, r) -> Printf.sprintf "utf8 %s %d" (hex_of_z v) (List.length r)
           | ESkip r -> Printf.sprintf "skip %d" (List.length r)
           | EReject -> "reject") ^ d
        | [ "depth"; f; c; n ] ->
          let d = depth (fam f) (zdec c) (zdec n) in
          Printf.sprintf "%d %d" (int_of_z d) (if too_deep d then 1 else 0)
        | [ "threshold"; f; c ] -> string_of_int (int_of_z (threshold (fam f) (zdec c)))
        | [ "ctx"; "local"; n ] -> string_of_int (int_of_z (ctx_local (zdec n)))
        | [ "ctx"; "return" ] -> string_of_int (int_of_z ctx_return)
        | [] -> ""
        | _ -> "?bad-line"
      with e -> "!exn " ^ Printexc.to_string e
    in
    print_string out; print_newline ())
