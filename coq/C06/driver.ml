(* C06 model driver.  One case per line:
     calcline <hex text> <pos decimal, may be negative>  ->  "L C linestart lineend <hex line>" | "error"
     esc <hex bytes after the backslash>                 ->  "lit c n" | "char v n" | "utf8 vhex n" | "skip n" | "reject"
                                                             (n = number of bytes left unconsumed), then " defined" / " undefined"
     depth <parens|calls|index> <ctx> <n>                ->  "<depth> <0|1 too deep>"
     threshold <parens|calls|index> <ctx>                ->  "<least n that is too deep>"
     family <gen.py family>   -> "<capture threshold|-> <backtrack threshold>"
     outcome <family> <n>     -> parsed | deep | backtrack
     diag <hex name> <line> <col> <hex msg> <hex source line> -> hex of the formatted diagnostic
     budget                   -> capture_stack_worst ccall_stack_worst CSTACK_BUDGET
     ctx local <ndo> | ctx return                        ->  "<ctx depth>"   *)
open Model
open Zutil

let zdec s = if String.length s > 0 && s.[0] = '-' then z_of_int (int_of_string s) else z_of_int (int_of_string s)
let nfam = function
  | "nested-parens" -> NParens | "nested-calls" -> NCalls | "nested-index" -> NIndex | "nested-tables" -> NTables
  | "nested-unary-minus" | "nested-not" -> NUnary | "nested-pow" -> NPow | "nested-concat" -> NConcat
  | "nested-do" -> NDo | "nested-if" -> NIf | "nested-while" -> NWhile | "nested-functions" -> NFunctions
  | "nested-preprocess-expr" -> NPreprocess | s -> failwith ("nfam " ^ s)
let fam = function "parens" -> FParens | "calls" -> FCalls | "index" -> FIndex | s -> failwith ("family " ^ s)
let hex s = if s = "-" then [] else zlist_of_hexbytes s
let unhex l = if l = [] then "-" else hexbytes_of_zlist l

let () =
  iter_lines (fun line ->
    let out =
      try
        match split_ws line with
        | [ "calcline"; t; p ] ->
          (match calcline (hex t) (zdec p) with
           | None -> "error"
           | Some c -> Printf.sprintf "%d %d %d %d %s" (int_of_z c.c_lineno) (int_of_z c.c_colno)
                         (int_of_z c.c_linestart) (int_of_z c.c_lineend) (unhex c.c_line))
        | [ "esc"; b ] ->
          let e = decode_escape (hex b) in
          let d = if esc_defined_b e then " defined" else " undefined" in
          (match e with
           | ELit (c, r) -> Printf.sprintf "lit %d %d" (int_of_z c) (List.length r)
           | EChar (v, r) -> Printf.sprintf "char %d %d" (int_of_z v) (List.length r)
           | EUtf8 (v, r) -> Printf.sprintf "utf8 %s %d" (hex_of_z v) (List.length r)
           | ESkip r -> Printf.sprintf "skip %d" (List.length r)
           | EReject -> "reject") ^ d
        | [ "depth"; f; c; n ] ->
          let d = depth (fam f) (zdec c) (zdec n) in
          Printf.sprintf "%d %d" (int_of_z d) (if too_deep d then 1 else 0)
        | [ "threshold"; f; c ] -> string_of_int (int_of_z (threshold (fam f) (zdec c)))
        | [ "family"; f ] ->
          (* capture threshold (or -), backtrack threshold *)
          (match cap_threshold (nfam f) with Some t -> string_of_int (int_of_z t) | None -> "-")
          ^ " " ^ string_of_int (int_of_z (bt_threshold (nfam f)))
        | [ "outcome"; f; n ] ->
          (match family_outcome (nfam f) (zdec n) with Parsed -> "parsed" | TooDeep -> "deep" | BacktrackOverflow -> "backtrack")
        | [ "diag"; name; l; c; msg; src ] -> unhex (format_diag (hex name) (zdec l) (zdec c) (hex msg) (hex src))
        | [ "budget" ] -> Printf.sprintf "%d %d %d" (int_of_z capture_stack_worst) (int_of_z ccall_stack_worst) (int_of_z cSTACK_BUDGET)
        | [ "ctx"; "local"; n ] -> string_of_int (int_of_z (ctx_local (zdec n)))
        | [ "ctx"; "return" ] -> string_of_int (int_of_z ctx_return)
        | [] -> ""
        | _ -> "?bad-line"
      with e -> "!exn " ^ Printexc.to_string e
    in
    print_string out; print_newline ())
