(* C06 - second part of the model: C-stack budget of the capture recursion, the capture-depth and
   backtrack-stack usage of all nesting families of harness/C06/gen.py, the work of parsing nested
   call statements, and the diagnostic formatter of utils/errorer.lua. *)
From C06 Require Export Model.
Local Open Scope Z_scope.

(* ------------------------------------------------------------------ *)
(* C stack.  lplcap.c pushcapture is recursive (one level per nested capture, at most
   MAXRECLEVEL + 2 frames) and its frame holds PUSHCAPTURE_BUFFERS luaL_Buffer objects of
   LUAL_BUFFERSIZE bytes each; FRAME_SLACK bounds the rest of a level (the frames of
   pushnestedvalues/tablecap/functioncap/foldcap, spills) - an assumption, as is the budget:
   the default 8 MiB main-thread stack.  Lua-to-C call nesting is limited by LUAI_MAXCCALLS, each
   level holding at most one luaL_Buffer (lstrlib/ltablib) plus slack. *)
Definition CSTACK_BUDGET : Z := 8 * 1024 * 1024.
Definition FRAME_SLACK : Z := 512.
Definition capture_level_stack : Z := PUSHCAPTURE_BUFFERS * LUAL_BUFFERSIZE + FRAME_SLACK.
Definition capture_stack_worst : Z := (MAXRECLEVEL + 2) * capture_level_stack.
Definition ccall_stack_worst : Z := LUAI_MAXCCALLS * (LUAL_BUFFERSIZE + FRAME_SLACK).

(* ------------------------------------------------------------------ *)
(* all nesting families (programs of harness/C06/gen.py FAMILIES, context "local a = ...") *)

Inductive nfam := NParens | NCalls | NIndex | NTables | NUnary | NPow | NConcat
                | NDo | NIf | NWhile | NFunctions | NPreprocess.

(* capture levels added by one more nesting *)
Definition cap_level (f : nfam) : Z :=
  match f with
  | NParens => LADDER_FOLDS + SUFFIX_FOLDS + NODE_LEVELS          (* ladder, exprsuffixed fold, Paren node *)
  | NCalls => LADDER_FOLDS + SUFFIX_FOLDS + NODE_LEVELS + 1       (* ... Call node, callargs table *)
  | NIndex => LADDER_FOLDS + SUFFIX_FOLDS + NODE_LEVELS           (* ... KeyIndex node *)
  | NTables => LADDER_FOLDS + NODE_LEVELS                         (* ladder to exprsimple, InitList node *)
  | NUnary => NODE_LEVELS                                         (* opunary node, recursion at exprunary *)
  | NPow => 1 + NODE_LEVELS                                       (* exprpow fold, oppow node *)
  | NConcat => 1 + NODE_LEVELS                                    (* exprconcat fold, opconcat node *)
  | NDo => 2 * NODE_LEVELS                                        (* Do node, Block node *)
  | NIf => 2 * NODE_LEVELS + 1                                    (* If node, ifs table, Block node *)
  | NWhile => 2 * NODE_LEVELS                                     (* While node, Block node *)
  | NFunctions => LADDER_FOLDS + 3 * NODE_LEVELS                  (* ladder, Function, Block, Return nodes *)
  | NPreprocess => 0                                              (* {@expr->0}: inner captures are discarded *)
  end.
(* levels that do not depend on n: context + innermost leaf.  For `while` the deepest capture is
   the loop condition of the innermost level (ladder, suffix fold, Id node, name) *)
Definition cap_base (f : nfam) : Z :=
  match f with
  | NWhile => LADDER_FOLDS + SUFFIX_FOLDS + NODE_LEVELS + 1
  | _ => ctx_local 0 + inner_cost
  end.
Definition cap_depth (f : nfam) (n : Z) : Z := cap_base f + n * cap_level f.

(* least n >= 0 with c + n*k >= m (k > 0) *)
Definition lin_threshold (k c m : Z) : Z := Z.max 0 (cdiv (m - c) k).
Definition cap_threshold (f : nfam) : option Z :=
  if 0 <? cap_level f then Some (lin_threshold (cap_level f) (cap_base f) (MAXRECLEVEL + 2)) else None.

(* LPeg backtrack stack (lplvm.c: calls and pending choices), limit lpeg.setmaxstack = LPEG_MAXSTACK:
   entries per nesting level and fixed part, CALIBRATED against lpeglabel by moving the limit
   (1024 / 2048 / 4096) - they depend on LPeg's code generation and are validated by the threshold
   correspondence of every run, not derived *)
Definition bt_level (f : nfam) : Z :=
  match f with
  | NParens | NPreprocess => 14 | NCalls | NIndex => 16 | NTables => 13 | NFunctions => 21
  | NIf => 5 | NUnary | NPow | NConcat | NDo | NWhile => 4
  end.
Definition bt_base (f : nfam) : Z := match f with NWhile => 23 | _ => 27 end.
Definition bt_usage (f : nfam) (n : Z) : Z := bt_base f + n * bt_level f.
Definition bt_threshold (f : nfam) : Z := lin_threshold (bt_level f) (bt_base f) (LPEG_MAXSTACK + 1).

(* what the matcher does on the family's program with n levels: the backtrack stack overflows during
   the match; otherwise the capture nesting is checked when the captures are evaluated *)
Inductive outcome := Parsed | TooDeep | BacktrackOverflow.
Definition family_outcome (f : nfam) (n : Z) : outcome :=
  if LPEG_MAXSTACK <? bt_usage f n then BacktrackOverflow
  else if (0 <? cap_level f) && (MAXRECLEVEL + 2 <=? cap_depth f n) then TooDeep else Parsed.

(* ------------------------------------------------------------------ *)
(* work of parsing n nested levels of a construct when k alternatives / lookaheads parse the complete
   nested part at every level:  work(n) = 1 + k * work(n-1).  Three places of the grammar:
   - a call statement  f(function() f(function() ... end) end): CALL_PREFIX_PARSES
     (2 with `Assign / call`: var = exprprim (callsuffix+ indexsuffix)+ consumes the call, fails for want of
     an index, then call parses it again; 1 with the repaired `call !(`.` / `[`) / Assign / call`);
   - an assignment to a field of a call result  f(function() ... end).x = 1: ASSIGN_CALLIDX_PARSES
     (1 with `Assign / call`, 2 with the repaired order: the call alternative parses everything, its
     lookahead fails, Assign parses again);
   - a macro call  m!(m!(...)): MACRO_PREFIX_PARSES (2 with ppcallprim's `&callsuffix` lookahead, which parses
     the arguments before exprsuffixed parses them again; 1 with the repaired token lookahead). *)
Fixpoint work (k : Z) (n : nat) : Z :=
  match n with O => 1 | S n' => 1 + k * work k n' end.
Definition parse_work_call := work CALL_PREFIX_PARSES.
Definition parse_work_assign_callidx := work ASSIGN_CALLIDX_PARSES.
Definition parse_work_macro := work MACRO_PREFIX_PARSES.
(* the property "the compiler terminates" read as: parse work linear in the nesting depth *)
Definition work_linear (w : nat -> Z) : Prop := forall n, w n <= 2 * Z.of_nat n + 1.

(* ------------------------------------------------------------------ *)
(* errorer.get_pretty_source_pos_errmsg without colours (stderr is not a terminal) *)

Fixpoint digits_fuel (fuel : nat) (n : Z) (acc : list Z) : list Z :=
  match fuel with
  | O => acc
  | S f => let acc' := (48 + n mod 10) :: acc in
           if n / 10 =? 0 then acc' else digits_fuel f (n / 10) acc'
  end.
(* Lua's integer to string conversion, for n >= 0 *)
Definition dec (n : Z) : list Z := digits_fuel (S (Z.to_nat (Z.log2 n))) n [].
Definition dec_val (l : list Z) : Z := fold_left (fun a d => a * 10 + (d - 48)) l 0.

Definition count_tabs (l : list Z) : Z := len (filter (fun c => c =? 9) l).
(* string.rep('\t', ntabs)..string.rep(' ', nspaces)..'^' *)
Definition caret_line (srcline : list Z) (col : Z) : list Z :=
  let ntabs := count_tabs (firstn (Z.to_nat (col - 1)) srcline) in
  let nspaces := col - 1 - ntabs in
  repeat 9 (Z.to_nat ntabs) ++ repeat 32 (Z.to_nat nspaces) ++ [94].

Definition SEP_ERROR : list Z := [58; 32; 115; 121; 110; 116; 97; 120; 32; 101; 114; 114; 111; 114; 58; 32].  (* ": syntax error: " *)
Definition format_diag (name : list Z) (line col : Z) (msg srcline : list Z) : list Z :=
  name ++ 58 :: dec line ++ 58 :: dec col ++ SEP_ERROR ++ msg ++ 10 :: srcline ++ 10 :: caret_line srcline col ++ [10].
