(* C06 proofs, second part: C-stack budget, all nesting families, parse work, diagnostic shape. *)
From C06 Require Import Model2 Proofs.
Local Open Scope Z_scope.
Ltac Zify.zify_post_hook ::= Z.div_mod_to_equations.

(* ------------------------------------------------------------------ *)
(* C stack budget: a fact about the regenerated constants *)
Lemma cstack_budget : capture_stack_worst + ccall_stack_worst < CSTACK_BUDGET /\
  1 <= PUSHCAPTURE_BUFFERS /\ 0 < LUAL_BUFFERSIZE /\ 0 < LUAI_MAXCCALLS.
Proof. vm_compute. intuition discriminate. Qed.

(* ------------------------------------------------------------------ *)
(* thresholds *)
Lemma lin_threshold_spec : forall k c m n, 0 < k -> 0 <= n -> (m <= c + n * k <-> lin_threshold k c m <= n).
Proof.
  intros k c m n Hk Hn. unfold lin_threshold. pose proof (cdiv_le_iff (m - c) k n Hk) as C.
  split; intros H.
  - apply Z.max_lub; [lia|]. apply C. lia.
  - assert (cdiv (m - c) k <= n) by lia. apply C in H0. lia.
Qed.

Lemma cap_level_nonneg : forall f, 0 <= cap_level f.
Proof. intros f. pose proof fact_levels as (A & B & C & D). destruct f; unfold cap_level; lia. Qed.
Lemma bt_level_pos : forall f, 0 < bt_level f.
Proof. destruct f; reflexivity. Qed.

Theorem cap_threshold_spec : forall f n, 0 <= n ->
  match cap_threshold f with
  | Some t => (MAXRECLEVEL + 2 <= cap_depth f n <-> t <= n)
  | None => cap_depth f n = cap_base f
  end.
Proof.
  intros f n Hn. unfold cap_threshold, cap_depth. destruct (0 <? cap_level f) eqn:E.
  - apply Z.ltb_lt in E. apply lin_threshold_spec; assumption.
  - apply Z.ltb_ge in E. pose proof (cap_level_nonneg f). assert (cap_level f = 0) by lia. rewrite H0. lia.
Qed.

Theorem bt_threshold_spec : forall f n, 0 <= n -> (LPEG_MAXSTACK < bt_usage f n <-> bt_threshold f <= n).
Proof.
  intros f n Hn. unfold bt_usage, bt_threshold.
  pose proof (lin_threshold_spec (bt_level f) (bt_base f) (LPEG_MAXSTACK + 1) n (bt_level_pos f) Hn). lia.
Qed.

Theorem family_outcome_spec : forall f n, 0 <= n ->
  family_outcome f n =
    if bt_threshold f <=? n then BacktrackOverflow
    else match cap_threshold f with
         | Some t => if t <=? n then TooDeep else Parsed
         | None => Parsed
         end.
Proof.
  intros f n Hn. unfold family_outcome. pose proof (bt_threshold_spec f n Hn) as B.
  pose proof (cap_threshold_spec f n Hn) as C.
  destruct (LPEG_MAXSTACK <? bt_usage f n) eqn:E1; destruct (bt_threshold f <=? n) eqn:E2;
    rewrite ?Z.ltb_lt, ?Z.ltb_ge, ?Z.leb_le, ?Z.leb_gt in *; try reflexivity; try lia.
  unfold cap_threshold in *. destruct (0 <? cap_level f) eqn:E3; cbn [andb]; [|reflexivity].
  destruct (MAXRECLEVEL + 2 <=? cap_depth f n) eqn:E4;
    destruct (lin_threshold (cap_level f) (cap_base f) (MAXRECLEVEL + 2) <=? n) eqn:E5;
    rewrite ?Z.leb_le, ?Z.leb_gt in *; try reflexivity; lia.
Qed.

(* ------------------------------------------------------------------ *)
(* parse work *)
Lemma work_k1 : forall n, work 1 n = Z.of_nat n + 1.
Proof. induction n; [reflexivity|]. cbn [work]. rewrite IHn. lia. Qed.
Lemma work_ge_pow : forall k n, 1 <= k -> k ^ Z.of_nat n <= work k n /\ 1 <= work k n.
Proof.
  intros k n P. induction n.
  - simpl. lia.
  - destruct IHn as [A B]. rewrite Nat2Z.inj_succ, Z.pow_succ_r by lia. cbn [work]. nia.
Qed.
(* call statements: linear since /repo 0a3ab95 *)
Lemma parse_work_call_linear : work_linear parse_work_call.
Proof.
  intros n. unfold parse_work_call. replace CALL_PREFIX_PARSES with 1 by reflexivity. rewrite work_k1. lia.
Qed.
(* macro calls m!(m!(...)): linear since /repo af8f8af (token lookahead in ppcallprim) *)
Lemma parse_work_macro_linear : work_linear parse_work_macro.
Proof.
  intros n. unfold parse_work_macro. replace MACRO_PREFIX_PARSES with 1 by reflexivity. rewrite work_k1. lia.
Qed.
(* the shape that still doubles *)
Lemma parse_work_assign_callidx_refuted : ~ work_linear parse_work_assign_callidx.
Proof. intro F. specialize (F 3%nat). vm_compute in F. apply F. reflexivity. Qed.
Lemma parse_work_assign_callidx_doubles : forall n, 2 ^ Z.of_nat n <= parse_work_assign_callidx n.
Proof.
  intros n. unfold parse_work_assign_callidx. replace ASSIGN_CALLIDX_PARSES with 2 by reflexivity. apply work_ge_pow. lia.
Qed.

(* ------------------------------------------------------------------ *)
(* diagnostic shape *)
Definition all_digits (l : list Z) : Prop := forall d, In d l -> 48 <= d <= 57.

Lemma dec_val_app : forall a b, dec_val (a ++ [b]) = dec_val a * 10 + (b - 48).
Proof. intros. unfold dec_val. rewrite fold_left_app. reflexivity. Qed.

Lemma digits_fuel_spec : forall fuel n acc, 0 <= n < 10 ^ Z.of_nat fuel -> (1 <= fuel)%nat ->
  exists ds, digits_fuel fuel n acc = ds ++ acc /\ ds <> [] /\ all_digits ds /\ dec_val ds = n.
Proof.
  induction fuel; intros n acc Hn Hf; [lia|].
  cbn [digits_fuel]. pose proof (Z.mod_pos_bound n 10 ltac:(lia)) as M.
  destruct (n / 10 =? 0) eqn:E.
  - apply Z.eqb_eq in E. exists [48 + n mod 10]. split; [reflexivity|]. split; [discriminate|]. split.
    + intros d [H | []]. lia.
    + unfold dec_val. cbn [fold_left]. pose proof (Z.div_mod n 10 ltac:(lia)). lia.
  - apply Z.eqb_neq in E. assert (N10 : 10 <= n).
    { destruct (Z_lt_le_dec n 10); [|assumption]. exfalso. apply E. apply Z.div_small. lia. }
    rewrite Nat2Z.inj_succ, Z.pow_succ_r in Hn by lia.
    assert (F1 : (1 <= fuel)%nat). { destruct fuel; [simpl in Hn; lia | lia]. }
    destruct (IHfuel (n / 10) ((48 + n mod 10) :: acc)) as (ds & A & B & C & D); [|assumption|].
    { split; [apply Z.div_pos; lia | apply Z.div_lt_upper_bound; lia]. }
    exists (ds ++ [48 + n mod 10]). split; [rewrite A, <- app_assoc; reflexivity|].
    split; [destruct ds; discriminate|]. split.
    + intros d H. apply in_app_or in H. destruct H as [H | [H | []]]; [auto | lia].
    + rewrite dec_val_app, D. pose proof (Z.div_mod n 10 ltac:(lia)). lia.
Qed.

Lemma dec_spec : forall n, 0 <= n -> dec n <> [] /\ all_digits (dec n) /\ dec_val (dec n) = n.
Proof.
  intros n Hn. unfold dec.
  destruct (digits_fuel_spec (S (Z.to_nat (Z.log2 n))) n []) as (ds & A & B & C & D); [|lia|].
  - split; [lia|]. destruct (Z.eq_dec n 0) as [Z0|Z0]; [subst; reflexivity|].
    pose proof (Z.log2_spec n ltac:(lia)) as [_ L]. pose proof (Z.log2_nonneg n).
    rewrite Nat2Z.inj_succ, Z2Nat.id by lia.
    apply Z.lt_le_trans with (2 ^ Z.succ (Z.log2 n)); [assumption|].
    apply Z.pow_le_mono_l. lia.
  - rewrite A, app_nil_r. auto.
Qed.

Lemma repeat_len : forall (x : Z) n, len (repeat x n) = Z.of_nat n.
Proof. intros. unfold len. rewrite repeat_length. reflexivity. Qed.
Lemma filter_len_le : forall (f : Z -> bool) l, (length (filter f l) <= length l)%nat.
Proof. induction l; simpl; [lia|]. destruct (f a); simpl; lia. Qed.
Lemma count_tabs_range : forall l, 0 <= count_tabs l <= len l.
Proof.
  intros l. unfold count_tabs, len. split; [lia|]. apply inj_le. apply filter_len_le.
Qed.

Theorem diag_shape : forall name line col msg srcline, 0 <= line -> 0 <= col ->
  exists dl dc,
    format_diag name line col msg srcline =
      name ++ 58 :: dl ++ 58 :: dc ++ SEP_ERROR ++ msg ++ 10 :: srcline ++ 10 :: caret_line srcline col ++ [10] /\
    dl <> [] /\ all_digits dl /\ dec_val dl = line /\ dc <> [] /\ all_digits dc /\ dec_val dc = col /\
    (* the caret line: only tabs and blanks before the caret, and for a column inside the shown line
       (C06_calcline_col) the caret stands at that column, not beyond the line's end + 1 *)
    (exists ws, caret_line srcline col = ws ++ [94] /\ (forall c, In c ws -> c = 9 \/ c = 32)) /\
    (1 <= col <= len srcline + 1 -> len (caret_line srcline col) = col).
Proof.
  intros name line col msg srcline Hl Hc.
  destruct (dec_spec line Hl) as (L1 & L2 & L3). destruct (dec_spec col Hc) as (C1 & C2 & C3).
  exists (dec line), (dec col). split; [reflexivity|]. repeat (split; [assumption|]).
  split.
  - unfold caret_line. eexists. split; [rewrite app_assoc; reflexivity|].
    intros c H. apply in_app_or in H. destruct H as [H | H]; apply repeat_spec in H; auto.
  - intros R. unfold caret_line. rewrite !len_app, !repeat_len.
    pose proof (count_tabs_range (firstn (Z.to_nat (col - 1)) srcline)) as T.
    assert (len (firstn (Z.to_nat (col - 1)) srcline) = col - 1) by (apply firstn_len; lia).
    assert (L1c : len [94] = 1) by reflexivity. lia.
Qed.

(* non-vacuity *)
Example ex_dec : dec 1203 = [49; 50; 48; 51] /\ dec 0 = [48] /\ caret_line [9; 97; 9; 98] 4 = [9; 9; 32; 94].
Proof. vm_compute. auto. Qed.
Example ex_outcomes : family_outcome NParens 27 = Parsed /\ family_outcome NParens 28 = TooDeep /\
  family_outcome NParens 72 = BacktrackOverflow /\ family_outcome NPreprocess 71 = Parsed.
Proof. vm_compute. auto. Qed.
