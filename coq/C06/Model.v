(* C06 - executable models of the pure cores of the front end's error path:
   - lpegrex.calcline (thirdparty/lpegrex.lua): line / column / line text of a position;
   - the ESCAPE sub-grammar of syntaxdefs.lua with the callbacks tochar / toutf8char
     (string.char, utf8.char) and their domains;
   - the capture nesting depth that the expression ladder produces for nested bracketings, against
     LPegLabel's MAXRECLEVEL (lplcap.c pushcapture).
   The LPeg and Lua virtual machines themselves are outside this model (DESIGN.md C06). *)
From Coq Require Export ZArith List Lia Bool.
Export ListNotations.
From C06 Require Export Gen.
Local Open Scope Z_scope.

Definition len {A} (l : list A) : Z := Z.of_nat (length l).

(* ------------------------------------------------------------------ *)
(* calcline *)

Definition is_nl (c : Z) : bool := c =? NL.

Fixpoint count_nl (l : list Z) : Z :=
  match l with [] => 0 | c :: r => (if is_nl c then 1 else 0) + count_nl r end.

(* 1-based position of the last newline of l, 0 when there is none
   (caps[#caps] of calclinepatt: the position capture sits right before each newline) *)
Fixpoint last_nl (l : list Z) : Z :=
  match l with
  | [] => 0
  | c :: r => let k := last_nl r in if 0 <? k then k + 1 else if is_nl c then 1 else 0
  end.

Fixpoint take_line (l : list Z) : list Z :=
  match l with [] => [] | c :: r => if is_nl c then [] else c :: take_line r end.

Record calc := mk_calc { c_lineno : Z; c_colno : Z; c_line : list Z; c_linestart : Z; c_lineend : Z }.

(* function lpegrex.calcline(subject, position).
   CALCLINE_EXCLUSIVE (repaired code): only the newlines strictly before the position count
   (subject:sub(1, position-1)) and the end of the line is searched from the position itself;
   otherwise (old code) the prefix includes the position and the search starts after it. *)
Definition calc_split (p : Z) : Z :=
  if CALCLINE_EXCLUSIVE then (if 0 <? p then p - 1 else 0) else p.

Definition calcline (text : list Z) (pos : Z) : option calc :=
  if pos <? 0 then None            (* error 'invalid position' *)
  else
    let p := Z.min pos (len text) in
    let q := calc_split p in
    let prefix := firstn (Z.to_nat q) text in
    let rest := skipn (Z.to_nat q) text in
    let lastpos := last_nl prefix in
    let tail := take_line rest in
    Some (mk_calc (count_nl prefix + 1) (p - lastpos)
                  (skipn (Z.to_nat lastpos) prefix ++ tail) (lastpos + 1) (q + len tail)).

(* number of lines of a text: a trailing newline starts a last, empty line *)
Definition lines (text : list Z) : Z := count_nl text + 1.

(* ------------------------------------------------------------------ *)
(* ESCAPE (the bytes after the backslash) *)

Inductive esc :=
| ELit (c : Z) (rest : list Z)        (* backslash, quote, double quote: the character itself *)
| EChar (v : Z) (rest : list Z)       (* ->tochar : string.char(v) *)
| EUtf8 (v : Z) (rest : list Z)       (* ->toutf8char : utf8.char(v) *)
| ESkip (rest : list Z)               (* \z *)
| EReject.                            (* label Expected_ESCAPE *)

Definition is_dec (c : Z) : bool := (48 <=? c) && (c <=? 57).
Definition is_hex (c : Z) : bool := is_dec c || ((97 <=? c) && (c <=? 102)) || ((65 <=? c) && (c <=? 70)).
Definition hexv (c : Z) : Z := if is_dec c then c - 48 else if (97 <=? c) then c - 87 else c - 55.
(* isspace in the C locale *)
Definition is_space (c : Z) : bool := ((9 <=? c) && (c <=? 13)) || (c =? 32).

Fixpoint span_hex (l : list Z) : list Z * list Z :=
  match l with
  | c :: r => if is_hex c then let (a, b) := span_hex r in (c :: a, b) else ([], l)
  | [] => ([], [])
  end.
Fixpoint drop_space (l : list Z) : list Z :=
  match l with c :: r => if is_space c then drop_space r else l | [] => [] end.
(* tonumber(s, 16): lua_Unsigned accumulation, wraps modulo 2^64 *)
Definition hexval (l : list Z) : Z := fold_left (fun n c => (n * 16 + hexv c) mod 2 ^ 64) l 0.

Fixpoint span_zero (l : list Z) : list Z * list Z :=
  match l with
  | c :: r => if c =? 48 then let (a, b) := span_zero r in (c :: a, b) else ([], l)
  | [] => ([], [])
  end.
(* exactly k hex digits / at most k hex digits (greedy, no backtracking: PEG) *)
Fixpoint take_hex_exact (k : nat) (l : list Z) : option (list Z * list Z) :=
  match k with
  | O => Some ([], l)
  | S k' => match l with
            | c :: r => if is_hex c then
                          match take_hex_exact k' r with Some (a, b) => Some (c :: a, b) | None => None end
                        else None
            | [] => None
            end
  end.
Fixpoint take_hex_upto (k : nat) (l : list Z) : list Z * list Z :=
  match k with
  | O => ([], l)
  | S k' => match l with
            | c :: r => if is_hex c then let (a, b) := take_hex_upto k' r in (c :: a, b) else ([], l)
            | [] => ([], [])
            end
  end.

Definition in_rng (d : Z) (r : Z * Z) : bool := (fst r <=? d - 48) && (d - 48 <=? snd r).
Fixpoint dec3_match (alts : list ((Z * Z) * (Z * Z) * (Z * Z))) (d1 d2 d3 : Z) : bool :=
  match alts with
  | [] => false
  | (r1, r2, r3) :: rest => (in_rng d1 r1 && in_rng d2 r2 && in_rng d3 r3) || dec3_match rest d1 d2 d3
  end.

(* '{' &HEX {'0'* ([0-L] HEX^T / HEX^-T)} '}' : the digits captured, and what follows them *)
Definition u_bounded_digits (r1 : list Z) : option (list Z * list Z) :=
  match r1 with
  | h :: _ =>
    if is_hex h then
      let (zs, r2) := span_zero r1 in
      let alt1 := match r2 with
                  | d :: t => if (48 <=? d) && (d <=? 48 + U_LEAD_MAX) then
                                match take_hex_exact (Z.to_nat U_TAIL_DIGITS) t with
                                | Some (ds, r3) => Some (zs ++ d :: ds, r3)
                                | None => None
                                end
                              else None
                  | [] => None
                  end in
      match alt1 with
      | Some x => Some x
      | None => let (ds, r3) := take_hex_upto (Z.to_nat U_TAIL_DIGITS) r2 in Some (zs ++ ds, r3)
      end
    else None
  | [] => None
  end.

Fixpoint assoc (c : Z) (l : list (Z * Z)) : option Z :=
  match l with [] => None | (k, v) :: r => if k =? c then Some v else assoc c r end.

Definition decode_escape (l : list Z) : esc :=
  match l with
  | [] => EReject
  | c :: r =>
    if (c =? 92) || (c =? 39) || (c =? 34) then ELit c r
    else match assoc c SIMPLE_ESCAPES with
    | Some v => EChar v r
    | None =>
      if c =? 120 then                                  (* 'x' {HEX_DIGIT^2} *)
        match r with
        | h1 :: h2 :: r' => if is_hex h1 && is_hex h2 then EChar (16 * hexv h1 + hexv h2) r' else EReject
        | _ => EReject
        end
      else if c =? 117 then                             (* 'u' '{' {HEX_DIGIT^+1} '}' *)
        match r with
        | 123 :: r1 =>
          if U_BOUNDED then
            match u_bounded_digits r1 with
            | Some (digs, 125 :: r3) => EUtf8 (hexval digs) r3
            | _ => EReject
            end
          else
            match span_hex r1 with
            | ((_ :: _) as digs, 125 :: r3) => EUtf8 (hexval digs) r3
            | _ => EReject
            end
        | _ => EReject
        end
      else if c =? 122 then ESkip (drop_space r)        (* 'z' SPACE* *)
      else if is_dec c then                             (* DEC DEC^-1 !DEC / the 3-digit alternatives DEC3_ALTS *)
        match r with
        | d2 :: r2 =>
          if is_dec d2 then
            match r2 with
            | d3 :: r3 =>
              if is_dec d3 then
                (if dec3_match DEC3_ALTS c d2 d3 then EChar (100 * (c - 48) + 10 * (d2 - 48) + (d3 - 48)) r3 else EReject)
              else EChar (10 * (c - 48) + (d2 - 48)) r2
            | [] => EChar (10 * (c - 48) + (d2 - 48)) r2
            end
          else EChar (c - 48) r
        | [] => EChar (c - 48) r
        end
      else if c =? 10 then                              (* LINEBREAK: \n\r / \r\n / \n / \r *)
        match r with 13 :: r' => EChar 10 r' | _ => EChar 10 r end
      else if c =? 13 then
        match r with 10 :: r' => EChar 10 r' | _ => EChar 10 r end
      else EReject
    end
  end.

(* domains of the callbacks: string.char accepts 0..UCHAR_MAX, utf8.char accepts 0..MAXUTF *)
Definition esc_defined (e : esc) : Prop :=
  match e with
  | EChar v _ => 0 <= v <= UCHAR_MAX
  | EUtf8 v _ => 0 <= v <= MAXUTF
  | _ => True
  end.
Definition esc_defined_b (e : esc) : bool :=
  match e with
  | EChar v _ => (0 <=? v) && (v <=? UCHAR_MAX)
  | EUtf8 v _ => (0 <=? v) && (v <=? MAXUTF)
  | _ => true
  end.

(* ------------------------------------------------------------------ *)
(* capture nesting depth (lplcap.c: pushcapture increments reclevel once per nested capture
   level; `if (cs->reclevel++ > MAXRECLEVEL) error`): an AST node of the grammar costs
   NODE_LEVELS (table capture + tag function), each `~>fold` rule one level *)

Inductive family := FParens | FCalls | FIndex.

(* levels added by one more nesting of the family:
   parens:  expr ladder down to exprsimple, exprsuffixed's fold, the Paren node
   calls:   the same plus the Call node's callargs table
   index:   ladder, exprsuffixed's fold, the KeyIndex node *)
Definition level_cost (f : family) : Z :=
  match f with
  | FParens => LADDER_FOLDS + SUFFIX_FOLDS + NODE_LEVELS
  | FCalls => LADDER_FOLDS + SUFFIX_FOLDS + NODE_LEVELS + 1
  | FIndex => LADDER_FOLDS + SUFFIX_FOLDS + NODE_LEVELS
  end.
(* the innermost literal: ladder down to exprsimple, the Number node, its text capture *)
Definition inner_cost : Z := LADDER_FOLDS + NODE_LEVELS + 1.
(* context "local a = <expr>" : Block node, VarDecl node, the exprs table; each enclosing
   "do ... end" adds a Do node and a Block node; "return <expr>": Block and Return nodes *)
Definition ctx_local (ndo : Z) : Z := 2 * NODE_LEVELS + 1 + ndo * (2 * NODE_LEVELS).
Definition ctx_return : Z := 2 * NODE_LEVELS.

Definition depth (f : family) (ctx n : Z) : Z := ctx + n * level_cost f + inner_cost.
(* pushcapture raises "subcapture nesting too deep" when entered with reclevel > MAXRECLEVEL,
   i.e. when the nesting reaches MAXRECLEVEL + 2 frames *)
Definition too_deep (d : Z) : bool := MAXRECLEVEL + 2 <=? d.
Definition cdiv (a b : Z) : Z := (a + b - 1) / b.
Definition threshold (f : family) (ctx : Z) : Z :=
  Z.max 0 (cdiv (MAXRECLEVEL + 2 - ctx - inner_cost) (level_cost f)).
