From C06 Require Import Model Model2.
Require Extraction.
Require Import ExtrOcamlBasic.
Extraction "model.ml" calcline lines decode_escape esc_defined_b depth too_deep threshold
  ctx_local ctx_return level_cost inner_cost MAXRECLEVEL LPEG_MAXSTACK Z.to_N
  cap_threshold bt_threshold family_outcome format_diag parse_work_call parse_work_macro parse_work_assign_callidx capture_stack_worst ccall_stack_worst CSTACK_BUDGET.
