(* C06 proofs: calcline, escape domains, capture nesting threshold. *)
From C06 Require Import Model.
Local Open Scope Z_scope.
Ltac Zify.zify_post_hook ::= Z.div_mod_to_equations.

(* ------------------------------------------------------------------ *)
(* facts about the regenerated constants *)
Lemma fact_levels : 1 <= NODE_LEVELS /\ 0 <= LADDER_FOLDS /\ 0 <= SUFFIX_FOLDS /\ 0 <= MAXRECLEVEL.
Proof. vm_compute. intuition discriminate. Qed.
Lemma fact_simple_escapes : forallb (fun kv => (0 <=? snd kv) && (snd kv <=? UCHAR_MAX)) SIMPLE_ESCAPES = true.
Proof. vm_compute. reflexivity. Qed.
Lemma fact_domains : 0 <= DEC3_LEAD_MAX <= 9 /\ 99 <= UCHAR_MAX /\ 16 * 15 + 15 <= UCHAR_MAX /\ 10 <= UCHAR_MAX /\
  0 <= MAXUTF < 2 ^ 64.
Proof. vm_compute. intuition discriminate. Qed.

(* ------------------------------------------------------------------ *)
(* calcline *)

Lemma len_nonneg : forall A (l : list A), 0 <= len l.
Proof. intros. unfold len. lia. Qed.
Lemma len_cons : forall A (a : A) l, len (a :: l) = len l + 1.
Proof. intros. unfold len. simpl length. lia. Qed.
Lemma len_app : forall A (a b : list A), len (a ++ b) = len a + len b.
Proof. intros. unfold len. rewrite app_length. lia. Qed.

Lemma count_nl_nonneg : forall l, 0 <= count_nl l.
Proof. induction l; simpl; [lia|]. destruct (is_nl a); lia. Qed.
Lemma count_nl_app : forall a b, count_nl (a ++ b) = count_nl a + count_nl b.
Proof. induction a; simpl; intros; [lia|]. rewrite IHa. lia. Qed.

Lemma last_nl_range : forall l, 0 <= last_nl l <= len l.
Proof.
  induction l as [|c r IH]; simpl last_nl.
  - unfold len; simpl; lia.
  - rewrite len_cons. destruct (0 <? last_nl r) eqn:E; [apply Z.ltb_lt in E; lia|].
    destruct (is_nl c); pose proof (len_nonneg _ r); lia.
Qed.

(* position last_nl l is the last newline: nothing after it is a newline *)
Lemma after_last_nl : forall l x, In x (skipn (Z.to_nat (last_nl l)) l) -> is_nl x = false.
Proof.
  induction l as [|c r IH]; simpl last_nl; intros x H.
  - destruct (Z.to_nat 0); simpl in H; contradiction.
  - pose proof (last_nl_range r) as R. destruct (0 <? last_nl r) eqn:E.
    + apply Z.ltb_lt in E. replace (Z.to_nat (last_nl r + 1)) with (S (Z.to_nat (last_nl r))) in H by lia.
      simpl in H. auto.
    + apply Z.ltb_ge in E. assert (Z0 : last_nl r = 0) by lia. rewrite Z0 in IH. simpl in IH.
      destruct (is_nl c) eqn:N.
      * replace (Z.to_nat 1) with 1%nat in H by lia. simpl in H. auto.
      * simpl in H. destruct H as [H | H]; [subst; assumption | auto].
Qed.

(* ... and the character at that position is a newline *)
Lemma at_last_nl : forall l, 0 < last_nl l -> nth (Z.to_nat (last_nl l - 1)) l 0 = NL.
Proof.
  induction l as [|c r IH]; simpl last_nl; intros H; [lia|].
  pose proof (last_nl_range r) as R. destruct (0 <? last_nl r) eqn:E.
  - apply Z.ltb_lt in E. replace (Z.to_nat (last_nl r + 1 - 1)) with (S (Z.to_nat (last_nl r - 1))) by lia.
    simpl. auto.
  - destruct (is_nl c) eqn:N; [|lia]. simpl. unfold is_nl in N. apply Z.eqb_eq in N. assumption.
Qed.

(* the last newline is the last character exactly when the list ends with a newline *)
Lemma last_nl_full_iff : forall l, last_nl l = len l <-> (l = [] \/ last l 0 = NL).
Proof.
  induction l as [|c r IH]; simpl last_nl.
  - unfold len; simpl. intuition.
  - rewrite len_cons. pose proof (last_nl_range r) as R.
    destruct (0 <? last_nl r) eqn:E.
    + apply Z.ltb_lt in E. assert (Rn : r <> []) by (intro; subst; simpl in E; lia).
      split.
      * intros H. right. assert (H' : last_nl r = len r) by lia. apply IH in H'.
        destruct H' as [H' | H']; [contradiction|]. destruct r; [contradiction | exact H'].
      * intros [H | H]; [discriminate|]. assert (last r 0 = NL) by (destruct r; [contradiction | exact H]).
        assert (last_nl r = len r) by (apply IH; right; assumption). lia.
    + apply Z.ltb_ge in E. assert (Z0 : last_nl r = 0) by lia.
      assert (Rnot : r <> [] -> last r 0 <> NL).
      { intros Rn F. assert (last_nl r = len r) by (apply IH; right; assumption).
        destruct r; [contradiction|]. rewrite len_cons in H. pose proof (len_nonneg _ r). lia. }
      destruct (is_nl c) eqn:N.
      * unfold is_nl in N. apply Z.eqb_eq in N. split.
        -- intros H. right. assert (len r = 0) by lia. destruct r; [simpl; assumption|].
           rewrite len_cons in H0. pose proof (len_nonneg _ r). lia.
        -- intros [H | H]; [discriminate|]. destruct r as [|d r']; [unfold len; simpl; lia|].
           exfalso. apply Rnot; [discriminate | exact H].
      * split.
        -- intros H. pose proof (len_nonneg _ r). lia.
        -- intros [H | H]; [discriminate|]. exfalso. destruct r as [|d r'].
           ++ simpl in H. unfold is_nl in N. apply Z.eqb_neq in N. contradiction.
           ++ apply Rnot; [discriminate | exact H].
Qed.

Lemma take_line_no_nl : forall l x, In x (take_line l) -> is_nl x = false.
Proof.
  induction l as [|c r IH]; simpl; intros x H; [contradiction|].
  destruct (is_nl c) eqn:N; [contradiction|]. destruct H as [H | H]; [subst; assumption | auto].
Qed.
Lemma take_line_split : forall l, l = take_line l ++ skipn (length (take_line l)) l /\
  (skipn (length (take_line l)) l = [] \/ exists r, skipn (length (take_line l)) l = NL :: r).
Proof.
  induction l as [|c r IH]; simpl.
  - split; [reflexivity | left; reflexivity].
  - destruct (is_nl c) eqn:N; simpl.
    + split; [reflexivity|]. right. unfold is_nl in N. apply Z.eqb_eq in N. subst c. eauto.
    + destruct IH as [A B]. split; [f_equal; exact A | exact B].
Qed.

Lemma skipn_skipn' : forall A (l : list A) a b, skipn a (skipn b l) = skipn (b + a) l.
Proof.
  induction l; intros; [destruct a; destruct b; reflexivity|].
  destruct b; simpl; [reflexivity|]. apply IHl.
Qed.
Lemma firstn_firstn_le : forall A (l : list A) a b, (a <= b)%nat -> firstn a (firstn b l) = firstn a l.
Proof. intros. rewrite firstn_firstn. f_equal. lia. Qed.
Lemma count_nl_firstn_le : forall k l, count_nl (firstn k l) <= count_nl l.
Proof.
  intros. rewrite <- (firstn_skipn k l) at 2. rewrite count_nl_app. pose proof (count_nl_nonneg (skipn k l)). lia.
Qed.
Lemma firstn_len : forall A (l : list A) p, 0 <= p <= len l -> len (firstn (Z.to_nat p) l) = p.
Proof. intros. unfold len in *. rewrite firstn_length. lia. Qed.

Lemma nth_firstn_lt : forall A (l : list A) i k d, (i < k)%nat -> nth i (firstn k l) d = nth i l d.
Proof.
  induction l; intros i k d H; [destruct k; destruct i; reflexivity|].
  destruct k; [lia|]. destruct i; simpl; [reflexivity|]. apply IHl. lia.
Qed.

Definition no_nl (l : list Z) : Prop := forall x, In x l -> x <> NL.
Lemma is_nl_false : forall x, is_nl x = false -> x <> NL.
Proof. intros x H. unfold is_nl in H. apply Z.eqb_neq in H. assumption. Qed.

Theorem calcline_spec : forall text pos c, calcline text pos = Some c ->
  let p := Z.min pos (len text) in
  0 <= pos /\
  1 <= c_lineno c <= lines text /\
  c_lineno c = count_nl (firstn (Z.to_nat p) text) + 1 /\
  0 <= c_colno c <= len (c_line c) /\
  c_linestart c - 1 + c_colno c = p /\
  c_lineend c = c_linestart c - 1 + len (c_line c) /\
  no_nl (c_line c) /\
  text = firstn (Z.to_nat (c_linestart c - 1)) text ++ c_line c ++ skipn (Z.to_nat (c_lineend c)) text /\
  (c_linestart c = 1 \/ nth (Z.to_nat (c_linestart c - 2)) text 0 = NL) /\
  (skipn (Z.to_nat (c_lineend c)) text = [] \/ exists r, skipn (Z.to_nat (c_lineend c)) text = NL :: r).
Proof.
  intros text pos c H p. unfold calcline in H.
  destruct (pos <? 0) eqn:E; [discriminate|]. apply Z.ltb_ge in E.
  fold p in H. inversion H; subst c; clear H. simpl.
  pose proof (len_nonneg _ text) as Ln.
  assert (Pr : 0 <= p <= len text) by (unfold p; lia).
  set (prefix := firstn (Z.to_nat p) text) in *.
  set (rest := skipn (Z.to_nat p) text) in *.
  assert (Lp : len prefix = p) by (apply firstn_len; assumption).
  pose proof (last_nl_range prefix) as LR. rewrite Lp in LR.
  destruct (take_line_split rest) as [TS TE].
  set (tail := take_line rest) in *.
  assert (Lsk : len (skipn (Z.to_nat (last_nl prefix)) prefix) = p - last_nl prefix).
  { unfold len. rewrite skipn_length. unfold len in Lp. lia. }
  split; [assumption|]. split.
  { unfold lines. pose proof (count_nl_nonneg prefix). pose proof (count_nl_firstn_le (Z.to_nat p) text). fold prefix in H0. lia. }
  split; [reflexivity|]. split.
  { rewrite len_app, Lsk. pose proof (len_nonneg _ tail). lia. }
  split; [lia|]. split.
  { rewrite len_app, Lsk. lia. }
  split.
  { intros x Hx. apply in_app_or in Hx. apply is_nl_false. destruct Hx as [Hx | Hx].
    - eapply after_last_nl; eassumption.
    - eapply take_line_no_nl; eassumption. }
  split.
  { replace (last_nl prefix + 1 - 1) with (last_nl prefix) by lia.
    rewrite <- (firstn_skipn (Z.to_nat p) text) at 1. fold prefix rest.
    rewrite <- (firstn_skipn (Z.to_nat (last_nl prefix)) prefix) at 1.
    assert (FF : firstn (Z.to_nat (last_nl prefix)) prefix = firstn (Z.to_nat (last_nl prefix)) text).
    { subst prefix. apply firstn_firstn_le. lia. }
    rewrite FF. rewrite <- !app_assoc. f_equal. f_equal.
    rewrite TS at 1. f_equal. unfold rest. rewrite skipn_skipn'. f_equal.
    unfold len. lia. }
  split.
  { destruct (Z.eq_dec (last_nl prefix) 0) as [Z0 | Z0]; [left; lia | right].
    replace (last_nl prefix + 1 - 2) with (last_nl prefix - 1) by lia.
    pose proof (at_last_nl prefix ltac:(lia)) as A.
    rewrite <- A. symmetry. subst prefix. apply nth_firstn_lt. lia. }
  { replace (Z.to_nat (p + len tail)) with (Z.to_nat p + length tail)%nat by (unfold len; lia).
    rewrite <- skipn_skipn'. fold rest. exact TE. }
Qed.

(* column >= 1 exactly when the (clamped) position is not on a newline *)
Theorem calcline_col0_iff : forall text pos c, calcline text pos = Some c ->
  let p := Z.min pos (len text) in
  (c_colno c = 0 <-> (p = 0 \/ last (firstn (Z.to_nat p) text) 0 = NL)).
Proof.
  intros text pos c H p. unfold calcline in H.
  destruct (pos <? 0) eqn:E; [discriminate|]. apply Z.ltb_ge in E.
  fold p in H. inversion H; subst c; clear H. simpl.
  pose proof (len_nonneg _ text) as Ln.
  assert (Pr : 0 <= p <= len text) by (unfold p; lia).
  set (prefix := firstn (Z.to_nat p) text) in *.
  assert (Lp : len prefix = p) by (apply firstn_len; assumption).
  pose proof (last_nl_full_iff prefix) as F. rewrite Lp in F.
  split.
  - intros H. assert (H' : last_nl prefix = p) by lia. apply F in H'. destruct H' as [H' | H']; [|right; assumption].
    left. rewrite H' in Lp. unfold len in Lp. simpl in Lp. lia.
  - intros [H | H].
    + assert (prefix = []) by (unfold prefix; rewrite H; reflexivity).
      assert (last_nl prefix = p) by (apply F; left; assumption). lia.
    + assert (last_nl prefix = p) by (apply F; right; assumption). lia.
Qed.

(* full-strength column statement and its refutation on the code as it is *)
Definition calcline_col_full : Prop := forall text pos c, 1 <= pos <= len text + 1 ->
  calcline text pos = Some c -> 1 <= c_colno c <= len (c_line c) + 1.
Lemma calcline_col_refuted : ~ calcline_col_full.
Proof.
  intro F. specialize (F [97; 10; 98] 2 (mk_calc 2 0 [98] 3 3)).
  assert (1 <= 0 <= len [98] + 1); [|lia]. apply F; [vm_compute; split; discriminate | vm_compute; reflexivity].
Qed.
Lemma calcline_col_partial : forall text pos c, calcline text pos = Some c ->
  let p := Z.min pos (len text) in
  1 <= p -> last (firstn (Z.to_nat p) text) 0 <> NL -> 1 <= c_colno c <= len (c_line c).
Proof.
  intros text pos c H p P1 Hl. pose proof (calcline_spec text pos c H) as S.
  pose proof (calcline_col0_iff text pos c H) as Z0. fold p in S, Z0.
  destruct S as (_ & _ & _ & C & _). assert (c_colno c <> 0); [|lia].
  intro F. apply Z0 in F. destruct F; [lia | contradiction].
Qed.

(* ------------------------------------------------------------------ *)
(* escapes *)

Lemma is_dec_range : forall c, is_dec c = true -> 48 <= c <= 57.
Proof. intros c H. unfold is_dec in H. apply andb_prop in H. destruct H as [A B]. apply Z.leb_le in A, B. lia. Qed.
Lemma hexv_range : forall c, is_hex c = true -> 0 <= hexv c <= 15.
Proof.
  intros c H. unfold is_hex, hexv in *. destruct (is_dec c) eqn:D.
  - apply is_dec_range in D. lia.
  - simpl in H. apply orb_prop in H. destruct H as [H | H]; apply andb_prop in H; destruct H as [A B];
      apply Z.leb_le in A, B.
    + destruct (97 <=? c) eqn:Q; [lia | apply Z.leb_gt in Q; lia].
    + destruct (97 <=? c) eqn:Q; [apply Z.leb_le in Q; lia | lia].
Qed.

Lemma hexval_range_aux : forall l n, 0 <= n < 2 ^ 64 -> 0 <= fold_left (fun n c => (n * 16 + hexv c) mod 2 ^ 64) l n < 2 ^ 64.
Proof.
  induction l; simpl; intros; [assumption|]. apply IHl. apply Z.mod_pos_bound. reflexivity.
Qed.
Lemma hexval_range : forall l, 0 <= hexval l < 2 ^ 64.
Proof. intros. unfold hexval. apply hexval_range_aux. split; [lia | reflexivity]. Qed.

Lemma assoc_simple_range : forall c v, assoc c SIMPLE_ESCAPES = Some v -> 0 <= v <= UCHAR_MAX.
Proof.
  intros c v H. pose proof fact_simple_escapes as F. rewrite forallb_forall in F.
  assert (G : forall l, assoc c l = Some v -> exists k, In (k, v) l).
  { induction l as [|[k w] r IH]; simpl; intros A; [discriminate|].
    destruct (k =? c); [inversion A; subst; eauto | destruct (IH A) as [k' I]; eauto]. }
  destruct (G _ H) as [k I]. specialize (F _ I). simpl in F. apply andb_prop in F. destruct F as [A B].
  apply Z.leb_le in A, B. lia.
Qed.

Definition escape_total : Prop := forall l, esc_defined (decode_escape l).
Lemma escape_total_refuted_dec : ~ escape_total.
Proof. intro F. specialize (F [50; 53; 54; 34]). vm_compute in F. destruct F as [_ F]. apply F. reflexivity. Qed.
Lemma escape_total_refuted_u : ~ escape_total.
Proof.
  intro F. specialize (F [117; 123; 56; 48; 48; 48; 48; 48; 48; 48; 125; 34]). vm_compute in F.
  destruct F as [_ F]. apply F. reflexivity.
Qed.

(* a 3-digit decimal escape: the only way tochar can be called outside its domain *)
Definition dec3 (l : list Z) (v : Z) (r : list Z) : Prop :=
  exists d1 d2 d3, l = d1 :: d2 :: d3 :: r /\ is_dec d1 = true /\ is_dec d2 = true /\ is_dec d3 = true /\
    d1 - 48 <= DEC3_LEAD_MAX /\ v = 100 * (d1 - 48) + 10 * (d2 - 48) + (d3 - 48).

Local Opaque Z.mul Z.add Z.sub.
Theorem escape_char_domain : forall l v r, decode_escape l = EChar v r ->
  0 <= v <= Z.max UCHAR_MAX (100 * DEC3_LEAD_MAX + 99) /\ (UCHAR_MAX < v -> dec3 l v r).
Proof.
  intros l v r H. pose proof fact_domains as (D1 & D2 & D3 & D4 & D5).
  unfold decode_escape in H. destruct l as [|c t]; [discriminate|].
  destruct ((c =? 92) || (c =? 39) || (c =? 34)); [discriminate|].
  destruct (assoc c SIMPLE_ESCAPES) as [w|] eqn:A.
  { inversion H; subst. apply assoc_simple_range in A. split; [lia | intros; lia]. }
  destruct (c =? 120).
  { destruct t as [|h1 [|h2 t']]; try discriminate.
    destruct (is_hex h1) eqn:X1; [|discriminate]. destruct (is_hex h2) eqn:X2; [|discriminate].
    cbn [andb] in H. inversion H; subst. apply hexv_range in X1. apply hexv_range in X2. split; [lia | intros; lia]. }
  destruct (c =? 117).
  { destruct t as [|b t']; [discriminate|]. destruct (b =? 123) eqn:B; [|destruct b; try discriminate; destruct p; try discriminate; repeat (destruct p; try discriminate)].
    apply Z.eqb_eq in B. subst b. destruct (span_hex t') as [[|d ds] [|q qs]]; try discriminate.
    destruct q; try discriminate. repeat (destruct p; try discriminate). }
  destruct (c =? 122); [discriminate|].
  destruct (is_dec c) eqn:Dc.
  { apply is_dec_range in Dc.
    destruct t as [|d2 t2].
    { inversion H; subst. split; [lia | intros; lia]. }
    destruct (is_dec d2) eqn:D2c.
    2: { inversion H; subst. split; [lia | intros; lia]. }
    pose proof (is_dec_range _ D2c) as R2.
    destruct t2 as [|d3 t3].
    { inversion H; subst. split; [lia | intros; lia]. }
    destruct (is_dec d3) eqn:D3c.
    2: { inversion H; subst. split; [lia | intros; lia]. }
    pose proof (is_dec_range _ D3c) as R3.
    destruct (c - 48 <=? DEC3_LEAD_MAX) eqn:Q; [|discriminate]. apply Z.leb_le in Q.
    inversion H; subst. split; [lia|]. intros _. exists c, d2, d3. repeat split; try assumption.
    unfold is_dec. apply andb_true_intro. split; apply Z.leb_le; lia. }
  destruct (c =? 10).
  { destruct t as [|b t']; [inversion H; subst; split; [lia | intros; lia]|].
    destruct (b =? 13) eqn:B.
    - apply Z.eqb_eq in B. subst b. inversion H; subst. split; [lia | intros; lia].
    - assert (E : match b with 13 => EChar 10 t' | _ => EChar 10 (b :: t') end = EChar 10 (b :: t')).
      { apply Z.eqb_neq in B. destruct b; try reflexivity. repeat (destruct p; try reflexivity). contradiction. }
      rewrite E in H. inversion H; subst. split; [lia | intros; lia]. }
  destruct (c =? 13); [|discriminate].
  destruct t as [|b t']; [inversion H; subst; split; [lia | intros; lia]|].
  destruct (b =? 10) eqn:B.
  - apply Z.eqb_eq in B. subst b. inversion H; subst. split; [lia | intros; lia].
  - assert (E : match b with 10 => EChar 10 t' | _ => EChar 10 (b :: t') end = EChar 10 (b :: t')).
    { apply Z.eqb_neq in B. destruct b; try reflexivity. repeat (destruct p; try reflexivity). contradiction. }
    rewrite E in H. inversion H; subst. split; [lia | intros; lia].
Qed.

Local Transparent Z.mul Z.add Z.sub.
(* utf8.char is called with tonumber's wrapped value: defined exactly when that is <= MAXUTF *)
Lemma span_hex_app : forall l a b, span_hex l = (a, b) -> l = a ++ b /\ forallb is_hex a = true.
Proof.
  induction l as [|c r IH]; simpl; intros a b H.
  - inversion H; subst. split; reflexivity.
  - destruct (is_hex c) eqn:X.
    + destruct (span_hex r) as [a' b'] eqn:S. inversion H; subst. destruct (IH a' b eq_refl) as [E F].
      split; [simpl; f_equal; exact E | simpl; rewrite X; exact F].
    + inversion H; subst. split; reflexivity.
Qed.

Theorem escape_utf8_domain : forall l v r, decode_escape l = EUtf8 v r ->
  0 <= v < 2 ^ 64 /\
  exists digs, digs <> [] /\ forallb is_hex digs = true /\ v = hexval digs /\ l = 117 :: 123 :: digs ++ 125 :: r.
Proof.
  intros l v r H. unfold decode_escape in H. destruct l as [|c t]; [discriminate|].
  destruct ((c =? 92) || (c =? 39) || (c =? 34)); [discriminate|].
  destruct (assoc c SIMPLE_ESCAPES); [discriminate|].
  destruct (c =? 120).
  { destruct t as [|h1 [|h2 t']]; try discriminate. destruct (is_hex h1 && is_hex h2); discriminate. }
  destruct (c =? 117) eqn:C.
  { apply Z.eqb_eq in C. subst c. destruct t as [|b t']; [discriminate|].
    destruct (b =? 123) eqn:B.
    2: { exfalso. apply Z.eqb_neq in B. destruct b; try discriminate. repeat (destruct p; try discriminate). contradiction. }
    apply Z.eqb_eq in B. subst b. destruct (span_hex t') as [digs rest] eqn:S.
    destruct (span_hex_app _ _ _ S) as [E F].
    destruct digs as [|d ds]; [discriminate|]. destruct rest as [|q qs]; [discriminate|].
    destruct (q =? 125) eqn:Q.
    2: { exfalso. apply Z.eqb_neq in Q. destruct q; try discriminate. repeat (destruct p; try discriminate). contradiction. }
    apply Z.eqb_eq in Q. subst q. inversion H; subst. split; [apply hexval_range|].
    exists (d :: ds). split; [discriminate|]. split; [exact F|]. split; [reflexivity|]. reflexivity. }
  destruct (c =? 122); [discriminate|].
  destruct (is_dec c).
  { destruct t as [|d2 t2]; [discriminate|]. destruct (is_dec d2); [|discriminate].
    destruct t2 as [|d3 t3]; [discriminate|]. destruct (is_dec d3); [|discriminate].
    destruct (c - 48 <=? DEC3_LEAD_MAX); discriminate. }
  destruct (c =? 10).
  { destruct t as [|b t']; [discriminate|]. destruct b; try discriminate. repeat (destruct p; try discriminate). }
  destruct (c =? 13); [|discriminate].
  destruct t as [|b t']; [discriminate|]. destruct b; try discriminate. repeat (destruct p; try discriminate).
Qed.

(* the callback domains hold exactly outside the two characterised families *)
Corollary escape_undefined_iff : forall l, ~ esc_defined (decode_escape l) <->
  (exists v r, decode_escape l = EChar v r /\ UCHAR_MAX < v /\ dec3 l v r) \/
  (exists v r, decode_escape l = EUtf8 v r /\ MAXUTF < v).
Proof.
  intros l. split.
  - intros N. destruct (decode_escape l) as [c r | v r | v r | r |] eqn:D; simpl in N; try (exfalso; apply N; exact I).
    + left. destruct (escape_char_domain l v r D) as [R U]. exists v, r. split; [reflexivity|].
      assert (UCHAR_MAX < v) by lia. auto.
    + right. destruct (escape_utf8_domain l v r D) as [R _]. exists v, r. split; [reflexivity | lia].
  - intros [(v & r & D & U & _) | (v & r & D & U)]; rewrite D; simpl; lia.
Qed.


(* ------------------------------------------------------------------ *)
(* capture nesting *)

Lemma level_cost_pos : forall f, 0 < level_cost f.
Proof. intros f. pose proof fact_levels as (A & B & C & D). destruct f; unfold level_cost; lia. Qed.

Lemma cdiv_le_iff : forall a k n, 0 < k -> (cdiv a k <= n <-> a <= n * k).
Proof.
  intros a k n Hk. unfold cdiv.
  pose proof (Z.div_mod (a + k - 1) k ltac:(lia)) as D. pose proof (Z.mod_pos_bound (a + k - 1) k Hk) as B.
  set (q := (a + k - 1) / k) in *. set (r := (a + k - 1) mod k) in *. clearbody q r.
  split; intros H; nia.
Qed.

Theorem nesting_threshold : forall f ctx n, 0 <= n ->
  (too_deep (depth f ctx n) = true <-> threshold f ctx <= n).
Proof.
  intros f ctx n Hn. unfold too_deep, depth, threshold. pose proof (level_cost_pos f) as K.
  rewrite Z.leb_le. set (a := MAXRECLEVEL + 2 - ctx - inner_cost).
  pose proof (cdiv_le_iff a (level_cost f) n K) as C.
  split; intros H.
  - apply Z.max_lub; [lia|]. apply C. unfold a. lia.
  - assert (cdiv a (level_cost f) <= n) by lia. apply C in H0. unfold a in H0. lia.
Qed.

(* non-vacuity *)
Example ex_calcline : calcline [108; 111; 10; 97; 32; 61; 10] 6 = Some (mk_calc 2 3 [97; 32; 61] 4 6).
Proof. vm_compute. reflexivity. Qed.
Example ex_escape : decode_escape [120; 52; 49; 34] = EChar 65 [34] /\ decode_escape [50; 53; 53; 34] = EChar 255 [34].
Proof. vm_compute. auto. Qed.
Example ex_threshold : too_deep (depth FParens (ctx_local 0) (threshold FParens (ctx_local 0))) = true /\
  too_deep (depth FParens (ctx_local 0) (threshold FParens (ctx_local 0) - 1)) = false /\ 1 <= threshold FParens (ctx_local 0).
Proof. vm_compute. intuition discriminate. Qed.
