(* C06 proofs: calcline, escape domains, capture nesting threshold. *)
From C06 Require Import Model.
Local Open Scope Z_scope.
Ltac Zify.zify_post_hook ::= Z.div_mod_to_equations.

(* ------------------------------------------------------------------ *)
(* facts about the regenerated constants *)
Lemma fact_levels : 1 <= NODE_LEVELS /\ 0 <= LADDER_FOLDS /\ 0 <= SUFFIX_FOLDS /\ 0 <= MAXRECLEVEL.
Proof. vm_compute. intuition discriminate. Qed.
Lemma fact_simple_escapes : forallb (fun kv => (0 <=? snd kv) && (snd kv <=? UCHAR_MAX)) SIMPLE_ESCAPES = true.
Proof. vm_compute. reflexivity. Qed.
Lemma fact_domains : 99 <= UCHAR_MAX /\ 16 * 15 + 15 <= UCHAR_MAX /\ 10 <= UCHAR_MAX /\ 0 <= MAXUTF < 2 ^ 64.
Proof. vm_compute. intuition discriminate. Qed.
(* the repaired shapes of calcline and of the \u rule are in the source *)
Lemma fact_shapes : CALCLINE_EXCLUSIVE = true /\ U_BOUNDED = true.
Proof. split; reflexivity. Qed.
Lemma fact_u : 0 <= U_LEAD_MAX <= 9 /\ 0 <= U_TAIL_DIGITS /\ (U_LEAD_MAX + 1) * 16 ^ U_TAIL_DIGITS - 1 <= MAXUTF.
Proof. vm_compute. intuition discriminate. Qed.
Definition dec3_alt_ok (a : (Z * Z) * (Z * Z) * (Z * Z)) : bool :=
  let '(r1, r2, r3) := a in
  (0 <=? fst r1) && (0 <=? fst r2) && (0 <=? fst r3) && (100 * snd r1 + 10 * snd r2 + snd r3 <=? UCHAR_MAX).
Lemma fact_dec3 : forallb dec3_alt_ok DEC3_ALTS = true.
Proof. vm_compute. reflexivity. Qed.

(* ------------------------------------------------------------------ *)
(* calcline *)

Lemma len_nonneg : forall A (l : list A), 0 <= len l.
Proof. intros. unfold len. lia. Qed.
Lemma len_cons : forall A (a : A) l, len (a :: l) = len l + 1.
Proof. intros. unfold len. simpl length. lia. Qed.
Lemma len_app : forall A (a b : list A), len (a ++ b) = len a + len b.
Proof. intros. unfold len. rewrite app_length. lia. Qed.

Lemma count_nl_nonneg : forall l, 0 <= count_nl l.
Proof. induction l; simpl; [lia|]. destruct (is_nl a); lia. Qed.
Lemma count_nl_app : forall a b, count_nl (a ++ b) = count_nl a + count_nl b.
Proof. induction a; simpl; intros; [lia|]. rewrite IHa. lia. Qed.

Lemma last_nl_range : forall l, 0 <= last_nl l <= len l.
Proof.
  induction l as [|c r IH]; simpl last_nl.
  - unfold len; simpl; lia.
  - rewrite len_cons. destruct (0 <? last_nl r) eqn:E; [apply Z.ltb_lt in E; lia|].
    destruct (is_nl c); pose proof (len_nonneg _ r); lia.
Qed.

(* position last_nl l is the last newline: nothing after it is a newline *)
Lemma after_last_nl : forall l x, In x (skipn (Z.to_nat (last_nl l)) l) -> is_nl x = false.
Proof.
  induction l as [|c r IH]; simpl last_nl; intros x H.
  - destruct (Z.to_nat 0); simpl in H; contradiction.
  - pose proof (last_nl_range r) as R. destruct (0 <? last_nl r) eqn:E.
    + apply Z.ltb_lt in E. replace (Z.to_nat (last_nl r + 1)) with (S (Z.to_nat (last_nl r))) in H by lia.
      simpl in H. auto.
    + apply Z.ltb_ge in E. assert (Z0 : last_nl r = 0) by lia. rewrite Z0 in IH. simpl in IH.
      destruct (is_nl c) eqn:N.
      * replace (Z.to_nat 1) with 1%nat in H by lia. simpl in H. auto.
      * simpl in H. destruct H as [H | H]; [subst; assumption | auto].
Qed.

(* ... and the character at that position is a newline *)
Lemma at_last_nl : forall l, 0 < last_nl l -> nth (Z.to_nat (last_nl l - 1)) l 0 = NL.
Proof.
  induction l as [|c r IH]; simpl last_nl; intros H; [lia|].
  pose proof (last_nl_range r) as R. destruct (0 <? last_nl r) eqn:E.
  - apply Z.ltb_lt in E. replace (Z.to_nat (last_nl r + 1 - 1)) with (S (Z.to_nat (last_nl r - 1))) by lia.
    simpl. auto.
  - destruct (is_nl c) eqn:N; [|lia]. simpl. unfold is_nl in N. apply Z.eqb_eq in N. assumption.
Qed.

(* the last newline is the last character exactly when the list ends with a newline *)
Lemma last_nl_full_iff : forall l, last_nl l = len l <-> (l = [] \/ last l 0 = NL).
Proof.
  induction l as [|c r IH]; simpl last_nl.
  - unfold len; simpl. intuition.
  - rewrite len_cons. pose proof (last_nl_range r) as R.
    destruct (0 <? last_nl r) eqn:E.
    + apply Z.ltb_lt in E. assert (Rn : r <> []) by (intro; subst; simpl in E; lia).
      split.
      * intros H. right. assert (H' : last_nl r = len r) by lia. apply IH in H'.
        destruct H' as [H' | H']; [contradiction|]. destruct r; [contradiction | exact H'].
      * intros [H | H]; [discriminate|]. assert (last r 0 = NL) by (destruct r; [contradiction | exact H]).
        assert (last_nl r = len r) by (apply IH; right; assumption). lia.
    + apply Z.ltb_ge in E. assert (Z0 : last_nl r = 0) by lia.
      assert (Rnot : r <> [] -> last r 0 <> NL).
      { intros Rn F. assert (last_nl r = len r) by (apply IH; right; assumption).
        destruct r; [contradiction|]. rewrite len_cons in H. pose proof (len_nonneg _ r). lia. }
      destruct (is_nl c) eqn:N.
      * unfold is_nl in N. apply Z.eqb_eq in N. split.
        -- intros H. right. assert (len r = 0) by lia. destruct r; [simpl; assumption|].
           rewrite len_cons in H0. pose proof (len_nonneg _ r). lia.
        -- intros [H | H]; [discriminate|]. destruct r as [|d r']; [unfold len; simpl; lia|].
           exfalso. apply Rnot; [discriminate | exact H].
      * split.
        -- intros H. pose proof (len_nonneg _ r). lia.
        -- intros [H | H]; [discriminate|]. exfalso. destruct r as [|d r'].
           ++ simpl in H. unfold is_nl in N. apply Z.eqb_neq in N. contradiction.
           ++ apply Rnot; [discriminate | exact H].
Qed.

Lemma take_line_no_nl : forall l x, In x (take_line l) -> is_nl x = false.
Proof.
  induction l as [|c r IH]; simpl; intros x H; [contradiction|].
  destruct (is_nl c) eqn:N; [contradiction|]. destruct H as [H | H]; [subst; assumption | auto].
Qed.
Lemma take_line_split : forall l, l = take_line l ++ skipn (length (take_line l)) l /\
  (skipn (length (take_line l)) l = [] \/ exists r, skipn (length (take_line l)) l = NL :: r).
Proof.
  induction l as [|c r IH]; simpl.
  - split; [reflexivity | left; reflexivity].
  - destruct (is_nl c) eqn:N; simpl.
    + split; [reflexivity|]. right. unfold is_nl in N. apply Z.eqb_eq in N. subst c. eauto.
    + destruct IH as [A B]. split; [f_equal; exact A | exact B].
Qed.

Lemma skipn_skipn' : forall A (l : list A) a b, skipn a (skipn b l) = skipn (b + a) l.
Proof.
  induction l; intros; [destruct a; destruct b; reflexivity|].
  destruct b; simpl; [reflexivity|]. apply IHl.
Qed.
Lemma firstn_firstn_le : forall A (l : list A) a b, (a <= b)%nat -> firstn a (firstn b l) = firstn a l.
Proof. intros. rewrite firstn_firstn. f_equal. lia. Qed.
Lemma count_nl_firstn_le : forall k l, count_nl (firstn k l) <= count_nl l.
Proof.
  intros. rewrite <- (firstn_skipn k l) at 2. rewrite count_nl_app. pose proof (count_nl_nonneg (skipn k l)). lia.
Qed.
Lemma firstn_len : forall A (l : list A) p, 0 <= p <= len l -> len (firstn (Z.to_nat p) l) = p.
Proof. intros. unfold len in *. rewrite firstn_length. lia. Qed.

Lemma nth_firstn_lt : forall A (l : list A) i k d, (i < k)%nat -> nth i (firstn k l) d = nth i l d.
Proof.
  induction l; intros i k d H; [destruct k; destruct i; reflexivity|].
  destruct k; [lia|]. destruct i; simpl; [reflexivity|]. apply IHl. lia.
Qed.

Definition no_nl (l : list Z) : Prop := forall x, In x l -> x <> NL.
Lemma is_nl_false : forall x, is_nl x = false -> x <> NL.
Proof. intros x H. unfold is_nl in H. apply Z.eqb_neq in H. assumption. Qed.

Lemma calc_split_range : forall p, 0 <= p -> 0 <= calc_split p <= p.
Proof. intros p H. unfold calc_split. destruct CALCLINE_EXCLUSIVE; [|lia]. destruct (0 <? p) eqn:E; [apply Z.ltb_lt in E|]; lia. Qed.
Lemma calc_split_exclusive : forall p, 1 <= p -> calc_split p = p - 1.
Proof.
  intros p H. unfold calc_split. destruct fact_shapes as [F _]. rewrite F.
  destruct (0 <? p) eqn:E; [reflexivity | apply Z.ltb_ge in E; lia].
Qed.

Theorem calcline_spec : forall text pos c, calcline text pos = Some c ->
  let p := Z.min pos (len text) in let q := calc_split p in
  0 <= pos /\ 0 <= q <= p /\
  1 <= c_lineno c <= lines text /\
  c_lineno c = count_nl (firstn (Z.to_nat q) text) + 1 /\
  0 <= c_colno c <= len (c_line c) + (p - q) /\
  c_linestart c - 1 + c_colno c = p /\
  c_lineend c = c_linestart c - 1 + len (c_line c) /\
  no_nl (c_line c) /\
  text = firstn (Z.to_nat (c_linestart c - 1)) text ++ c_line c ++ skipn (Z.to_nat (c_lineend c)) text /\
  (c_linestart c = 1 \/ nth (Z.to_nat (c_linestart c - 2)) text 0 = NL) /\
  (skipn (Z.to_nat (c_lineend c)) text = [] \/ exists r, skipn (Z.to_nat (c_lineend c)) text = NL :: r).
Proof.
  intros text pos c H p q. unfold calcline in H.
  destruct (pos <? 0) eqn:E; [discriminate|]. apply Z.ltb_ge in E.
  fold p in H. fold q in H. inversion H; subst c; clear H. simpl.
  pose proof (len_nonneg _ text) as Ln.
  assert (Pr : 0 <= p <= len text) by (unfold p; lia).
  pose proof (calc_split_range p ltac:(lia)) as Qr. fold q in Qr.
  set (prefix := firstn (Z.to_nat q) text) in *.
  set (rest := skipn (Z.to_nat q) text) in *.
  assert (Lp : len prefix = q) by (apply firstn_len; lia).
  pose proof (last_nl_range prefix) as LR. rewrite Lp in LR.
  destruct (take_line_split rest) as [TS TE].
  set (tail := take_line rest) in *.
  assert (Lsk : len (skipn (Z.to_nat (last_nl prefix)) prefix) = q - last_nl prefix).
  { unfold len. rewrite skipn_length. unfold len in Lp. lia. }
  split; [assumption|]. split; [assumption|]. split.
  { unfold lines. pose proof (count_nl_nonneg prefix). pose proof (count_nl_firstn_le (Z.to_nat q) text). fold prefix in H0. lia. }
  split; [reflexivity|]. split.
  { rewrite len_app, Lsk. pose proof (len_nonneg _ tail). lia. }
  split; [lia|]. split.
  { rewrite len_app, Lsk. lia. }
  split.
  { intros x Hx. apply in_app_or in Hx. apply is_nl_false. destruct Hx as [Hx | Hx].
    - eapply after_last_nl; eassumption.
    - eapply take_line_no_nl; eassumption. }
  split.
  { replace (last_nl prefix + 1 - 1) with (last_nl prefix) by lia.
    rewrite <- (firstn_skipn (Z.to_nat q) text) at 1. fold prefix rest.
    rewrite <- (firstn_skipn (Z.to_nat (last_nl prefix)) prefix) at 1.
    assert (FF : firstn (Z.to_nat (last_nl prefix)) prefix = firstn (Z.to_nat (last_nl prefix)) text).
    { subst prefix. apply firstn_firstn_le. lia. }
    rewrite FF. rewrite <- !app_assoc. f_equal. f_equal.
    rewrite TS at 1. f_equal. unfold rest. rewrite skipn_skipn'. f_equal.
    unfold len. lia. }
  split.
  { destruct (Z.eq_dec (last_nl prefix) 0) as [Z0 | Z0]; [left; lia | right].
    replace (last_nl prefix + 1 - 2) with (last_nl prefix - 1) by lia.
    pose proof (at_last_nl prefix ltac:(lia)) as A.
    rewrite <- A. symmetry. subst prefix. apply nth_firstn_lt. lia. }
  { replace (Z.to_nat (q + len tail)) with (Z.to_nat q + length tail)%nat by (unfold len; lia).
    rewrite <- skipn_skipn'. fold rest. exact TE. }
Qed.

(* full strength: for every non-empty text and every position 1..|text|+1 the column lies in
   1..|line|+1 (a position on a newline is the column just past the end of its line) *)
Definition calcline_col_full : Prop := forall text pos c, 1 <= pos <= len text + 1 -> 1 <= len text ->
  calcline text pos = Some c -> 1 <= c_colno c <= len (c_line c) + 1.
Theorem calcline_col : calcline_col_full.
Proof.
  intros text pos c Hp Hl H. pose proof (calcline_spec text pos c H) as S. cbv zeta in S.
  assert (P1 : 1 <= Z.min pos (len text)) by lia.
  rewrite (calc_split_exclusive _ P1) in S.
  destruct S as (_ & _ & _ & _ & C & LS & _).
  unfold calcline in H. destruct (pos <? 0); [discriminate|]. inversion H; subst c; clear H. simpl in *.
  rewrite (calc_split_exclusive _ P1) in *.
  pose proof (last_nl_range (firstn (Z.to_nat (Z.min pos (len text) - 1)) text)) as LR.
  rewrite firstn_len in LR by (pose proof (len_nonneg _ text); lia). lia.
Qed.

(* column 0 is reported only for position 0 / the empty text *)
Theorem calcline_col0_iff : forall text pos c, calcline text pos = Some c ->
  (c_colno c = 0 <-> Z.min pos (len text) = 0).
Proof.
  intros text pos c H. pose proof (calcline_spec text pos c H) as S. cbv zeta in S.
  destruct S as (P0 & Q & _ & _ & C & LS & _).
  unfold calcline in H. destruct (pos <? 0); [discriminate|]. inversion H; subst c; clear H. simpl in *.
  set (p := Z.min pos (len text)) in *.
  split; intros E.
  - destruct (Z.eq_dec p 0) as [Z0|Z0]; [assumption|]. exfalso.
    assert (P1 : 1 <= p) by (pose proof (len_nonneg _ text); unfold p in *; lia).
    rewrite (calc_split_exclusive _ P1) in *.
    pose proof (last_nl_range (firstn (Z.to_nat (p - 1)) text)) as LR.
    rewrite firstn_len in LR by (pose proof (len_nonneg _ text); unfold p in *; lia). lia.
  - rewrite E in *. assert (calc_split 0 = 0) by (unfold calc_split; destruct CALCLINE_EXCLUSIVE; reflexivity).
    rewrite H in *. simpl. reflexivity.
Qed.

(* ------------------------------------------------------------------ *)
(* escapes *)

Lemma is_dec_range : forall c, is_dec c = true -> 48 <= c <= 57.
Proof. intros c H. unfold is_dec in H. apply andb_prop in H. destruct H as [A B]. apply Z.leb_le in A, B. lia. Qed.
Lemma hexv_range : forall c, is_hex c = true -> 0 <= hexv c <= 15.
Proof.
  intros c H. unfold is_hex, hexv in *. destruct (is_dec c) eqn:D.
  - apply is_dec_range in D. lia.
  - simpl in H. apply orb_prop in H. destruct H as [H | H]; apply andb_prop in H; destruct H as [A B];
      apply Z.leb_le in A, B.
    + destruct (97 <=? c) eqn:Q; [lia | apply Z.leb_gt in Q; lia].
    + destruct (97 <=? c) eqn:Q; [apply Z.leb_le in Q; lia | lia].
Qed.

Lemma hexval_range_aux : forall l n, 0 <= n < 2 ^ 64 -> 0 <= fold_left (fun n c => (n * 16 + hexv c) mod 2 ^ 64) l n < 2 ^ 64.
Proof.
  induction l; simpl; intros; [assumption|]. apply IHl. apply Z.mod_pos_bound. reflexivity.
Qed.
Lemma hexval_range : forall l, 0 <= hexval l < 2 ^ 64.
Proof. intros. unfold hexval. apply hexval_range_aux. split; [lia | reflexivity]. Qed.

Lemma assoc_simple_range : forall c v, assoc c SIMPLE_ESCAPES = Some v -> 0 <= v <= UCHAR_MAX.
Proof.
  intros c v H. pose proof fact_simple_escapes as F. rewrite forallb_forall in F.
  assert (G : forall l, assoc c l = Some v -> exists k, In (k, v) l).
  { induction l as [|[k w] r IH]; simpl; intros A; [discriminate|].
    destruct (k =? c); [inversion A; subst; eauto | destruct (IH A) as [k' I]; eauto]. }
  destruct (G _ H) as [k I]. specialize (F _ I). simpl in F. apply andb_prop in F. destruct F as [A B].
  apply Z.leb_le in A, B. lia.
Qed.

Definition escape_total : Prop := forall l, esc_defined (decode_escape l).

Local Opaque Z.mul Z.add Z.sub Z.pow.
Lemma dec3_match_range : forall alts d1 d2 d3, forallb dec3_alt_ok alts = true ->
  is_dec d1 = true -> is_dec d2 = true -> is_dec d3 = true ->
  dec3_match alts d1 d2 d3 = true -> 0 <= 100 * (d1 - 48) + 10 * (d2 - 48) + (d3 - 48) <= UCHAR_MAX.
Proof.
  induction alts as [|[[r1 r2] r3] rest IH]; simpl; intros d1 d2 d3 F D1 D2 D3 M; [discriminate|].
  apply andb_prop in F. destruct F as [F1 F2].
  apply is_dec_range in D1. apply is_dec_range in D2. apply is_dec_range in D3.
  apply orb_prop in M. destruct M as [M | M].
  - unfold dec3_alt_ok in F1. unfold in_rng in M.
    apply andb_prop in M. destruct M as [M M3]. apply andb_prop in M. destruct M as [M1 M2].
    apply andb_prop in M1. destruct M1 as [A1 B1]. apply andb_prop in M2. destruct M2 as [A2 B2].
    apply andb_prop in M3. destruct M3 as [A3 B3].
    apply andb_prop in F1. destruct F1 as [F1 G4]. apply andb_prop in F1. destruct F1 as [F1 G3].
    apply andb_prop in F1. destruct F1 as [G1 G2].
    apply Z.leb_le in A1, B1, A2, B2, A3, B3, G1, G2, G3, G4. lia.
  - apply IH; try assumption; unfold is_dec; apply andb_true_intro; split; apply Z.leb_le; lia.
Qed.

(* bound on tonumber(s,16) for hex digit strings: the wrap-around can only make it smaller *)
Lemma fold_hex_le : forall l n, 0 <= n -> forallb is_hex l = true ->
  0 <= fold_left (fun n c => (n * 16 + hexv c) mod 2 ^ 64) l n <= n * 16 ^ len l + 16 ^ len l - 1.
Proof.
  induction l as [|c r IH]; intros n Hn F.
  - simpl. unfold len. simpl. lia.
  - simpl in F. apply andb_prop in F. destruct F as [Fc Fr]. pose proof (hexv_range c Fc) as Hc.
    simpl fold_left. rewrite len_cons.
    assert (P : 0 < 16 ^ len r) by (apply Z.pow_pos_nonneg; [lia | apply len_nonneg]).
    rewrite Z.pow_add_r by (pose proof (len_nonneg _ r); lia). rewrite Z.pow_1_r.
    set (n' := (n * 16 + hexv c) mod 2 ^ 64).
    assert (N : 0 <= n' <= n * 16 + 15).
    { unfold n'. split; [apply Z.mod_pos_bound; reflexivity|].
      assert ((n * 16 + hexv c) mod 2 ^ 64 <= n * 16 + hexv c) by (apply Z.mod_le; [lia | reflexivity]). lia. }
    specialize (IH n' ltac:(lia) Fr). nia.
Qed.

Lemma span_zero_spec : forall l zs r, span_zero l = (zs, r) -> l = zs ++ r /\ forallb (fun c => c =? 48) zs = true.
Proof.
  induction l as [|c t IH]; simpl; intros zs r H.
  - inversion H; subst. split; reflexivity.
  - destruct (c =? 48) eqn:E.
    + destruct (span_zero t) as [a b] eqn:S. inversion H; subst. destruct (IH a r eq_refl) as [A B].
      split; [simpl; f_equal; exact A | simpl; rewrite E; exact B].
    + inversion H; subst. split; reflexivity.
Qed.
Lemma fold_zeros : forall zs, forallb (fun c => c =? 48) zs = true ->
  fold_left (fun n c => (n * 16 + hexv c) mod 2 ^ 64) zs 0 = 0.
Proof.
  induction zs as [|c r IH]; simpl; intros F; [reflexivity|]. apply andb_prop in F. destruct F as [Fc Fr].
  apply Z.eqb_eq in Fc. subst c. replace ((0 * 16 + hexv 48) mod 2 ^ 64) with 0 by reflexivity. auto.
Qed.
Lemma take_hex_exact_spec : forall k l a b, take_hex_exact k l = Some (a, b) ->
  forallb is_hex a = true /\ length a = k.
Proof.
  induction k; simpl; intros l a b H.
  - inversion H; subst. split; reflexivity.
  - destruct l as [|c r]; [discriminate|]. destruct (is_hex c) eqn:X; [|discriminate].
    destruct (take_hex_exact k r) as [[a' b']|] eqn:T; [|discriminate]. inversion H; subst.
    destruct (IHk _ _ _ T) as [A B]. split; [simpl; rewrite X; exact A | simpl; f_equal; exact B].
Qed.
Lemma take_hex_upto_spec : forall k l a b, take_hex_upto k l = (a, b) ->
  forallb is_hex a = true /\ (length a <= k)%nat.
Proof.
  induction k; simpl; intros l a b H.
  - inversion H; subst. split; [reflexivity | simpl; lia].
  - destruct l as [|c r]; [inversion H; subst; split; [reflexivity | simpl; lia]|].
    destruct (is_hex c) eqn:X.
    + destruct (take_hex_upto k r) as [a' b'] eqn:T. inversion H; subst.
      destruct (IHk _ _ _ T) as [A B]. split; [simpl; rewrite X; exact A | simpl; lia].
    + inversion H; subst. split; [reflexivity | simpl; lia].
Qed.

Lemma u_bounded_value : forall r1 digs r3, u_bounded_digits r1 = Some (digs, r3) -> 0 <= hexval digs <= MAXUTF.
Proof.
  intros r1 digs r3 H. pose proof fact_u as ((L0 & L9) & T0 & B).
  unfold u_bounded_digits in H. destruct r1 as [|h t]; [discriminate|].
  destruct (is_hex h); [|discriminate].
  destruct (span_zero (h :: t)) as [zs r2] eqn:SZ. destruct (span_zero_spec _ _ _ SZ) as [_ ZS].
  assert (PT : 0 < 16 ^ U_TAIL_DIGITS) by (apply Z.pow_pos_nonneg; lia).
  assert (HV : forall ds, hexval (zs ++ ds) = fold_left (fun n c => (n * 16 + hexv c) mod 2 ^ 64) ds 0).
  { intros ds. unfold hexval. rewrite fold_left_app. rewrite fold_zeros by assumption. reflexivity. }
  assert (ALT2 : forall ds r, take_hex_upto (Z.to_nat U_TAIL_DIGITS) r2 = (ds, r) -> 0 <= hexval (zs ++ ds) <= MAXUTF).
  { intros ds r T. destruct (take_hex_upto_spec _ _ _ _ T) as [Fh Ln]. rewrite HV.
    pose proof (fold_hex_le ds 0 ltac:(lia) Fh) as Bd.
    assert (16 ^ len ds <= 16 ^ U_TAIL_DIGITS) by (apply Z.pow_le_mono_r; unfold len; lia). nia. }
  destruct r2 as [|d t2].
  { destruct (take_hex_upto (Z.to_nat U_TAIL_DIGITS) []) as [ds r] eqn:T. simpl in H. try rewrite T in H. inversion H; subst. first [eapply ALT2; eassumption | eapply ALT2; reflexivity]. }
  destruct ((48 <=? d) && (d <=? 48 + U_LEAD_MAX)) eqn:Ld.
  2: { destruct (take_hex_upto (Z.to_nat U_TAIL_DIGITS) (d :: t2)) as [ds r] eqn:T. simpl in H. try rewrite T in H. inversion H; subst. first [eapply ALT2; eassumption | eapply ALT2; reflexivity]. }
  destruct (take_hex_exact (Z.to_nat U_TAIL_DIGITS) t2) as [[ds r]|] eqn:TE.
  2: { destruct (take_hex_upto (Z.to_nat U_TAIL_DIGITS) (d :: t2)) as [ds r] eqn:T. simpl in H. try rewrite T in H. inversion H; subst. first [eapply ALT2; eassumption | eapply ALT2; reflexivity]. }
  inversion H; subst. clear H. destruct (take_hex_exact_spec _ _ _ _ TE) as [Fh Ln].
  apply andb_prop in Ld. destruct Ld as [D1 D2]. apply Z.leb_le in D1, D2.
  assert (Hd : hexv d = d - 48) by (unfold hexv, is_dec; replace ((48 <=? d) && (d <=? 57)) with true; [reflexivity | symmetry; apply andb_true_intro; split; apply Z.leb_le; lia]).
  rewrite HV. simpl fold_left. rewrite Hd. replace (0 * 16 + (d - 48)) with (d - 48) by lia.
  rewrite (Z.mod_small (d - 48)) by (split; [lia | apply Z.le_lt_trans with 9; [lia | reflexivity]]).
  pose proof (fold_hex_le ds (d - 48) ltac:(lia) Fh) as Bd.
  assert (EL : len ds = U_TAIL_DIGITS) by (unfold len; lia). rewrite EL in Bd. nia.
Qed.

(* full strength: every escape the grammar accepts is inside the domain of its callback *)
Theorem escape_total_holds : escape_total.
Proof.
  intros l. pose proof fact_domains as (D2 & D3 & D4 & D5). pose proof fact_shapes as [_ UB].
  unfold decode_escape. destruct l as [|c t]; [exact I|].
  destruct ((c =? 92) || (c =? 39) || (c =? 34)); [exact I|].
  destruct (assoc c SIMPLE_ESCAPES) as [w|] eqn:A.
  { simpl. apply assoc_simple_range in A. lia. }
  destruct (c =? 120).
  { destruct t as [|h1 [|h2 t']]; try exact I.
    destruct (is_hex h1) eqn:X1; [|exact I]. destruct (is_hex h2) eqn:X2; [|exact I].
    cbn [andb]. unfold esc_defined. apply hexv_range in X1. apply hexv_range in X2. lia. }
  destruct (c =? 117).
  { destruct t as [|b t']; [exact I|]. destruct (b =? 123) eqn:B.
    2: { apply Z.eqb_neq in B. destruct b; try exact I. repeat (destruct p; try exact I). contradiction. }
    apply Z.eqb_eq in B. subst b. rewrite UB.
    destruct (u_bounded_digits t') as [[digs r3]|] eqn:U; [|exact I].
    destruct r3 as [|q qs]; [exact I|]. destruct (q =? 125) eqn:Q.
    2: { apply Z.eqb_neq in Q. destruct q; try exact I. repeat (destruct p; try exact I). contradiction. }
    apply Z.eqb_eq in Q. subst q. unfold esc_defined. eapply u_bounded_value; eassumption. }
  destruct (c =? 122); [exact I|].
  destruct (is_dec c) eqn:Dc.
  { pose proof (is_dec_range _ Dc) as R1.
    destruct t as [|d2 t2]; [unfold esc_defined; lia|].
    destruct (is_dec d2) eqn:D2c; [|unfold esc_defined; lia].
    pose proof (is_dec_range _ D2c) as R2.
    destruct t2 as [|d3 t3]; [unfold esc_defined; lia|].
    destruct (is_dec d3) eqn:D3c; [|unfold esc_defined; lia].
    destruct (dec3_match DEC3_ALTS c d2 d3) eqn:M; [|exact I].
    unfold esc_defined. exact (dec3_match_range _ _ _ _ fact_dec3 Dc D2c D3c M). }
  destruct (c =? 10).
  { destruct t as [|b t']; [unfold esc_defined; lia|]. destruct b; try (unfold esc_defined; lia).
    repeat (destruct p; try (unfold esc_defined; lia)). }
  destruct (c =? 13); [|exact I].
  destruct t as [|b t']; [unfold esc_defined; lia|]. destruct b; try (unfold esc_defined; lia).
  repeat (destruct p; try (unfold esc_defined; lia)).
Qed.

Local Transparent Z.mul Z.add Z.sub Z.pow.
(* ------------------------------------------------------------------ *)
(* capture nesting *)

Lemma level_cost_pos : forall f, 0 < level_cost f.
Proof. intros f. pose proof fact_levels as (A & B & C & D). destruct f; unfold level_cost; lia. Qed.

Lemma cdiv_le_iff : forall a k n, 0 < k -> (cdiv a k <= n <-> a <= n * k).
Proof.
  intros a k n Hk. unfold cdiv.
  pose proof (Z.div_mod (a + k - 1) k ltac:(lia)) as D. pose proof (Z.mod_pos_bound (a + k - 1) k Hk) as B.
  set (q := (a + k - 1) / k) in *. set (r := (a + k - 1) mod k) in *. clearbody q r.
  split; intros H; nia.
Qed.

Theorem nesting_threshold : forall f ctx n, 0 <= n ->
  (too_deep (depth f ctx n) = true <-> threshold f ctx <= n).
Proof.
  intros f ctx n Hn. unfold too_deep, depth, threshold. pose proof (level_cost_pos f) as K.
  rewrite Z.leb_le. set (a := MAXRECLEVEL + 2 - ctx - inner_cost).
  pose proof (cdiv_le_iff a (level_cost f) n K) as C.
  split; intros H.
  - apply Z.max_lub; [lia|]. apply C. unfold a. lia.
  - assert (cdiv a (level_cost f) <= n) by lia. apply C in H0. unfold a in H0. lia.
Qed.

(* non-vacuity *)
Example ex_calcline : calcline [108; 111; 10; 97; 32; 61; 10] 6 = Some (mk_calc 2 3 [97; 32; 61] 4 6).
Proof. vm_compute. reflexivity. Qed.
Example ex_escape : decode_escape [120; 52; 49; 34] = EChar 65 [34] /\ decode_escape [50; 53; 53; 34] = EChar 255 [34] /\
  decode_escape [50; 53; 54; 34] = EReject /\ decode_escape [117; 123; 48; 55; 70; 70; 70; 70; 70; 70; 70; 125; 34] = EUtf8 2147483647 [34] /\
  decode_escape [117; 123; 56; 48; 48; 48; 48; 48; 48; 48; 125; 34] = EReject.
Proof. vm_compute. auto 6. Qed.
Example ex_threshold : too_deep (depth FParens (ctx_local 0) (threshold FParens (ctx_local 0))) = true /\
  too_deep (depth FParens (ctx_local 0) (threshold FParens (ctx_local 0) - 1)) = false /\ 1 <= threshold FParens (ctx_local 0).
Proof. vm_compute. intuition discriminate. Qed.

(* ------------------------------------------------------------------ *)
(* the two scraped repair flags are NEEDED: the theorems that use them through fact_shapes are false under the
   other policy.  calcline_with / the unbounded \u rule are the model's own other branches. *)
Definition calcline_with (excl : bool) (text : list Z) (pos : Z) : option calc :=
  if pos <? 0 then None
  else
    let p := Z.min pos (len text) in
    let q := if excl then (if 0 <? p then p - 1 else 0) else p in
    let prefix := firstn (Z.to_nat q) text in
    let rest := skipn (Z.to_nat q) text in
    let lastpos := last_nl prefix in
    let tail := take_line rest in
    Some (mk_calc (count_nl prefix + 1) (p - lastpos)
                  (skipn (Z.to_nat lastpos) prefix ++ tail) (lastpos + 1) (q + len tail)).
Lemma calcline_is_with : forall text pos, calcline text pos = calcline_with CALCLINE_EXCLUSIVE text pos.
Proof. intros. reflexivity. Qed.
(* old policy (prefix includes the position): an error position ON a newline gets column 0 *)
Lemma calcline_exclusive_needed : exists text pos c, 1 <= pos <= len text + 1 /\ 1 <= len text /\
  calcline_with false text pos = Some c /\ c_colno c = 0.
Proof. exists [97; NL], 2. eexists. split; [vm_compute; split; discriminate|]. split; [vm_compute; discriminate|]. split; vm_compute; reflexivity. Qed.
(* old \u rule (any number of hex digits): the value handed to utf8.char can exceed MAXUTF *)
Lemma escape_u_bound_needed : exists digs r1 r3, span_hex r1 = (digs, 125 :: r3) /\ digs <> [] /\ MAXUTF < hexval digs.
Proof. exists [56; 48; 48; 48; 48; 48; 48; 48], [56; 48; 48; 48; 48; 48; 48; 48; 125], []. split; [vm_compute; reflexivity|]. split; [discriminate|]. vm_compute. reflexivity. Qed.
