"""C04 - run-time safety checks fire exactly when an operation is invalid.

(T) gen(): the C helpers the real compiler emits for the driver program (nelua_assert_narrow_*,
    nelua_assert_bounds_*, nelua_assert_idiv_/imod_*, nelua_assert_deref) are parsed into
    Base.CInt mini-C terms and written to coq/C04/Gen.v together with the compiler's own
    is_type_inrange table, the flags of every add_converted_val call site of cgenerator.lua
    and the check()/assert() guards of lib/span|vector|sequence|string; Proofs.v proves that the
    model's generators produce exactly these terms (vm_compute), the theorems are about the
    generators under the C semantics of Base.CInt.
(C) correspond(): a forking Nelua driver compiled by the real compiler runs every case; the
    extracted model and the property oracle (exact integers) run on the same cases.
"""
import hashlib
import os
import random
import re
import struct
import subprocess
import sys

import vlib

sys.path.insert(0, os.path.join(vlib.VERIF, "harness", "C04"))
import cparse  # noqa: E402

ID = "C04"
ALLOWED_AXIOMS = []
TRUSTED_BASE = [
    "coqc 8.16.1 kernel (vm_compute used for table comparisons and refutation witnesses; no native_compute)",
    "no axioms: every theorem of coq/C04/Properties.v is 'Closed under the global context'",
    "C integer semantics as written in coq/Base/CInt.v, mode Gnu (ISO C11 + -fwrapv + gcc/clang documented behaviour: modular conversion to signed types, arithmetic >> on signed); int = 32 bits, long = long long = pointer = 64 bits",
    "translator harness/C04/cparse.py (tokenizer/parser for the C fragment of the emitted helpers, C11 6.4.4.1 literal typing, NELUA_(UN)LIKELY(e) read as e) and checks/C04.py:gen (regex scrape of cgenerator.lua call sites and of lib/*.nelua guards; every scraped item is listed in evidence)",
    "extraction: Require Extraction + ExtrOcamlBasic only; no Extract Constant of our own; ocaml/zutil.ml + coq/C04/driver.ml glue",
    "harness/C04/driver.nelua (forking driver; fork/waitpid/pipe from libc), gcc, the OS delivering SIGABRT on abort()",
    "modelled rather than verified: the Lua generators of cbuiltins.lua/cemitter.lua are mirrored by hand in coq/C04/Model.v; tie = structural equality with the scraped helpers (proof obligation) + behavioural correspondence (testing)",
]
THEOREM_CLASSES = {
    "C04_helpers_are_the_emitted_ones": "tripwire",
    "C04_narrow_fires_iff": "main",
    "C04_no_check_sound": "main",
    "C04_all_conversion_calls_checked": "main",
    "C04_all_sites_checked": "corollary",
    "C04_implicit_conversion_exact": "main",
    "C04_bounds_fires_iff": "main",
    "C04_deref_fires_iff": "main",
    "C04_idiv_check_iff": "main",
    "C04_imod_check_iff": "main",
    "C04_tdiv_check_refuted": "refutation",
    "C04_tdiv_check_partial": "main",
    "C04_cast_wraps": "main",
    "C04_lib_guard_iff": "main",
}
UNPROVED = [
    "float -> integer narrowing (nelua_assert_narrow_<float>_<D>): correspondence against the exact oracle only, for x with trunc(x) representable in D",
    "string.byte (index normalisation + guard): hand model, correspondence only",
    "'before any invalid memory access': the mini-C has no memory; supported by the shape a->v[helper(i, N)] / the accessor returning only after its guard, and by the AddressSanitizer build of the driver replaying the memory-touching streams (a sample of 800 in the quick tier, all of them in the thorough tier; testing)",
    "that EVERY implicit conversion of cgenerator.lua goes through add_converted_val: a scrape (add_typed_val has the single caller add_converted_val) and the driver's 15 site streams, no theorem; sites SDeclStatic and SRecArrInit are in the scraped table but not exercised by the driver",
    "exit status and diagnostic text: observed through the forking driver (signal 6 + message), message texts tied through the translator's table",
    "containers of size >= 2^64 - 1, Strict/Wrapv C modes: theorems only (gcc default build tested; clang in thorough)",
    "`///` and `%%%`: the emitted form is an inline expression, tied to Model.tdiv_fn/tmod_fn (same type) and Model.tdivm_fn/tmodm_fn (operands of different signedness, 8 type pairs, result type from types.lua) by correspondence only (no helper to scrape); C04_tdiv_check_refuted speaks about the same-type form",
]
MANIFEST_ENTRY = {
    "text": "proof, partial: theorems (all integer types, all values) for array bounds, null dereference, integer->integer implicit narrowing at every add_converted_val call scraped from cgenerator.lua, checked // and %, explicit casts, span/vector/sequence/string accessors, with the emitted helpers tied term-for-term to the C generated on each run; `///` `%%%` by zero / min by -1 are REFUTED (open findings); float->integer narrowing, string.byte, 'before any invalid memory access' (ASan build), exit status/diagnostic and the completeness of the site list rest on differential testing only",
    "note": "trusted: Coq kernel, Base/CInt Gnu mode = gcc/clang, harness/C04/cparse.py translator, regex scrapes of cgenerator.lua/cemitter.lua/lib/*.nelua, forking driver; harness/C04/{cparse.py,types.lua} are also used by checks/C02.py",
    "technique": "machine-checked proof in Coq over an executable model + structural tie to the generated C + extracted-model/implementation correspondence",
}
ASSUMPTIONS = [
    "gcc/clang implement the Gnu mode of Base.CInt (documented implementation-defined behaviour)",
    "float -> integer narrowing is covered by correspondence only (x with trunc(x) representable in the destination); outside that range the C conversion is undefined behaviour (recorded under C03)",
    "correspondence is differential testing (8-bit types exhaustively, other widths on the boundary lattice of both types), not a proof that model = code",
]

ITYPES = ["int8", "int16", "int32", "int64", "isize", "uint8", "uint16", "uint32", "uint64", "usize"]
STYPES = ["int8", "int16", "int32", "int64", "isize"]
LENS = [1, 2, 3, 5, 8, 16, 17, 127, 128, 129, 255, 256, 257, 32767, 32768, 65535, 65536]
ALLSITES = ["int64_uint8", "uint8_int8", "int16_int8", "uint64_uint32", "isize_usize", "uint32_int32", "int64_int16", "int32_uint32"]
POSTYPES = ["int8", "uint8", "int64", "isize", "usize", "uint64"]
SITES = ["arg", "decl", "assign", "ret1", "ret2", "retdefer", "arrinit", "recinit", "for",
         "massign2", "massign3", "mswap", "munpack", "mdeclunpack", "mfield"]
VISITORS = {"visitors.InitList": 1, "visitor_Call": 2, "visitors.Call": 3, "visitors.Return": 4,
            "visitors.ForNum": 5, "visitors.VarDecl": 6, "visitors.Assign": 7, "visitors.BinaryOp": 8}
TDIV_RESULT = {}      # (ltype, rtype) -> result type of `///` on operands of different signedness, as the compiler's types.lua says
MIXED_PAIRS = [("int8", "uint8"), ("uint8", "int8"), ("int16", "uint16"), ("int32", "uint32"), ("uint32", "int32"), ("int64", "uint64"), ("uint64", "int64"), ("int8", "uint64")]
MIXED_WITNESSES = {("tdiv", "int32", "uint32", -(1 << 31), (1 << 32) - 1), ("tmod", "int32", "uint32", -(1 << 31), (1 << 32) - 1)}   # exact keys "case:<input>"
TDIV_WITNESSES = {("tdiv", "int32", 7, 0), ("tmod", "int32", 7, 0), ("tdiv", "int64", -(1 << 63), -1), ("tmod", "int64", -(1 << 63), -1)}

MSG = {1: "array index: position out of bounds", 3: "attempt to dereference a null pointer", 4: "division by zero"}

TYPES = {}      # name -> (bits, signed)  filled by gen()/load_types


def rng_of(t):
    b, s = TYPES[t]
    return (-(1 << (b - 1)), (1 << (b - 1)) - 1) if s else (0, (1 << b) - 1)


def inrange(t, x):
    lo, hi = rng_of(t)
    return lo <= x <= hi


def wrap(t, x):
    b, s = TYPES[t]
    x %= 1 << b
    return x - (1 << b) if s and x >= 1 << (b - 1) else x


# --------------------------------------------------------------------------- driver build

def repo_fingerprint():
    files = vlib.walk_files(os.path.join(vlib.REPO, "lualib"), (".lua",)) + vlib.walk_files(os.path.join(vlib.REPO, "lib"), (".nelua",))
    files.append(os.path.join(vlib.VERIF, "harness", ID, "driver.nelua"))
    return vlib.sha_files(files)[:16]


def build_driver(ctx):
    """Compile harness/C04/driver.nelua with the real compiler (cached by the fingerprint of
    /repo/lualib, /repo/lib and the driver).  Returns (binary, generated C text)."""
    fp = repo_fingerprint()
    d = os.path.join(ctx.work, "drv-" + fp)
    exe = os.path.join(d, "driver")
    cfile = os.path.join(d, "cache", "driver.c")
    with vlib.Lock("C04-driver"):
        if not (os.path.exists(exe) and os.path.exists(cfile)):
            # prune older builds
            for x in os.listdir(ctx.work):
                if x.startswith("drv-") and x != "drv-" + fp:
                    subprocess.run(["rm", "-rf", os.path.join(ctx.work, x)])
            os.makedirs(d, exist_ok=True)
            src = os.path.join(d, "driver.nelua")
            vlib.write_if_changed(src, vlib.read(os.path.join(vlib.VERIF, "harness", ID, "driver.nelua")))
            rc, out, err = vlib.nelua_build(src, exe, cache_dir=os.path.join(d, "cache"))
            if rc != 0 or not os.path.exists(exe):
                raise RuntimeError("driver does not compile with the compiler under test:\n" + (out + err)[-3000:])
    return exe, vlib.read(cfile)


def build_variant(ctx, name, extra):
    """The same driver built by the compiler under test with other C flags / another C compiler."""
    fp = repo_fingerprint()
    d = os.path.join(ctx.work, "drv-" + fp + "-" + name)
    exe = os.path.join(d, "driver")
    with vlib.Lock("C04-driver-" + name):
        if not os.path.exists(exe):
            os.makedirs(d, exist_ok=True)
            src = os.path.join(d, "driver.nelua")
            vlib.write_if_changed(src, vlib.read(os.path.join(vlib.VERIF, "harness", ID, "driver.nelua")))
            rc, out, err = vlib.nelua_build(src, exe, cache_dir=os.path.join(d, "cache"), extra=extra)
            if rc != 0 or not os.path.exists(exe):
                raise RuntimeError("driver variant %s does not build: %s" % (name, (out + err)[-1500:]))
    return exe


def load_types(ctx):
    rc, out, err = vlib.run_lua(os.path.join(vlib.VERIF, "harness", ID, "types.lua"), ITYPES + ["cint"])
    if rc != 0:
        raise RuntimeError("types.lua failed: " + err[-2000:])
    types, inr = {}, {}
    for line in out.splitlines():
        w = line.split("\t")
        if w[0] == "T":
            types[w[1]] = (int(w[3]), w[4] == "1", int(w[5]), int(w[6]), w[2])
        elif w[0] == "R":
            inr[(w[1], w[2])] = w[3] == "1"
        elif w[0] == "O":
            TDIV_RESULT[(w[1], w[2])] = w[3]
    if len(types) < len(ITYPES):
        raise RuntimeError("types.lua printed too few types")
    for n, (b, s, lo, hi, _) in types.items():
        elo, ehi = (-(1 << (b - 1)), (1 << (b - 1)) - 1) if s else (0, (1 << b) - 1)
        if (lo, hi) != (elo, ehi):
            raise RuntimeError("type %s: min/max %s..%s are not the two's complement range of %d bits" % (n, lo, hi, b))
        TYPES[n] = (b, s)
    return types, inr


# --------------------------------------------------------------------------- scraping

def scrape_sites():
    src = vlib.repo_read("lualib/nelua/cgenerator.lua")
    cur, ordn, out = None, {}, []
    for ln, line in enumerate(src.split("\n"), 1):
        m = re.match(r"^(?:local )?function ([\w\.]+)\(", line)
        if m:
            cur = m.group(1)
        m = re.search(r"add_converted_val\((.*)\)\s*$", line)
        if m:
            ordn[cur] = ordn.get(cur, 0) + 1
            args = [a.strip() for a in m.group(1).split(",")]
            force = args[3] if len(args) > 3 else "nil"
            unt = args[4] if len(args) > 4 else "nil"
            fcode = {"nil": 0, "false": 0, "true": 1}.get(force, 2)
            ucode = {"nil": 0, "false": 0, "true": 1}.get(unt, 2)
            out.append({"line": ln, "visitor": cur, "ordinal": ordn[cur], "args": m.group(1),
                        "vcode": VISITORS.get(cur, 0), "force": fcode, "untypedinit": ucode})
    if len(out) < 10:
        raise RuntimeError("cannot find the add_converted_val call sites in cgenerator.lua")
    # the rule of cemitter.add_converted_val that turns the flags into "checked": `not force` since
    # ddc4da5 (`not (force or untypedinit)` before: untypedinit switched the narrowing check off)
    em = vlib.repo_read("lualib/nelua/cemitter.lua")
    m = re.search(r"local checked = (not force|not \(force or untypedinit\))[^\n]*\n\s*self:add_typed_val\(type, val, valtype, checked\)", em)
    if not m:
        raise RuntimeError("cemitter.add_converted_val: the rule computing `checked` from force/untypedinit changed shape")
    scrape_sites.rule_ignores_untypedinit = (m.group(1) == "not force")
    # every checked / unchecked integer conversion is emitted by add_typed_val, whose only caller must
    # be add_converted_val (supports "every implicit conversion passes through the scraped call sites")
    callers = []
    for f in vlib.walk_files(os.path.join(vlib.REPO, "lualib", "nelua"), (".lua",)):
        for ln, line in enumerate(vlib.read(f).split("\n"), 1):
            if re.search(r"[:.]add_typed_val\(", line) and not re.search(r"function CEmitter:add_typed_val", line):
                callers.append("%s:%d" % (os.path.relpath(f, vlib.REPO), ln))
    if len(callers) != 1 or not callers[0].startswith("lualib/nelua/cemitter.lua"):
        raise RuntimeError("add_typed_val is expected to have the single caller add_converted_val; found %s" % callers)
    scrape_sites.typed_val_callers = callers
    if not re.search(r"if check and not self\.context\.pragmas\.nochecks and type\.is_integral and valtype\.is_scalar and\s*\n\s*not type:is_type_inrange\(valtype\) then", em):
        raise RuntimeError("cemitter.add_typed_val: the needs-check condition changed shape")
    return out


NELUA_GUARDS = [
    # (key, file, function header regex, variables [pos, size, impl])
    ("span_at", "lib/span.nelua", r"function spanT\.__atindex\(self: spanT, i: usize\)", {"i": 0, "self.size": 1}),
    ("vector_at", "lib/vector.nelua", r"function vectorT:__atindex\(pos: usize\)", {"pos": 0, "self.size": 1}),
    ("vector_insert", "lib/vector.nelua", r"function vectorT:insert\(pos: usize, v: T\)", {"pos": 0, "self.size": 1}),
    ("vector_remove", "lib/vector.nelua", r"function vectorT:remove\(pos: usize\)", {"pos": 0, "self.size": 1}),
    ("vector_pop", "lib/vector.nelua", r"function vectorT:pop\(\)", {"self.size": 1}),
    ("sequence_insert", "lib/sequence.nelua", r"function sequenceT:insert\(pos: usize, v: T\)", {"pos": 0, "self.impl.size": 1, "self.impl": 2}),
    ("sequence_remove", "lib/sequence.nelua", r"function sequenceT:remove\(pos: usize\)", {"pos": 0, "self.impl.size": 1, "self.impl": 2}),
    ("sequence_pop", "lib/sequence.nelua", r"function sequenceT:pop\(\)", {"self.impl.size": 1, "self.impl": 2}),
    ("sequence_at", "lib/sequence.nelua", r"function sequenceT:__atindex\(pos: usize\)", {"pos": 0, "self.impl.size": 1, "self.impl": 2}),
    ("string_at", "lib/string.nelua", r"function string\.__atindex\(s: string, i: usize\)", {"i": 0, "s.size": 1}),
]


def nelua_guard_to_c(expr):
    """Nelua boolean expression over usize values -> the C text the generator emits for it
    (and -> &&, or -> ||, ~= -> !=, nilptr -> NULL, integer literals take the usize type: suffix U,
    as add_scalar_literal prints them)."""
    e = expr
    e = re.sub(r"\band\b", "&&", e)
    e = re.sub(r"\bor\b", "||", e)
    e = e.replace("~=", "!=")
    e = re.sub(r"\bnilptr\b", "NULL", e)
    e = re.sub(r"(?<![\w.])(\d+)(?![\w.])", lambda m: m.group(1) + "ULL", e)
    return e


def scrape_guards():
    out = {}
    for key, rel, hdr, vars_ in NELUA_GUARDS:
        src = vlib.repo_read(rel)
        m = re.search(hdr, src)
        if not m:
            raise RuntimeError("cannot find %s in %s" % (hdr, rel))
        body = src[m.end():]
        body = body[:re.search(r"\n  end\n|\nend\n", body).start()]
        allg = re.findall(r"\b(?:check|assert)\(", body)
        if len(allg) != 1:
            raise RuntimeError("%s (%s): expected exactly one check()/assert() in the accessor, found %d" % (key, rel, len(allg)))
        g = re.search(r"\b(check|assert)\((.*), '([^']*)'\)", body)
        if not g:
            raise RuntimeError("no check()/assert() found in %s (%s)" % (key, rel))
        text = g.group(2)
        ctext = nelua_guard_to_c(text)
        # variables: longest names first, replaced by v0 v1 v2
        for name in sorted(vars_, key=len, reverse=True):
            ctext = re.sub(r"(?<![\w.])" + re.escape(name) + r"(?![\w.])", "v%d" % vars_[name], ctext)
        ast = cparse.parse_expr(ctext, ["v0", "v1", "v2"])
        pre = None
        if key == "sequence_at":
            pm = re.search(r"if unlikely\((pos > self\.impl\.size)\) then\s*\n\s*assert\(", body)
            if not pm:
                raise RuntimeError("sequence.__atindex: the `pos > size` precondition of the assert changed")
            pc = nelua_guard_to_c(pm.group(1))
            for name in sorted(vars_, key=len, reverse=True):
                pc = re.sub(r"(?<![\w.])" + re.escape(name) + r"(?![\w.])", "v%d" % vars_[name], pc)
            pre = cparse.parse_expr(pc, ["v0", "v1", "v2"])
        out[key] = {"source": text, "message": g.group(3), "kind": g.group(1), "ast": ast, "pre": pre}
    # string.byte is not a plain guard: index normalisation precedes it (modelled by hand)
    sb = vlib.repo_read("lib/string.nelua")
    if not re.search(r"if unlikely\(s\.size == 0\) then return 0 end\s*\n\s*if unlikely\(i < 0\) then i = s\.size \+ i \+ 1 end\s*\n\s*--[^\n]*\n\s*check\(i >= 1 and \(@usize\)\(i\) <= s\.size, 'index out of range'\)", sb):
        raise RuntimeError("string.byte: index normalisation / guard changed shape")
    return out


def gen(ctx):
    types, inr = load_types(ctx)
    cparse.set_pointer_bits(types["usize"][0])
    exe, ctext = build_driver(ctx)
    ctx.driver_exe = exe
    funcs = cparse.find_functions(ctext, ["nelua_assert_narrow_", "nelua_assert_bounds_", "nelua_assert_idiv_",
                                          "nelua_assert_imod_", "nelua_assert_deref"])
    code2name = {v[4]: k for k, v in types.items()}
    # several nelua names can share a codename? no: codenames are nl<name>; keep first
    narrow, bounds, idiv, imod, deref, skipped = [], [], [], [], [], []
    for name in sorted(funcs):
        ret, params, body = funcs[name]
        try:
            f = cparse.parse_function(ret, params, body)
        except cparse.Unsupported as ex:
            if "float" in name:
                skipped.append(name)
                continue
            raise RuntimeError("cannot translate emitted helper %s: %s" % (name, ex))
        m = re.match(r"nelua_assert_narrow_(nl\w+?)_(nl\w+)$", name)
        if m:
            s, d = code2name[m.group(1)], code2name[m.group(2)]
            msgs = re.findall(r'nelua_panic_cstring\("([^"]*)"\)', body)
            if msgs != ["narrow casting from %s to %s failed" % (s, d)]:
                raise RuntimeError("%s: unexpected diagnostic %r" % (name, msgs))
            narrow.append((s, d, f))
            continue
        m = re.match(r"nelua_assert_(bounds|idiv|imod)_(nl\w+)$", name)
        if m:
            {"bounds": bounds, "idiv": idiv, "imod": imod}[m.group(1)].append((code2name[m.group(2)], f))
            continue
        if name == "nelua_assert_deref":
            deref.append(f)
    if len(narrow) < 50 or len(bounds) < 10 or len(idiv) < 5 or len(imod) < 5 or len(deref) != 1:
        raise RuntimeError("too few helpers found in the generated C: narrow=%d bounds=%d idiv=%d imod=%d deref=%d" %
                           (len(narrow), len(bounds), len(idiv), len(imod), len(deref)))
    sites = scrape_sites()
    guards = scrape_guards()

    def ity(n):
        return cparse.coq_ity(TYPES[n])

    L = ["(* GENERATED by checks/C04.py from %s - do not edit *)" % vlib.REPO,
         "From Base Require Import CInt.", "Local Open Scope Z_scope.", "",
         "Definition USIZE_BITS : Z := %d." % types["usize"][0],
         "Definition ISIZE_BITS : Z := %d." % types["isize"][0],
         "Definition CINT_BITS : Z := %d." % types["cint"][0], "",
         "(* nelua_assert_narrow_<S>_<D> as emitted: (S, D, function) *)",
         "Definition narrow_table : list (ity * ity * cfun) := ["]
    L.append(";\n".join("  (%s, %s, %s)" % (ity(s), ity(d), cparse.coq(f)) for s, d, f in narrow))
    L += ["].", "", "Definition bounds_table : list (ity * cfun) := ["]
    L.append(";\n".join("  (%s, %s)" % (ity(t), cparse.coq(f)) for t, f in bounds))
    L += ["].", "", "Definition idiv_table : list (ity * cfun) := ["]
    L.append(";\n".join("  (%s, %s)" % (ity(t), cparse.coq(f)) for t, f in idiv))
    L += ["].", "", "Definition imod_table : list (ity * cfun) := ["]
    L.append(";\n".join("  (%s, %s)" % (ity(t), cparse.coq(f)) for t, f in imod))
    L += ["].", "", "Definition deref_emitted : cfun := %s." % cparse.coq(deref[0]), "",
          "(* IntegralType:is_type_inrange as computed by the compiler: (D, S, D:is_type_inrange(S)) *)",
          "Definition inrange_table : list (ity * ity * bool) := ["]
    L.append(";\n".join("  (%s, %s, %s)" % (ity(d), ity(s), "true" if inr[(d, s)] else "false") for d in ITYPES for s in ITYPES))
    L += ["].", "",
          "(* add_converted_val call sites of cgenerator.lua: (visitor, ordinal, force, untypedinit);",
          "   flags: 0 = absent/nil/false, 1 = literal true, 2 = some other expression *)",
          "Definition conv_sites : list (Z * Z * Z * Z) := ["]
    rule = "true" if scrape_sites.rule_ignores_untypedinit else "false"
    L.append(";\n".join("  (%d, %d, %d, %d)" % (s["vcode"], s["ordinal"], s["force"], s["untypedinit"]) for s in sites))
    L += ["].", "", "(* add_converted_val: true = `checked = not force`, false = `checked = not (force or untypedinit)` *)",
          "Definition check_rule_ignores_untypedinit : bool := %s." % rule,
          "", "(* guards of the library accessors, variables: 0 = position, 1 = size, 2 = impl pointer *)"]
    for key in sorted(guards):
        L.append("Definition guard_%s : cexpr := %s." % (key, cparse.coq(guards[key]["ast"])))
    L.append("Definition guard_sequence_at_pre : cexpr := %s." % cparse.coq(guards["sequence_at"]["pre"]))
    vlib.write_if_changed(os.path.join(vlib.coq_dir(ID), "Gen.v"), "\n".join(L) + "\n")
    return {"types": {k: {"bits": v[0], "signed": v[1]} for k, v in types.items()},
            "helpers": {"narrow": len(narrow), "bounds": len(bounds), "idiv": len(idiv), "imod": len(imod), "deref": 1,
                        "float_narrow_not_translated": len(skipped)},
            "add_typed_val_callers": scrape_sites.typed_val_callers,
            "check_rule": "checked = not force" if scrape_sites.rule_ignores_untypedinit else "checked = not (force or untypedinit)",
            "conversion_sites": [{k: s[k] for k in ("line", "visitor", "ordinal", "args", "force", "untypedinit")} for s in sites],
            "library_guards": {k: {"source": v["source"], "message": v["message"]} for k, v in guards.items()},
            "driver_fingerprint": repo_fingerprint()}


# --------------------------------------------------------------------------- cases

def lattice(t):
    lo, hi = rng_of(t)
    L = {lo, lo + 1, lo + 2, -2, -1, 0, 1, 2, hi - 2, hi - 1, hi}
    return {x for x in L if lo <= x <= hi}


def pair_values(s, d, exhaustive8=True):
    """values of type s interesting for a conversion to d: both lattices, the limits of d +-1."""
    if exhaustive8 and TYPES[s][0] == 8:
        lo, hi = rng_of(s)
        return list(range(lo, hi + 1))
    V = set(lattice(s))
    dlo, dhi = rng_of(d)
    for x in (dlo - 2, dlo - 1, dlo, dlo + 1, dhi - 1, dhi, dhi + 1, dhi + 2):
        V.add(x)
    for k in (7, 8, 15, 16, 31, 32, 63):
        for dd in (-1, 0, 1):
            V.add((1 << k) + dd)
            V.add(-(1 << k) + dd)
    return sorted(x for x in V if inrange(s, x))


def elem_arr(i):
    return (i * 7 + 3) & 0xff


def elem_big(i):
    return (i * 5 + 1) & 0xff


def elem_c(k):
    return (k * 3 + 10) & 0xff


class Case:
    __slots__ = ("stream", "impl", "model", "oracle", "cmpval", "key", "nontrivial")

    def __init__(self, stream, impl, model, oracle, cmpval=True, key=None, nontrivial=True):
        self.stream, self.impl, self.model, self.oracle = stream, impl, model, oracle
        self.cmpval, self.key, self.nontrivial = cmpval, key, nontrivial


def hx(v):
    return ("-%x" % -v) if v < 0 else "%x" % v


def tb(t):
    b, s = TYPES[t]
    return "%d %d" % (b, 1 if s else 0)


def narrow_case(stream, site, s, d, x):
    ok = inrange(d, x)
    oracle = "V %d" % x if ok else "P 2"
    return Case(stream, "narrow %s %s %s %d" % (site, s, d, x), "narrow %s %s %s %s" % (site, tb(s), tb(d), hx(x)), oracle,
                nontrivial=x not in (0, 1))


def lib_oracle(op, t, i, size):
    """Full-strength expectation for a container access with an index i of type t."""
    if op == "span_at":
        return "V %d" % elem_big(i) if 0 <= i < size else "P"
    if op == "vec_at":
        return "V %d %d" % (elem_c(i), size) if 0 <= i < size else "P"
    if op == "vec_insert":
        return "V 200 %d" % (size + 1) if 0 <= i <= size else "P"
    if op == "vec_remove":
        return "V %d %d" % (elem_c(i), size - 1) if 0 <= i < size else "P"
    if op == "vec_pop":
        return "V %d %d" % (elem_c(size - 1), size - 1) if size > 0 else "P"
    if op == "seq_at":
        if i == 0:
            return "V 0 %d" % size
        if 1 <= i <= size:
            return "V %d %d" % (elem_c(i - 1), size)
        return "V 0 %d" % (size + 1) if i == size + 1 else "P"
    if op == "seq_insert":
        return "V 200 %d" % (size + 1) if 1 <= i <= size + 1 else "P"
    if op == "seq_remove":
        return "V %d %d" % (elem_c(i - 1), size - 1) if 1 <= i <= size else "P"
    if op == "seq_pop":
        return "V %d %d" % (elem_c(size - 1), size - 1) if size > 0 else "P"
    if op == "str_at":
        return "V %d" % (97 + (i - 1) % 26) if 1 <= i <= size else "P"
    raise KeyError(op)


IMPL_LIB = {"span_at": "span %(t)s %(size)d %(i)d", "vec_at": "vec at %(t)s %(size)d %(i)d",
            "vec_insert": "vec insert %(t)s %(size)d %(i)d", "vec_remove": "vec remove %(t)s %(size)d %(i)d",
            "vec_pop": "vec pop %(t)s %(size)d %(i)d", "seq_at": "seq at %(t)s %(size)d %(i)d",
            "seq_insert": "seq insert %(t)s %(size)d %(i)d", "seq_remove": "seq remove %(t)s %(size)d %(i)d",
            "seq_pop": "seq pop %(t)s %(size)d %(i)d", "str_at": "str at %(t)s %(size)d %(i)d"}


def lib_case(stream, op, t, i, size):
    impl_ptr = 0 if (size == 0 and op in ("seq_remove", "seq_pop")) else 1
    return Case(stream, IMPL_LIB[op] % {"t": t, "size": size, "i": i},
                "lib %s %s %s %s %d" % (op, tb(t), hx(i), hx(size), impl_ptr), lib_oracle(op, t, i, size),
                cmpval=False, nontrivial=i not in (0, 1))


def gen_cases(ctx):
    rng = ctx.rng
    cases = []
    # 1. implicit conversion as a call argument: every pair, 8-bit sources exhaustively
    for s in ITYPES:
        for d in ITYPES:
            for x in pair_values(s, d):
                cases.append(narrow_case("narrow-arg", "arg", s, d, x))
    # 2. the other conversion sites
    for s in ITYPES:
        for d in ITYPES:
            vals = pair_values(s, d, exhaustive8=False)
            for x in (vals if ctx.thorough else rng.sample(vals, min(len(vals), 6))):
                cases.append(narrow_case("narrow-decl", "decl", s, d, x))
    for sd in ALLSITES:
        s, d = sd.split("_")
        for site in SITES:
            if site in ("arg", "decl"):
                continue
            for x in pair_values(s, d, exhaustive8=ctx.thorough):
                if site == "for" and x == rng_of(d)[1]:
                    continue    # `for i: D = max, max` never terminates (loop variable wraps; C01's concern)
                cases.append(narrow_case("narrow-sites", site, s, d, x))
    # 3. explicit casts never trap
    for s in ITYPES:
        for d in ITYPES:
            vals = pair_values(s, d, exhaustive8=ctx.thorough)
            for x in vals:
                cases.append(Case("cast", "cast %s %s %d" % (s, d, x), "cast %s %s" % (tb(d), hx(x)), "V %d" % wrap(d, x),
                                  nontrivial=x not in (0, 1)))
    # 4. array bounds
    for t in ITYPES:
        lo, hi = rng_of(t)
        for n in LENS:
            if TYPES[t][0] == 8 and n <= 17:
                idx = range(lo, hi + 1)
            else:
                idx = {lo, lo + 1, -2, -1, 0, 1, n - 2, n - 1, n, n + 1, hi - 1, hi, 127, 128, 255, 256, 32767, 32768, 65535, 65536,
                       -128, -129, 1 << 31, (1 << 31) - 1, 1 << 32, (1 << 32) + 1, (1 << 32) + n - 1, (1 << 63) - 1, 1 << 63}
                idx = sorted(i for i in idx if lo <= i <= hi)
            for i in idx:
                kind = "bounds" if (i + n) % 3 else "pbounds"
                ok = 0 <= i < n
                cases.append(Case("bounds", "%s %s %d %d" % (kind, t, n, i), "bounds %s %s %s" % (tb(t), hx(n), hx(i)),
                                  "V %d" % elem_arr(i) if ok else "P 1", cmpval=False, nontrivial=i not in (0, 1)))
    # 5. checked division
    for t in STYPES:
        lo, hi = rng_of(t)
        if TYPES[t][0] == 8:
            if ctx.thorough:
                pairs = [(a, b) for a in range(lo, hi + 1) for b in range(lo, hi + 1)]
            else:
                pairs = [(a, b) for a in range(lo, hi + 1) for b in (lo, lo + 1, -3, -2, -1, 0, 1, 2, 3, 7, hi - 1, hi)]
                pairs += [(rng.randint(lo, hi), rng.randint(lo, hi)) for _ in range(1500)]
        else:
            L = sorted(lattice(t) | {3, -3, 7, -7, 10, -10, (1 << 31), -(1 << 31) - 1} & set(range(lo, hi + 1)) if False else
                       {x for x in (lattice(t) | {3, -3, 7, -7, 10, -10, 1 << 31, -(1 << 31) - 1, 1 << 15, -(1 << 15) - 1}) if lo <= x <= hi})
            pairs = [(a, b) for a in L for b in L]
        for a, b in pairs:
            for op in ("idiv", "imod"):
                if b == 0:
                    orc = "P 4"
                else:
                    orc = "V %d" % (wrap(t, a // b) if op == "idiv" else a % b)
                cases.append(Case(op, "%s %s %d %d" % (op, t, a, b), "%s %s %s %s" % (op, tb(t), hx(a), hx(b)), orc,
                                  nontrivial=a not in (0, 1) and b not in (0, 1)))
    # 5b. truncating division /// and %%% of signed integers (plain C operators, no helper).  Open findings:
    # the designated witnesses carry their exact input as key; any other input is matched only when the
    # model of the unchanged code predicts the outcome, under a key naming code site, operator, type and cause
    for t in STYPES:
        lo, hi = rng_of(t)
        for a in sorted(lattice(t) | {7, -7}):
            for b in (0, -1, 1, 2, -2, lo, hi):
                for op in ("tdiv", "tmod"):
                    key = None
                    if b == 0:
                        orc = "P 4"
                        key = "cbuiltins.operators.%s:plain-C-operator:%s:division-by-zero-without-diagnostic" % (op, t)
                    else:
                        q = abs(a) // abs(b)
                        q = q if (a < 0) == (b < 0) else -q
                        orc = "V %d" % (wrap(t, q) if op == "tdiv" else a - q * b)
                        if a == lo and b == -1:
                            key = "cbuiltins.operators.%s:plain-C-operator:%s:min-by-minus-one-undefined" % (op, t)
                    if (op, t, a, b) in TDIV_WITNESSES:
                        key = None          # exact key "case:<input>"
                    cases.append(Case("tdiv", "%s %s %d %d" % (op, t, a, b), "%s %s %s %s" % (op, tb(t), hx(a), hx(b)), orc, key=key,
                                      nontrivial=a not in (0, 1)))
    # 5c. `///` `%%%` on operands of different signedness (branch of 03b0ae0 / 8eb30df: `(T)((T)a / (T)b)`, T the result type
    # taken from the compiler's own type rules): same plain C operator, same missing diagnostic; keys name both operand types
    for (lt_, rt_) in MIXED_PAIRS:
        T = TDIV_RESULT.get((lt_, rt_))
        if T not in TYPES:
            raise RuntimeError("types.lua gave no result type for %s /// %s" % (lt_, rt_))
        tlo, thi = rng_of(T)
        for a in sorted(lattice(lt_) | {x for x in (7, -7, 1 << 63) if inrange(lt_, x)}):
            for b in sorted(lattice(rt_) | {x for x in (0, 3, -3) if inrange(rt_, x)}):
                for op in ("tdiv", "tmod"):
                    key = None
                    ca, cb = wrap(T, a), wrap(T, b)
                    if cb == 0:
                        orc = "P 4"
                        key = "cbuiltins.operators.%s:plain-C-operator:%s-%s:division-by-zero-without-diagnostic" % (op, lt_, rt_)
                    else:
                        q = abs(ca) // abs(cb)
                        q = q if (ca < 0) == (cb < 0) else -q
                        orc = "V %d" % (wrap(T, q) if op == "tdiv" else ca - q * cb)
                        if ca == tlo and cb == -1 and TYPES[T][0] >= 32:
                            key = "cbuiltins.operators.%s:plain-C-operator:%s-%s:min-by-minus-one-undefined" % (op, lt_, rt_)
                    if (op, lt_, rt_, a, b) in MIXED_WITNESSES:
                        key = None
                    cases.append(Case("tdiv-mixed", "%sm %s %s %d %d" % (op, lt_, rt_, a, b),
                                      "%sm %s %s %s %s %s" % (op, tb(lt_), tb(rt_), tb(T), hx(a), hx(b)), orc, key=key, nontrivial=a not in (0, 1)))
    # 6. pointer dereference
    cases.append(Case("deref", "deref 0", "deref 0", "P 3", cmpval=False, nontrivial=False))
    cases.append(Case("deref", "deref 1", "deref 1", "V 4242", cmpval=False, nontrivial=False))
    # 7. library accessors
    sizes = [0, 1, 2, 5, 17, 40]
    for op in ("span_at", "vec_at", "seq_at", "str_at"):
        for t in ITYPES:
            lo, hi = rng_of(t)
            for size in sizes:
                I = {lo, lo + 1, -2, -1, 0, 1, 2, size - 1, size, size + 1, size + 2, hi - 1, hi, 127, 128, 255, 256}
                for i in sorted(x for x in I if lo <= x <= hi):
                    cases.append(lib_case("lib-at", op, t, i, size))
    for op in ("vec_insert", "vec_remove", "seq_insert", "seq_remove"):
        for t in POSTYPES:
            lo, hi = rng_of(t)
            for size in sizes:
                I = {lo, -1, 0, 1, 2, size - 1, size, size + 1, size + 2, hi}
                for i in sorted(x for x in I if lo <= x <= hi):
                    cases.append(lib_case("lib-mod", op, t, i, size))
    for op in ("vec_pop", "seq_pop"):
        for size in sizes:
            cases.append(lib_case("lib-mod", op, "usize", 0, size))
    # spans with huge lengths over a small real buffer: only cases that must fail or stay inside it
    for size in (65536, 1 << 31, 1 << 32, (1 << 63) - 1, 1 << 63, (1 << 64) - 1):
        for t in ITYPES:
            lo, hi = rng_of(t)
            I = {lo, -1, 0, 1, 65535, 65536, size - 1, size, size + 1, hi, hi - 1}
            for i in sorted(x for x in I if lo <= x <= hi):
                if not (0 <= i < size) or i < 65536:
                    cases.append(lib_case("lib-bigspan", "span_at", t, i, size))
    # 8. string.byte (index normalisation + guard)
    for size in (0, 1, 2, 5, 30):
        for i in sorted(set(range(-size - 3, size + 4)) | {-(1 << 63), (1 << 63) - 1, -(1 << 63) + size, 1 << 32, -(1 << 32)}):
            if size == 0:
                orc = "V 0"
            else:
                j = size + i + 1 if i < 0 else i
                orc = "V %d" % (97 + (j - 1) % 26) if 1 <= j <= size else "P"
            cases.append(Case("strbyte", "str byte isize %d %d" % (size, i), "strbyte %s %s" % (hx(i), hx(size)), orc,
                              cmpval=False, nontrivial=i not in (0, 1)))
    # 9. float -> integer narrowing (correspondence of implementation against the exact oracle only)
    for f in ("float32", "float64"):
        for d in ITYPES:
            lo, hi = rng_of(d)
            vals = {0.0, 1.0, -1.0, 0.5, -0.5, 1.5, 2.0 ** 23 + 0.5, 127.0, 128.0, -128.0, -129.0, 255.0, 256.0, 32767.5,
                    float(lo), float(hi), float(lo) - 1, float(hi) + 1, float(lo) + 0.5, float(hi) - 0.5, 1e-30, 3.999}
            for v in sorted(vals):
                if f == "float32":
                    v = struct.unpack("<f", struct.pack("<f", v))[0]
                    bits = struct.unpack("<I", struct.pack("<f", v))[0]
                else:
                    bits = struct.unpack("<Q", struct.pack("<d", v))[0]
                tr = int(v)
                if not (lo <= tr <= hi):
                    continue    # the C conversion itself is undefined there (C03)
                orc = "V %d" % tr if float(tr) == v else "P 2"
                cases.append(Case("fnarrow", "fnarrow %s %s %d" % (f, d, bits), None, orc, nontrivial=v not in (0.0, 1.0)))
                cases.append(Case("fnarrow", "fnarrowm %s %s %d" % (f, d, bits), None, orc, nontrivial=v not in (0.0, 1.0)))
    return cases


def load_corpus():
    out = []
    p = os.path.join(vlib.VERIF, "corpus", ID, "cases.txt")
    if os.path.exists(p):
        for line in vlib.read(p).split("\n"):
            line = line.strip()
            if not line or line.startswith("#"):
                continue
            # format: impl case | model case | oracle
            parts = [x.strip() for x in line.split("|")]
            out.append(Case("corpus", parts[0], parts[1] or None, parts[2], cmpval=parts[2].startswith("V") and " " not in parts[2][2:]))
    return out


def canon_impl(line, case):
    """Canonical form of a driver output line: 'V ...' | 'P <code>' | 'X <raw>'."""
    if line.startswith("V "):
        return line.strip()
    if line.startswith("P sig 6 "):
        msg = line[8:].strip()
        if msg == MSG[1]:
            return "P 1"
        m = re.match(r"^narrow casting from (\w+) to (\w+) failed$", msg)
        if m:
            return "P 2 %s %s" % (m.group(1), m.group(2))
        if msg == MSG[3]:
            return "P 3"
        if msg == MSG[4]:
            return "P 4"
        if "runtime error: " in msg:
            return "P 5 " + re.sub(r"\s+", " ", msg.split("runtime error: ")[1].split("  ")[0]).strip()
    return "X " + line.strip()


def run_impl(exe, lines, jobs):
    n = len(lines)
    chunk = (n + jobs - 1) // jobs
    procs = []
    for k in range(jobs):
        part = lines[k * chunk:(k + 1) * chunk]
        if not part:
            continue
        p = subprocess.Popen(["bash", "-c", "ulimit -c 0; exec '%s'" % exe], stdin=subprocess.PIPE, stdout=subprocess.PIPE,
                             stderr=subprocess.PIPE, text=True, errors="replace")
        procs.append((p, part))
    outs = []
    import threading
    results = [None] * len(procs)

    def work(ix, p, part):
        o, e = p.communicate("\n".join(part) + "\n")
        results[ix] = (o, e, p.returncode)

    ths = [threading.Thread(target=work, args=(ix, p, part)) for ix, (p, part) in enumerate(procs)]
    for t in ths:
        t.start()
    for t in ths:
        t.join()
    for (p, part), (o, e, rc) in zip(procs, results):
        ls = o.split("\n")
        if ls and ls[-1] == "":
            ls.pop()
        if rc != 0 or len(ls) != len(part):
            raise RuntimeError("implementation driver: rc=%s, %d lines for %d cases; stderr: %s" % (rc, len(ls), len(part), e[-500:]))
        outs += ls
    return outs


def correspond(ctx):
    if not TYPES:
        load_types(ctx)
    exe = getattr(ctx, "driver_exe", None) or build_driver(ctx)[0]
    mdriver = vlib.ocaml_build(ID)
    cases = load_corpus() + gen_cases(ctx)
    impl_out = run_impl(exe, [c.impl for c in cases], 8 if ctx.thorough else 4)
    mcases = [c for c in cases if c.model]
    rc, mout, merr = vlib.sh([mdriver], input="\n".join(c.model for c in mcases) + "\n", timeout=3000)
    ml = mout.split("\n")
    if rc != 0 or len(ml) < len(mcases):
        ctx.violation("harness-run", "harness", "model driver rc=%s, %d lines for %d cases: %s" % (rc, len(ml), len(mcases), merr[-300:]), failing_input=False)
        return {"evaluations": 0}
    mres = {id(c): l for c, l in zip(mcases, ml)}
    dist, kinds = {}, {}
    nontrivial = set()
    n_oracle = n_mismatch = 0
    per_key = {}
    for c, raw in zip(cases, impl_out):
        dist[c.stream] = dist.get(c.stream, 0) + 1
        impl = canon_impl(raw, c)
        kinds[impl.split(" ")[0] + (" " + impl.split(" ")[1] if impl[0] in "PX" else "")] = kinds.get(impl.split(" ")[0] + (" " + impl.split(" ")[1] if impl[0] in "PX" else ""), 0) + 1
        if c.nontrivial:
            nontrivial.add(c.impl)
        # --- property oracle
        orc = c.oracle
        if orc == "P":
            good = impl.startswith("P 2") or impl.startswith("P 5")
        elif orc == "P 2":
            w = c.impl.split()
            good = impl == "P 2 %s %s" % (w[-3], w[-2])
            if c.impl.startswith("narrow mfield") and impl.startswith("P 2"):
                good = True
        else:
            good = impl == orc
        m = mres.get(id(c))
        if m is not None:
            # model verdict in the implementation's canonical vocabulary
            if m.startswith("V "):
                mv = int(m[2:].replace("-", "-0x") if m[2:].startswith("-") else "0x" + m[2:], 16)
                mgood = impl.startswith("V") and (not c.cmpval or impl == "V %d" % mv)
            elif m.startswith("P "):
                mgood = impl.startswith("P " + m[2:])
            elif m == "UB":
                mgood = impl.startswith("X ")      # undefined in the C model: the child dies (SIGFPE ...)
            else:
                mgood = False
        else:
            mgood = True
        if not good:
            n_oracle += 1
            key = c.key if (c.key and mgood) else ("case:" + c.impl)
            per_key[key] = per_key.get(key, 0) + 1
            if per_key[key] == 1:
                ctx.violation(key, "oracle",
                              "C04 `%s`: implementation gives `%s`, the property requires `%s` (model: %s)" % (c.impl, impl, orc, m),
                              detail={"case": c.impl, "implementation": raw, "oracle": orc, "model": m, "model_agrees_with_implementation": mgood,
                                      "replay": "echo '%s' | %s   # driver = harness/C04/driver.nelua compiled by the compiler under test" % (c.impl, exe)})
        elif not mgood:
            n_mismatch += 1
            if n_mismatch <= 3:
                ctx.violation("model-mismatch:" + c.stream, "correspondence",
                              "model no longer corresponds to the code on `%s`: model `%s`, implementation `%s` (= property oracle)" % (c.impl, m, impl),
                              detail={"case": c.impl, "model_case": c.model, "implementation": raw, "model": m, "oracle": orc,
                                      "no_longer_checks": "correspondence stream C04/" + c.stream}, failing_input=False)
    variants = {}
    if True:
        # "before any invalid memory access": the memory-touching streams again under AddressSanitizer
        # (an access slipping past a check is reported by ASan in the child's stderr) and, thorough tier, under clang.
        # Quick tier: a seeded sample of 800 of those cases under ASan (the build is cached per compiler fingerprint).
        mem = [(c, raw) for c, raw in zip(cases, impl_out) if c.stream in ("bounds", "lib-at", "lib-mod", "lib-bigspan", "strbyte", "deref", "narrow-sites", "corpus")]
        if not ctx.thorough and len(mem) > 800:
            mem = random.Random(ctx.seed * 7919 + 4).sample(mem, 800)
        for name, extra in (("asan", ["--cflags=-fsanitize=address -fno-omit-frame-pointer -g"]), ("clang", ["--cc", "clang"]))[:2 if ctx.thorough else 1]:
            try:
                vexe = build_variant(ctx, name, extra)
                vout = run_impl(vexe, [c.impl for c, _ in mem], 8 if ctx.thorough else 4)
            except RuntimeError as ex:
                ctx.violation("variant-build:" + name, "harness", "driver variant %s could not be built/run: %s" % (name, ex), failing_input=False)
                continue
            nd = 0
            for (c, raw), v in zip(mem, vout):
                if "AddressSanitizer" in v or canon_impl(v, c) != canon_impl(raw, c):
                    nd += 1
                    if nd <= 3:
                        ctx.violation("case:%s:%s" % (name, c.impl), "oracle",
                                      "C04 `%s` under the %s build gives `%s`, the default build `%s`%s" % (c.impl, name, v[:300], raw[:200],
                                       " (AddressSanitizer report: an invalid access happened)" if "AddressSanitizer" in v else ""),
                                      detail={"case": c.impl, "variant": name, "output": v, "default_output": raw})
            variants[name] = {"cases": len(mem), "differences": nd}
    return {
        "build_variants": variants,
        "evaluations": len(cases),
        "distinct_nontrivial": len(nontrivial),
        "rule": "cases = corpus + per stream: conversions over all 100 (source,destination) pairs (8-bit sources exhaustively, other widths on the boundary lattice of both types and powers of two), 9 conversion sites, explicit casts, array indexing for 10 index types x 17 lengths (8-bit index types exhaustively for lengths <= 17), checked // and % (int8 sampled/exhaustive, wider on the lattice squared), containers (positions around 0/size/type limits, spans up to 2^64-1), string.byte, float sources; non-trivial = distinct cases whose operand is not 0/1",
        "samples": [c.impl for c in cases[:3]] + [c.impl for c in cases[-3:]],
        "distribution": {"streams": dist, "implementation_outcomes": kinds},
        "oracle_failures": n_oracle,
        "oracle_failures_by_key": per_key,
        "model_mismatches": n_mismatch,
        "traces_validated_against_impl": len(mcases),
        "unproved": UNPROVED,
    }
