"""C11 - allocators hand out disjoint, aligned, in-bounds blocks and lose no memory.

Coq side (coq/C11): Model.v arena/stack/pool, Heap.v memory-level heap, HeapA.v abstract heap (+ payload bytes), Iface.v derived
operations, Aligned.v; Proofs*.v invariants over all histories; Refine*.v: proved refinement Heap.v -> HeapA.v.
(T) constants of heap.nelua / stack.nelua / arena.nelua scraped into coq/C11/Gen.v.
(C) one compiled Nelua driver (harness/C11/driver.nelua) instantiating arena/stack/pool/heap
    allocators at several sizes/alignments is driven INTERACTIVELY (one op per line, the next op is
    chosen from the real allocator's answers); the transcript is then replayed by the extracted
    Coq model (coq/C11/driver) which must print the same offsets and the same internal state
    (arena/stack offsets, pool free list, heap bins + chunk walk) line by line.
Oracle: an independent shadow map kept here (live [offset,size,pattern]) checks the property
    itself on the implementation's answers: bounds, alignment, pairwise disjointness, pattern
    preservation across realloc, zeroing of alloc0/realloc0, pool/heap structural invariants
    read from the printed state, and 'release everything -> the largest initial request fits again'.
"""
import os
import re
import shutil
import subprocess
import vlib

ID = "C11"
CLAIM = True
MANIFEST_ENTRY = {
    "text": "proof, partial. THEOREMS (all closed under the global context) over executable models of lib/allocators: for ALL call histories with sizes 0..2^64-1 "
            "the arena, stack, pool and heap allocators never trip a check on valid calls (arena, heap) and keep the live blocks in bounds, aligned and "
            "pairwise disjoint; stack LIFO restores its offsets; the pool's free list and live chunks partition the buffer; the heap keeps tiling, exact bins, "
            "live = used chunks, no two adjacent free chunks, and is the fresh heap again once everything is released; realloc keeps "
            "min(old,new) bytes and alloc0/realloc0 zero exactly the new bytes (arena, heap). The heap theorems are stated on an abstract chunk-list model AND "
            "transferred to the memory-level model (header words, prev_adj/next/prev links, bins, NODE_COOKIE marks) by a proved refinement: every operation "
            "of the memory-level model simulates the abstract one (C11_heap_refinement). The refinement carries a mark invariant (no 16-aligned address "
            "other than a chunk header or the end node carries the used mark), from which: after any history dealloc (and realloc) of ANY non-nil pointer that is "
            "not a live block panics - double frees, pointers of an earlier generation, pointers into payloads, one past the end of the buffer "
            "(C11_heap_mem_invalid_free_reported, full strength after the repairs 9ef0717 and d9328b9). The size clause of the heap hypothesis is exactly the check of add_memory_region (room for two nodes, repair 23ac203) and the end node is "
            "16-aligned for every configuration (C11_heap_geometry), so the word-addressed memory of the model is exact (C11_heap_mem_writes_aligned). Every write of the memory-level heap goes to a header word of an old or new chunk, so no operation changes a word of a block that stays live (C11_heap_mem_payload_frame). The derived operations of Allocator_implement_interface (alloc0/realloc0/x*/span*/new/delete) are modelled "
            "generically over the primitives with theorems that they are the stated primitive calls; span counts and AlignedAllocator requests never wrap "
            "(C11_arena_span_in, C11_aligned_fits: full strength after the repairs 942989e, 532034f). TESTING ONLY (shadow-map oracle on the real allocators): "
            "heap/stack/pool payload contents at the memory level, AlignedAllocator over whole histories, the derived operations on the real code, release builds. "
            "The GC allocator is TESTED only (stream with collections enabled: garbage bursts, realloc growth in place across the pause threshold, pointers stored in the grown tail, collections inside alloc/realloc; oracle over the blocks reachable from the harness's roots) except for GC:reregister's in-place size update (C11_gc_reregister_size, tied to the scraped statement order). NOT COVERED: GeneralAllocator (libc), named in the statement; the collector itself is property C10. Models are tied to the code by regenerated "
            "constants and line-by-line correspondence of offsets and of the complete internal state.",
    "note": "trusted: Coq 8.16.1 kernel; the hand-written models (tied to /repo by regenerated constants and by differential correspondence of offsets and of the "
            "complete internal state after every operation, which is testing, not proof); extraction with ExtrOcamlBasic; OCaml/Nelua/Python harness glue. "
            "Payload bytes are byte functions separate from the header memory; the header memory is word-addressed (proved exact: every written word is 8-aligned, C11_heap_mem_writes_aligned); GeneralAllocator (libc) and GCAllocator (C10) are outside; "
            "release builds are not exercised.",
    "technique": "machine-checked proof in Coq over executable models (incl. a proved refinement memory-level -> abstract heap) + extracted-model/implementation "
                 "correspondence on interactive histories + shadow-map property oracle",
}
THEOREM_CLASSES = {
    "C11_arena_safe": "main", "C11_arena_realloc_preserves": "main",
    "C11_arena_alloc0_zeroes": "definitional", "C11_arena_realloc0_zeroes": "definitional",
    "C11_stack_safe": "main", "C11_stack_total": "main", "C11_stack_alloc_dealloc_restores": "corollary",
    "C11_pool_safe": "main", "C11_pool_total": "main",
    "C11_heap_safe": "main", "C11_heap_no_adjacent_free": "main", "C11_heap_release_all_restores": "main",
    "C11_heap_refinement": "main", "C11_heap_mem_safe": "corollary",
    "C11_heap_mem_invalid_free_reported": "main", "C11_heap_mem_invalid_free_reported_full": "corollary",
    "C11_heap_mem_invalid_realloc_reported": "corollary",
    "C11_heap_mem_payload_frame": "main", "C11_heap_mem_writes_aligned": "main", "C11_heap_geometry": "definitional",
    "C11_heap_deallocall_clears_iff_policy": "main", "C11_aligned_alloc_zero": "definitional",
    "C11_gc_reregister_size": "main", "C11_gc_reregister_size_iff_policy": "tripwire",
    "C11_heap_realloc_preserves": "main", "C11_heap_alloc0_zeroes": "definitional", "C11_heap_realloc0_zeroes": "definitional",
    "C11_iface_alloc0": "definitional", "C11_iface_xalloc": "definitional", "C11_iface_xrealloc": "definitional",
    "C11_iface_realloc0": "definitional", "C11_iface_spanalloc": "main", "C11_iface_spanrealloc": "definitional",
    "C11_iface_new": "definitional",
    "C11_arena_span_in": "main",
    "C11_aligned_arith": "main", "C11_aligned_alloc_spec": "main", "C11_aligned_fits": "main", "C11_aligned_fits_init": "corollary",
}
ALLOWED_AXIOMS = []
TRUSTED_BASE = [
    "coqc 8.16.1 kernel (vm_compute used for parameter facts and refutation witnesses; no native_compute)",
    "no axioms: every theorem of coq/C11/Properties.v is 'Closed under the global context'; models mirror lib/allocators after the repairs 484ce8f, 961d315, 942c78c, b8d094a, 942989e, 532034f, 9ef0717, d9328b9, 23ac203, ccd321a",
    "translator checks/C11.py:gen (regex scrape of ALLOC_ALIGN/MIN_ALLOC_SIZE/BIN_COUNT/BIN_MAX_LOOKUPS/NODE_COOKIE/HeapNode fields/get_bin_index constants in heap.nelua, the mark-clearing walk of HeapAllocatorT:deallocall as the boolean DEALLOCALL_CLEARS_MARKS, the statement order of GC:reregister's in-place branch in gc.nelua (item.size written before self:step()) as the boolean REREGISTER_SIZE_BEFORE_STEP, StackAllocHeader + static asserts in stack.nelua, default ALIGN in arena.nelua; typedefs.maxalign and pointer size probed through the real compiler)",
    "extraction: Require Extraction + ExtrOcamlBasic only; Z/positive/nat stay Coq inductives; no Extract Constant of our own",
    "ocaml/zutil.ml + coq/C11/driver.ml (line protocol, handle table, closures handing an instance's primitives to the extracted interface wrappers, printing of the model state), harness/C11/driver.nelua (calls the allocators, keeps the handle table, prints offsets and internal state read through the allocator records), OCaml 4.13.1, gcc, the Nelua compiler itself (the driver is compiled by it, default checked build)",
    "modelled rather than verified: the allocators are mirrored by hand in coq/C11/Model.v (arena/stack/pool), Heap.v (memory-level heap), HeapA.v (abstract heap), Iface.v (derived operations), Aligned.v; the tie is the line-by-line correspondence of offsets and internal state on every check. Heap.v -> HeapA.v is NOT trusted: it is the proved refinement of coq/C11/Refine*.v",
    "payload contents are byte functions separate from the allocator's own memory (arena a_bytes, heap hb_bytes); for the heap, that header writes never land in a live payload is the separate memory-level theorem C11_heap_mem_payload_frame (all writes of Heap.v go to header words of old/new chunks)",
    "GeneralAllocator (libc malloc/calloc/realloc/free) is outside the Coq models; of the GC allocator only the in-place branch of GC:reregister is modelled (coq/C11/GcRereg.v: item table as a node array, the collection inside self:step() as an arbitrary function on it that keeps the block's entry); the collector itself is property C10. The GC allocator's contract is TESTED by the stream of harness/C11/gcdriver.nelua",
    "harness/C11/gcdriver.nelua + the GcRunner oracle in checks/C11.py (object graph kept in Python; handles XOR-masked in memory the collector does not scan; glibc malloc decides whether a realloc grows in place)",
]
ASSUMPTIONS = [
    "the buffer is a real object: base > 0 and base + SIZE + ALIGN + header (+ MIN_ALLOC_SIZE for the heap) <= 2^64 (no address wrap)",
    "heap: the region passes the check of add_memory_region, alignment offset + 2*NODE <= SIZE (hcfg_ok states exactly that check, repair 23ac203)",
    "clients write only inside blocks they own (frame condition of the stack/pool theorems). The heap's memory-level model has no client writes: C11_heap_mem_invalid_free_reported says that the ALLOCATOR never leaves a used mark (next=1, prev=NODE_COOKIE) anywhere but at chunk headers and the end node; a client that writes that 16-byte pattern into its own payload can still forge a header (inherent to a cookie test)",
    "the heap's header memory is word-addressed (address -> 64-bit word). C11_heap_mem_writes_aligned proves, for every configuration, that all written words are 8-aligned (hence pairwise equal or disjoint: the picture is exact for a byte-addressed memory); reads are header words of 16-aligned nodes, and reads through invalid client pointers are 8-aligned too because get_ptr_node refuses pointers that are not 16-aligned",
    "correspondence is differential testing over generated histories, not a proof that model = code",
    "C11_gc_reregister_size assumes step_keeps: the collection that self:step() may run inside GC:reregister keeps the entry of the block being reallocated (a fact about property C10's collector - the block is referenced from the stack of realloc -, assumed here, not proved); the model covers the in-place branch only (no running flag, membytes accounting, root or moved branches). It is tied to the code by the scraped statement order and by the gc stream: for every in-place realloc observed, the extracted model - fed the item table reconstructed from the transcript and the observed survivors as its step - must predict the registered size the driver reads back",
    "checked (default) build: check()/bounds checks abort; release builds are not exercised",
]

M64 = 1 << 64


# --------------------------------------------------------------------------------------------
# (T) translator
# --------------------------------------------------------------------------------------------
def _need(rx, txt, what, flags=0):
    m = re.search(rx, txt, flags)
    if not m:
        raise RuntimeError("C11 gen: cannot find %s" % what)
    return m


def _strip_comments(src):
    """Nelua source without --[[ ]] / --[=[ ]=] blocks and -- line comments (so that commented-out code cannot satisfy a scrape)."""
    src = re.sub(r"--\[(=*)\[.*?\]\1\]", "", src, flags=re.S)
    return re.sub(r"--[^\n]*", "", src)


def gen(ctx):
    heap = vlib.repo_read("lib/allocators/heap.nelua")
    stack = vlib.repo_read("lib/allocators/stack.nelua")
    arena = vlib.repo_read("lib/allocators/arena.nelua")
    out = {}
    _need(r"local ALLOC_ALIGN: usize <comptime> = #\[typedefs\.maxalign\]#", heap, "ALLOC_ALIGN = typedefs.maxalign")
    rc, o, e = vlib.nelua(["--analyze", "-i", '## print("PROBE", typedefs.maxalign, primtypes.usize.size, primtypes.pointer.size)'])
    m = re.search(r"PROBE\s+(\d+)\s+(\d+)\s+(\d+)", o)
    if not m:
        raise RuntimeError("C11 gen: compiler probe of typedefs.maxalign failed: %s %s" % (o[-200:], e[-300:]))
    out["ALLOC_ALIGN"] = int(m.group(1))
    usize, psize = int(m.group(2)), int(m.group(3))
    if usize != 8 or psize != 8:
        raise RuntimeError("C11 gen: models assume 64-bit usize/pointers, probe says %d/%d" % (usize, psize))
    out["MIN_ALLOC_SIZE"] = int(_need(r"local MIN_ALLOC_SIZE: usize <comptime> = (\d+)", heap, "MIN_ALLOC_SIZE").group(1))
    out["BIN_COUNT"] = int(_need(r"local BIN_COUNT <comptime> = (\d+)", heap, "BIN_COUNT").group(1))
    out["BIN_MAX_LOOKUPS"] = int(_need(r"local BIN_MAX_LOOKUPS <comptime> = (\d+)", heap, "BIN_MAX_LOOKUPS").group(1))
    out["NODE_COOKIE"] = int(_need(r"local NODE_COOKIE: usize <comptime> = \(@usize\)\((0x[0-9A-Fa-f]+|\d+)\)", heap, "NODE_COOKIE").group(1), 0)
    rec = _need(r"local HeapNode: type = @record\{(.*?)\n\}", heap, "HeapNode record", re.S).group(1)
    fields = re.findall(r"^\s*(\w+)\s*:\s*([^,\n]+)", rec, re.M)
    if [f[0] for f in fields] != ["size", "prev_adj", "next", "prev"]:
        raise RuntimeError("C11 gen: HeapNode layout changed: %s" % fields)
    out["HEAP_NODE_SIZE"] = 8 * len(fields)
    gb = _need(r"local function get_bin_index\(size: usize\): uint32 <inline>(.*?)\nend", heap, "get_bin_index", re.S).group(1)
    a = _need(r"size <= \(1<<(\d+)\)", gb, "get_bin_index lower bound")
    b = _need(r"size >= 1<<\((\d+)\+\(BIN_COUNT<<0\)\)", gb, "get_bin_index upper bound")
    c = _need(r"return \((\d+) - clz\(\(@uint32\)\(size\)\)\)>>0", gb, "get_bin_index clz form")
    if a.group(1) != b.group(1):
        raise RuntimeError("C11 gen: get_bin_index uses two different minimum exponents")
    out["BIN_MIN_LOG"] = int(a.group(1))
    out["BIN_CLZ_BASE"] = int(c.group(1))
    hdr = _need(r"local StackAllocHeader: type = @record\{(.*?)\n\}", stack, "StackAllocHeader", re.S).group(1)
    hf = re.findall(r"^\s*(\w+)\s*:\s*(\w+)", hdr, re.M)
    if [f for f in hf] != [("prev_offset", "uint32"), ("curr_offset", "uint32")]:
        raise RuntimeError("C11 gen: StackAllocHeader layout changed: %s" % hf)
    out["STACK_HEADER_SIZE"] = 4 * len(hf)
    out["STACK_DEFAULT_ALIGN"] = int(_need(r"ALIGN = ALIGN or (\d+)", stack, "stack default ALIGN").group(1))
    out["STACK_MIN_ALIGN"] = int(_need(r"static_assert\(ALIGN >= (\d+)", stack, "stack minimum ALIGN").group(1))
    out["STACK_MAX_SIZE"] = int(_need(r"static_assert\(SIZE <= (0x[0-9a-fA-F]+|\d+)", stack, "stack maximum SIZE").group(1), 0)
    out["ARENA_DEFAULT_ALIGN"] = int(_need(r"ALIGN = ALIGN or (\d+)", arena, "arena default ALIGN").group(1))
    order = ["ARENA_DEFAULT_ALIGN", "STACK_DEFAULT_ALIGN", "STACK_MIN_ALIGN", "STACK_MAX_SIZE", "STACK_HEADER_SIZE",
             "ALLOC_ALIGN", "MIN_ALLOC_SIZE", "BIN_COUNT", "BIN_MAX_LOOKUPS", "NODE_COOKIE", "HEAP_NODE_SIZE",
             "BIN_MIN_LOG", "BIN_CLZ_BASE"]
    # discriminator of repair 9ef0717: does HeapAllocatorT:deallocall walk the chunks and clear their used marks (and the end node's)?
    dall = _need(r"function HeapAllocatorT:deallocall\(\): void(.*?)self\.initialized = false", _strip_comments(heap), "HeapAllocatorT:deallocall", re.S).group(1)
    walk = re.search(r"while\s+\(@usize\)\(node\)\s*<\s*heap_end\s+do(.*?)\n\s*end(.*)", dall, re.S)
    clears = bool(walk and re.search(r"node\.next\s*=\s*nilptr", walk.group(1)) and re.search(r"node\.prev\s*=\s*nilptr", walk.group(1))
                  and re.search(r"node\.next\s*=\s*nilptr", walk.group(2)) and re.search(r"node\.prev\s*=\s*nilptr", walk.group(2)))
    out["DEALLOCALL_CLEARS_MARKS"] = clears
    # statement order in GC:reregister, in-place branch: item.size is written BEFORE the first call that can run a collection (self:step()),
    # after which the item pointer obtained from items:peek may be stale (GC_rehash compacts the node array)
    gcsrc = _strip_comments(vlib.repo_read("lib/allocators/gc.nelua"))
    rr = _need(r"function GC:reregister\(.*?\n\s*if newptr == oldptr then\n(.*?)\n  else\b", gcsrc, "GC:reregister in-place branch", re.S).group(1)
    _need(r"self\.items:peek\(oldptr\)", rr, "items:peek in GC:reregister")
    wpos = re.search(r"item\.size\s*=\s*newsize", rr)
    spos = re.search(r"self:step\(\)|self:collect\(\)", rr)
    if not wpos:
        raise RuntimeError("C11 gen: GC:reregister no longer writes item.size = newsize in its in-place branch")
    size_first = bool(spos is None or wpos.start() < spos.start())
    out["REREGISTER_SIZE_BEFORE_STEP"] = size_first
    txt = "(* GENERATED by checks/C11.py from /repo/lib/allocators - do not edit *)\nFrom Coq Require Import ZArith.\n"
    for k in order:
        txt += "Definition %s : Z := %d%%Z.\n" % (k, out[k])
    txt += "Definition DEALLOCALL_CLEARS_MARKS : bool := %s.\n" % ("true" if clears else "false")
    txt += "Definition REREGISTER_SIZE_BEFORE_STEP : bool := %s.\n" % ("true" if size_first else "false")
    vlib.write_if_changed(os.path.join(vlib.coq_dir(ID), "Gen.v"), txt)
    return out


# --------------------------------------------------------------------------------------------
# implementation process
# --------------------------------------------------------------------------------------------
class Dead(Exception):
    pass


class Impl:
    def __init__(self, exe):
        self.exe = exe
        self.p = None
        self.info = {}
        self.start()

    def start(self):
        self.p = subprocess.Popen([self.exe], stdin=subprocess.PIPE, stdout=subprocess.PIPE, stderr=subprocess.PIPE,
                                  text=True, bufsize=1)
        self.p.stdin.write("infoall\n")
        self.p.stdin.flush()
        self.info = {}
        self.infolines = []
        while True:
            l = self.p.stdout.readline()
            if not l:
                raise RuntimeError("driver died during infoall: %s" % self.p.stderr.read()[-300:])
            l = l.rstrip("\n")
            if l == "end":
                break
            w = l.split()
            d = {"kind": w[2]}
            for kv in w[3:]:
                k, v = kv.split("=")
                d[k] = int(v)
            self.info[w[1]] = d
            self.infolines.append(l)

    def send(self, line):
        try:
            self.p.stdin.write(line + "\n")
            self.p.stdin.flush()
        except (BrokenPipeError, OSError):
            raise Dead(self.death())
        r = self.p.stdout.readline()
        if not r:
            raise Dead(self.death())
        return r.rstrip("\n")

    def death(self):
        try:
            self.p.stdin.close()
        except Exception:
            pass
        err = self.p.stderr.read()
        rc = self.p.wait()
        return "rc=%s %s" % (rc, err.strip()[-200:])

    def close(self):
        if self.p and self.p.poll() is None:
            try:
                self.p.stdin.close()
            except Exception:
                pass
            self.p.wait()


# --------------------------------------------------------------------------------------------
# the property oracle: an independent shadow map
# --------------------------------------------------------------------------------------------
def parse_heap_state(st):
    """'b6=152 b12=1048 ; 8.112.-.U 152.864.8.F.-.- ...' -> (bins{idx:off}, chunks[list of dict], ok)"""
    if st.strip() == "uninit":
        return None
    binpart, _, walk = st.partition(";")
    bins = {}
    for t in binpart.split():
        k, v = t.split("=")
        bins[int(k[1:])] = int(v)
    chunks = []
    corrupt = False
    for t in walk.split():
        if t == "corrupt":
            corrupt = True
            continue
        f = t.split(".")
        c = {"off": int(f[0]), "size": int(f[1]), "padj": None if f[2] == "-" else int(f[2]), "used": f[3] == "U"}
        if not c["used"]:
            c["next"] = None if f[4] == "-" else int(f[4])
            c["prev"] = None if f[5] == "-" else int(f[5])
        chunks.append(c)
    return {"bins": bins, "chunks": chunks, "corrupt": corrupt}


def bin_index(size, P):
    lo = P["BIN_MIN_LOG"]
    if size <= (1 << lo):
        return 0
    if size >= 1 << (lo + P["BIN_COUNT"]):
        return P["BIN_COUNT"] - 1
    return (size & 0xFFFFFFFF).bit_length() - 1 - lo     # floor(log2) - lo  (spec form of 28 - clz)


class Shadow:
    """Live blocks of one allocator instance + the checks of the property statement."""

    def __init__(self, name, info, P):
        self.name = name
        self.info = info
        self.kind = info["kind"]
        self.P = P
        self.live = {}          # handle -> dict(off,size,seed,plen)
        self.problems = []      # (what, detail)
        self.state = None
        self.base = info["base"]
        if self.kind in ("arena", "stack", "aligned"):
            self.cap = info["size"]
            self.align = info["align"]
        elif self.kind == "pool":
            self.cap = info["chunk"] * info["count"]
            self.align = 8
        else:
            self.cap = info["size"]
            self.align = P["ALLOC_ALIGN"]
            self.hs = (-self.base) % self.align              # offset of heap_start
            # repair 23ac203: the heap size is rounded down so that the end node is aligned
            self.hend = self.hs + (self.cap - self.hs - P["HEAP_NODE_SIZE"]) // P["ALLOC_ALIGN"] * P["ALLOC_ALIGN"]

    def bad(self, what, detail=""):
        self.problems.append((what, detail))

    # -- block checks -------------------------------------------------------------------------
    def check_new(self, h, off, size):
        if off < 0 or off + size > self.cap:
            self.bad("out-of-bounds", "block [%d,+%d) of handle %d leaves the %d byte buffer" % (off, size, h, self.cap))
        if (self.base + off) % self.align != 0:
            self.bad("misaligned", "block at offset %d (address %% %d = %d)" % (off, self.align, (self.base + off) % self.align))
        if self.kind == "pool" and off % self.info["chunk"] != 0:
            self.bad("misaligned", "pool block at offset %d is not a chunk start" % off)
        if size > 0:
            for g, b in self.live.items():
                if g != h and b["size"] > 0 and off < b["off"] + b["size"] and b["off"] < off + size:
                    self.bad("overlap", "block [%d,+%d) of handle %d overlaps live block [%d,+%d) of handle %d" %
                             (off, size, h, b["off"], b["size"], g))

    # -- one (op, response) pair -------------------------------------------------------------
    def apply(self, toks, resp, expect=None):
        op = toks[0]
        if " | " in resp:
            res, st = resp.split(" | ", 1)
        else:
            res, st = resp.rstrip(" |"), ""
        res = res.strip()
        rw = res.split()
        self.state = st
        ptr = None
        if rw and rw[0].isdigit():
            ptr = int(rw[0])
        zflag = [x for x in rw if x in ("z0", "z1")]
        if op == "reset" or op == "deallocall":
            self.live.clear()
        elif op in ("alloc", "alloc0", "spanalloc", "spanalloc0", "xalloc", "xalloc0", "new"):
            h = int(toks[1])
            n = 24 if op == "new" else int(toks[2])
            if op.startswith("span"):
                # the bytes the returned span CLAIMS: element count reported by the allocator times #T (exact, no wrap)
                cnt = [x for x in rw if x.startswith("n") and x[1:].isdigit()]
                n = int(cnt[0][1:]) * 4 if cnt else (n * 4) % M64
                if ptr is not None and cnt and int(cnt[0][1:]) != int(toks[2]):
                    self.bad("span-count", "spanalloc(%s) returned a span of %s elements" % (toks[2], cnt[0][1:]))
            if op in ("xalloc", "xalloc0", "new") and ptr is None and n > 0:
                self.bad("x-returned-nil", "%s returned nil instead of raising 'out of memory'" % op)
            self.live.pop(h, None)
            if ptr is not None and op != "new" and int(toks[2]) == 0:
                # Allocator interface (allocator.nelua): "If size is zero or the operation fails, then returns nilptr"
                self.bad("alloc-zero", "%s(0) returned a pointer (offset %d): a zero size allocation must return nilptr" % (op, ptr))
            if ptr is not None:
                self.check_new(h, ptr, n)
                self.live[h] = {"off": ptr, "size": n, "seed": None, "plen": 0}
                if (op.endswith("0") or op == "new") and 0 < n < (1 << 40) and zflag != ["z1"]:
                    self.bad("not-zeroed", "%s of %d bytes at offset %d is not all zero" % (op, n, ptr))
            elif expect == "nonnil":
                self.bad("lost-memory", "after releasing everything %s(%d) fails although it succeeds on a fresh allocator" % (op, n))
        elif op in ("dealloc", "spandealloc", "delete"):
            self.live.pop(int(toks[1]), None)
        elif op in ("realloc", "realloc0", "spanrealloc", "spanrealloc0", "xrealloc"):
            h, n = int(toks[1]), int(toks[2])
            if op == "xrealloc" and ptr is None and n > 0:
                self.bad("x-returned-nil", "xrealloc returned nil instead of raising 'out of memory'")
            old = self.live.get(h)
            overflow = False
            if op.startswith("span"):
                cnt = n
                n = cnt * 4          # exact: the bytes the new span would claim
                got = [x for x in rw if x.startswith("n") and x[1:].isdigit()]
                if n >= M64:
                    # not representable: the span has to come back unchanged (or empty when it was empty)
                    oldcnt = old["size"] // 4 if old is not None else 0
                    if got and int(got[0][1:]) == cnt and cnt != oldcnt:
                        self.bad("span-count", "%s(%d): count * #T overflows usize, yet a span of %d elements came back" % (op, cnt, cnt))
                    else:
                        overflow = True     # correctly refused: nothing changes ...
                        if old is not None and old["size"] // 4 == 0:
                            # ... except that spanrealloc of an EMPTY span is a fresh spanalloc: the refused request comes back as the
                            # empty span (nil, 0) and the zero-size block the handle held is dropped (both drivers overwrite the handle)
                            self.live.pop(h, None)
            if overflow:
                pass
            elif op.startswith("span") and old is not None and old["size"] // 4 == 0 and n > 0:
                # Allocator:spanrealloc on an empty span is a fresh spanalloc: the (zero-size) old block is dropped
                self.live.pop(h, None)
                old = None
            if overflow:
                if expect == "nonnil":
                    self.bad("lost-memory", "%s(%d) fails" % (op, n))
            elif n == 0:
                self.live.pop(h, None)
                if ptr is not None and old is not None:
                    self.bad("realloc-zero", "realloc to 0 returned a pointer")
                elif ptr is not None:       # realloc(nil,0) = alloc(0): must be nilptr; both drivers drop the handle
                    self.bad("alloc-zero", "%s(nilptr, 0) returned a pointer (offset %d): a zero size allocation must return nilptr" % (op, ptr))
                    self.check_new(h, ptr, 0)
            elif ptr is None or (op.startswith("span") and old is not None and ("n%d" % (n // 4)) not in rw):
                if expect == "nonnil":
                    self.bad("lost-memory", "%s(%d) fails" % (op, n))
            else:
                self.live.pop(h, None)
                self.check_new(h, ptr, n)
                nb = {"off": ptr, "size": n, "seed": None, "plen": 0}
                if old is not None and old["seed"] is not None:
                    nb["seed"] = old["seed"]
                    nb["plen"] = min(old["plen"], n)
                self.live[h] = nb
                osz = old["size"] if old else 0
                if op.endswith("0") and n > osz and zflag != ["z1"]:
                    self.bad("not-zeroed", "%s grew %d -> %d at offset %d but the new bytes are not all zero" % (op, osz, n, ptr))
        elif op == "fill":
            b = self.live.get(int(toks[1]))
            if b:
                b["seed"] = int(toks[2])
                b["plen"] = b["size"]
        elif op == "verify":
            b = self.live.get(int(toks[1]))
            if b and b["seed"] is not None:
                k = int(res[1:])
                if k < b["plen"]:
                    self.bad("contents-changed", "handle %d at offset %d: byte %d of the %d bytes that must be preserved changed" %
                             (int(toks[1]), b["off"], k, b["plen"]))
        self.check_state(op, toks)
        p = self.problems
        self.problems = []
        return p

    # -- internal state as printed by the driver -------------------------------------------
    def check_state(self, op, toks):
        st = self.state
        if self.kind in ("arena", "stack", "aligned"):
            try:
                prev, curr = [int(x) for x in st.split()]
            except ValueError:
                return
            self.prev, self.curr = prev, curr
            if op in ("deallocall", "reset") and (prev, curr) != (0, 0):
                self.bad("offsets-not-reset", "after %s offsets are %d %d" % (op, prev, curr))
            if self.kind == "stack" and not self.live and op == "dealloc" and (prev, curr) != (0, 0):
                self.bad("lifo-not-restored", "all blocks released in LIFO order but offsets are %d %d" % (prev, curr))
        elif self.kind == "pool":
            m = re.match(r"(\d) (\S+):(.*)$", st)
            if not m:
                return
            init = m.group(1) == "1"
            free = m.group(3).split()
            self.init = init
            if "bad" in free or "cycle" in free:
                self.bad("pool-freelist-corrupt", st)
                return
            free = [int(x) for x in free]
            self.free = free
            livechunks = [b["off"] // self.info["chunk"] for b in self.live.values()]
            if len(set(free)) != len(free):
                self.bad("pool-freelist-dup", st)
            if set(free) & set(livechunks):
                self.bad("pool-live-chunk-on-freelist", "chunks %s are live and on the free list (%s)" % (sorted(set(free) & set(livechunks)), st))
            if (init or free) and len(set(free) | set(livechunks)) != self.info["count"]:
                self.bad("pool-lost-chunk", "free %s + live %s do not cover the %d chunks" % (free, sorted(livechunks), self.info["count"]))
        else:
            hp = parse_heap_state(st)
            self.heap = hp
            if hp is None:
                return
            self.check_heap(hp, op, toks)

    def check_heap(self, hp, op, toks):
        P = self.P
        N = P["HEAP_NODE_SIZE"]
        ch = hp["chunks"]
        if hp["corrupt"] or not ch:
            self.bad("heap-walk-corrupt", self.state[:300])
            return
        # tiling + prev_adj links
        if ch[0]["off"] != self.hs or ch[0]["padj"] is not None:
            self.bad("heap-tiling", "first chunk at %d (heap starts at %d)" % (ch[0]["off"], self.hs))
        for a, b in zip(ch, ch[1:]):
            if a["off"] + N + a["size"] != b["off"]:
                self.bad("heap-tiling", "chunk %d+%d does not end where %d starts" % (a["off"], a["size"], b["off"]))
            if b["padj"] != a["off"]:
                self.bad("heap-prev-adj", "chunk %d has prev_adj %s, predecessor is %d" % (b["off"], b["padj"], a["off"]))
        last = ch[-1]
        if last["off"] != self.hend or last["size"] != 0 or not last["used"]:
            self.bad("heap-end-node", "end node %s" % last)
        body = ch[:-1]
        # used chunks = live blocks
        used = {c["off"] + N: c for c in body if c["used"]}
        lv = {b["off"]: b for b in self.live.values()}
        if set(used) != set(lv):
            self.bad("heap-used-vs-live", "used chunks at %s, live blocks at %s" % (sorted(used), sorted(lv)))
        for o, b in lv.items():
            if o in used and used[o]["size"] < b["size"]:
                self.bad("heap-chunk-too-small", "block %d+%d sits in a chunk of %d bytes" % (o, b["size"], used[o]["size"]))
        # bins hold exactly the free chunks, each in its bin, doubly linked
        free = {c["off"]: c for c in body if not c["used"]}
        seen = set()
        for bi, head in hp["bins"].items():
            prev = None
            cur = head
            steps = 0
            while cur is not None and steps <= len(free) + 1:
                c = free.get(cur)
                if c is None:
                    self.bad("heap-bin-not-free", "bin %d lists %d which is not a free chunk" % (bi, cur))
                    break
                if cur in seen:
                    self.bad("heap-bin-dup", "chunk %d is listed twice" % cur)
                    break
                seen.add(cur)
                if bin_index(c["size"], P) != bi:
                    self.bad("heap-wrong-bin", "chunk %d size %d is in bin %d, belongs in %d" % (cur, c["size"], bi, bin_index(c["size"], P)))
                if c["prev"] != prev:
                    self.bad("heap-bin-links", "chunk %d prev=%s, expected %s" % (cur, c["prev"], prev))
                prev = cur
                cur = c["next"]
                steps += 1
        if seen != set(free):
            self.bad("heap-free-not-binned", "free chunks %s are in no bin" % sorted(set(free) - seen))
        # no two adjacent free chunks
        for a, b in zip(body, body[1:]):
            if not a["used"] and not b["used"]:
                self.bad("heap-adjacent-free", "chunks %d and %d are both free" % (a["off"], b["off"]))
                break


# --------------------------------------------------------------------------------------------
# history generation (interactive)
# --------------------------------------------------------------------------------------------
class Runner:
    """Runs one history on the implementation, keeps the transcript for the model, applies the oracle."""

    def __init__(self, impl, name, P, rng=None):
        self.impl = impl
        self.name = name
        self.P = P
        self.sh = Shadow(name, impl.info[name], P)
        self.lines = []        # (line, response) of ops that the model also executes
        self.alllines = []     # every line sent (for replay)
        self.problems = []
        self.dead = None

    def do(self, text, expect=None):
        line = "%s %s" % (self.name, text)
        self.alllines.append(line)
        try:
            resp = self.impl.send(line)
        except Dead as d:
            self.dead = (len(self.alllines) - 1, str(d))
            raise
        toks = text.split()
        if toks[0] not in ("fill", "verify"):
            self.lines.append((line, resp))
        pr = self.sh.apply(toks, resp, expect)
        for what, detail in pr:
            self.problems.append((what, detail, len(self.alllines) - 1))
        return resp


def pick_size(kind, sh, rng, P, for_realloc=None):
    return min(max(_pick_size(kind, sh, rng, P, for_realloc), 0), M64 - 1)


def _pick_size(kind, sh, rng, P, for_realloc=None):
    """Sizes: 0, 1, align+-1, chunk/bin boundaries, capacity+-1, 2^63, just below the wrap-around zone."""
    r = rng.random()
    if kind == "aligned":
        # like the arena it wraps, plus the zone where size + #pointer + ALIGN - 1 would wrap (repair 532034f)
        v = _pick_size("arena", sh, rng, P)
        q = rng.random()
        if q < .3:
            v = max(1, sh.cap - getattr(sh, "curr", 0) - 8 - sh.align + rng.choice([0, 1, 2, -1, 7, 8, sh.align, -sh.align]))
        elif q < .36:
            v = M64 - 8 - sh.align + rng.choice([-1, 0, 1, 2, 7, 8, sh.align - 1, sh.align, sh.align + 7])
        # (size 0 stays out of the random aligned streams only while an 'aligned(...): alloc 0' finding is open)
        return min(max(v, 1 if AVOID_ALIGNED_ZERO else 0), M64 - 1)
    if kind in ("arena", "stack"):
        A, S = sh.align, sh.cap
        hdr = P["STACK_HEADER_SIZE"] if kind == "stack" else 0
        rem = S - getattr(sh, "curr", 0)
        if r < .45:
            return rng.randint(1, 3 * A + 2)
        if r < .60:
            return max(1, rng.choice([A - 1, A, A + 1, 2 * A - 1, 2 * A, 2 * A + 1]))
        if r < .80:
            return max(1, rem - hdr - rng.choice([0, 1, -1, A, A - 1, A + 1, 2 * A, hdr, rem // 2, rem // 3]))
        if r < .88:
            return max(1, S + rng.choice([0, 1, -1, -A, -hdr, -hdr - A, -hdr - 1]))
        if r < .92:
            return 0
        nowrap = M64 - S - A - hdr - 1
        cur = getattr(sh, "curr", 0)
        return rng.choice([1 << 63, (1 << 63) + 1, (1 << 63) - 1, 1 << 32, (1 << 32) - 1, nowrap, nowrap - 1, nowrap - rng.randrange(64),
                           M64 - 1, M64 - 8, M64 - A, M64 - cur, M64 - cur - 1, M64 - cur + 8, M64 - cur - hdr, M64 - cur - hdr - A,
                           M64 - rng.randrange(1, S + 2 * A + 16), M64 - S, M64 - S + 1])
    if kind == "pool":
        C = sh.info["chunk"]
        return rng.choice([1, 1, C, C, C - 1, C, rng.randint(1, C), rng.randint(1, C), C + 1, 0, 1 << 63, M64 - 1, 2 * C])
    # heap
    N, AL, MIN = P["HEAP_NODE_SIZE"], P["ALLOC_ALIGN"], P["MIN_ALLOC_SIZE"]
    hp = getattr(sh, "heap", None)
    if hp and (hp["corrupt"] or len(hp["chunks"]) < 2):
        hp = None
    free = [c["size"] for c in hp["chunks"][:-1] if not c["used"]] if hp else []
    if for_realloc is not None and hp and r < .45:
        # aim at the grow-in-place / split thresholds of realloc
        b = for_realloc
        cs = [c for c in hp["chunks"] if c["off"] + N == b["off"]]
        if cs and hp["chunks"].index(cs[0]) + 1 < len(hp["chunks"]):
            i = hp["chunks"].index(cs[0])
            csz = cs[0]["size"]
            nx = hp["chunks"][i + 1]
            tot = csz + N + nx["size"] if not nx["used"] else csz
            t = rng.choice([csz, tot])
            return max(1, t + rng.choice([0, 1, -1, -AL, -AL + 1, -N - MIN, -N - MIN - 1, -N - MIN + 1, -N - MIN - AL, AL, -2 * AL, 17]))
    if r < .35:
        return rng.randint(1, 200)
    if r < .55 and free:
        F = rng.choice(free)
        return max(1, F + rng.choice([0, 1, -1, -AL, -AL + 1, -N, -N - MIN, -N - MIN + 1, -N - MIN - 1, -N - MIN - AL, -N - MIN - AL + 1, -2 * N, -F // 2, AL]))
    if r < .70:
        k = rng.randint(4, max(5, sh.cap.bit_length()))
        return max(1, (1 << k) + rng.choice([0, 1, -1, -AL, -AL + 1, -AL - 1, -N, AL]))
    if r < .80:
        return max(1, sh.cap + rng.choice([0, 1, -1, -N, -2 * N, -2 * N - AL, -3 * N]))
    if r < .84:
        return 0
    if r < .90:
        return rng.choice([1 << 63, (1 << 63) + 1, M64 - AL, M64 - N - AL + 1, M64 - N - AL, M64 - N - AL - 1, M64 - N - AL - 2, M64 - 2 * N, 1 << 32,
                           (1 << 27) - 16, 1 << 27, M64 - 1, M64 - 8, M64 - 15, M64 - 16, M64 - 17, M64 - N, M64 - N - 1, M64 - rng.randrange(1, 100)])
    return rng.randint(1, max(2, sh.cap // 4))


def max_initial_request(sh, P):
    if sh.kind == "arena":
        return sh.cap - ((-sh.base) % sh.align)
    if sh.kind == "aligned":
        return sh.cap - ((-sh.base) % sh.info["ialign"]) - (8 + sh.align - 1)
    if sh.kind == "stack":
        first = (-(sh.base + P["STACK_HEADER_SIZE"])) % sh.align + P["STACK_HEADER_SIZE"]
        return sh.cap - first
    if sh.kind == "pool":
        return sh.info["chunk"]
    s0 = (sh.cap - sh.hs - P["HEAP_NODE_SIZE"]) // P["ALLOC_ALIGN"] * P["ALLOC_ALIGN"] - P["HEAP_NODE_SIZE"]       # size of the initial free chunk
    return (s0 + P["HEAP_NODE_SIZE"]) // P["ALLOC_ALIGN"] * P["ALLOC_ALIGN"] - P["HEAP_NODE_SIZE"]


def run_history(R, rng, nops, style):
    """One random history on instance R.name.  style in {mixed, lifo, fifo, realloc, churn}."""
    sh = R.sh
    kind = sh.kind
    P = R.P
    R.do("reset")
    if rng.random() < (.25 if kind == "pool" else .05):
        R.do("deallocall")          # before any alloc (pool: before lazy initialisation)
    free_h = list(range(64))
    order = []          # handles in allocation order (those currently non-nil)
    seedc = [rng.randrange(1, 250)]

    def fresh():
        return free_h.pop(rng.randrange(len(free_h))) if free_h else None

    def after_new(h):
        if h in sh.live and sh.live[h]["size"] > 0 and sh.live[h]["size"] <= 1 << 21:
            seedc[0] = (seedc[0] * 7 + 3) % 251
            R.do("fill %d %d" % (h, seedc[0]))
        if h in sh.live and h not in order:
            order.append(h)

    def release(h):
        if h in sh.live and sh.live[h]["seed"] is not None:
            R.do("verify %d %d" % (h, sh.live[h]["seed"]))
        R.do("dealloc %d" % h)
        if h in order:
            order.remove(h)
        free_h.append(h)

    def pick_victim():
        if not order:
            return None
        if kind == "stack" or style == "lifo":
            return order[-1]
        if style == "fifo":
            return order[0]
        return rng.choice(order)

    for _ in range(nops):
        if R.problems:
            return          # the oracle has a failing input: stop here, the allocator state may be corrupt
        r = rng.random()
        w_alloc = {"mixed": .45, "lifo": .5, "fifo": .5, "realloc": .3, "churn": .4}[style]
        w_real = {"mixed": .2, "lifo": .1, "fifo": .1, "realloc": .45, "churn": .15}[style]
        if r < w_alloc or not order:
            h = fresh()
            if h is None:
                continue
            n = pick_size(kind, sh, rng, P)
            opn = rng.choice(["alloc", "alloc", "alloc", "alloc0", "alloc0", "spanalloc", "spanalloc0", "realloc", "realloc0"]) if kind != "pool" else rng.choice(["alloc", "alloc", "alloc0", "realloc"])
            if opn.startswith("span"):
                if n < (1 << 40):
                    n = max(1, n // 4)
                elif rng.random() < .5:
                    n = n // 4
                else:
                    # the zone where count * #T would wrap (repair 942989e): must come back as the empty span
                    n = rng.choice([n, (M64 - 1) // 4 + 1, (M64 - 1) // 4 + 2, (1 << 62) + 1, (1 << 62) + rng.randrange(1, 64), (1 << 63) + 2,
                                    M64 - 1, (M64 - 1) // 4, M64 // 4 + max(1, (sh.cap - getattr(sh, "curr", 0)) // 4)])
            R.do("%s %d %d" % (opn, h, n))
            if h in sh.live:
                after_new(h)
            else:
                free_h.append(h)
        elif r < w_alloc + w_real:
            h = rng.choice(order) if kind != "stack" or rng.random() < .3 else order[-1]
            b = sh.live[h]
            if b["seed"] is not None and rng.random() < .5:
                R.do("verify %d %d" % (h, b["seed"]))
            n = pick_size(kind, sh, rng, P, for_realloc=b)
            if rng.random() < .3:
                n = max(1, b["size"] + rng.choice([-1, 1, -b["size"] // 2, b["size"], 0, 7, -7, 16, -16]))
            if n == 0 and kind == "stack" and h != order[-1]:
                n = 1          # realloc(p,0) is a dealloc: must stay LIFO on the stack (precondition)
            sp = b["size"] % 4 == 0 and rng.random() < .25 and kind != "pool"
            opn = rng.choice(["realloc", "realloc0"])
            if sp:
                opn = "span" + opn
                n = n // 4
                if rng.random() < .12:
                    # count * #T would wrap: the span must come back unchanged
                    n = rng.choice([(M64 - 1) // 4 + 1, (1 << 62) + 1, (1 << 62) + max(1, b["size"] // 4), (1 << 62) + rng.randrange(1, 64), M64 - 1])
                if n == 0 and kind == "stack" and h != order[-1]:
                    n = 1
            R.do("%s %d %d" % (opn, h, n))
            if h in sh.live:
                b = sh.live[h]
                if b["seed"] is not None:
                    R.do("verify %d %d" % (h, b["seed"]))
                if rng.random() < .6:
                    after_new(h)
            else:
                if h in order:
                    order.remove(h)
                free_h.append(h)
        elif r < .97:
            h = pick_victim()
            release(h)
        else:
            for h in list(order):
                b = sh.live.get(h)
                if b and b["seed"] is not None and rng.random() < .3:
                    R.do("verify %d %d" % (h, b["seed"]))
            R.do("deallocall")
            free_h[:] = list(range(64))
            order[:] = []
    if R.problems:
        return
    # finale: verify everything, release everything, the largest initial request must fit again
    for h in list(order):
        b = sh.live.get(h)
        if b and b["seed"] is not None:
            R.do("verify %d %d" % (h, b["seed"]))
    if kind in ("arena", "aligned"):
        R.do("deallocall")
    elif kind == "stack":
        for h in reversed(list(order)):
            R.do("dealloc %d" % h)
    else:
        hs = list(order)
        rng.shuffle(hs)
        for h in hs:
            R.do("dealloc %d" % h)
    order[:] = []
    mx = max_initial_request(sh, P)
    if kind == "pool":
        for i in range(sh.info["count"]):
            R.do("alloc %d %d" % (100 + i, mx), expect="nonnil")
        R.do("alloc 99 %d" % mx)
        if 99 in sh.live:
            R.problems.append(("pool-overcommit", "pool of %d chunks satisfied %d allocations" % (sh.info["count"], sh.info["count"] + 1), len(R.alllines) - 1))
    elif kind == "heap" and mx <= 0:
        pass
    elif kind == "heap":
        R.do("alloc 100 %d" % mx, expect="nonnil")
        R.do("alloc 101 1")
        if 100 in sh.live and 101 in sh.live:
            R.problems.append(("heap-overcommit", "a full-size block and another block are both live", len(R.alllines) - 1))
    else:
        R.do("alloc 100 %d" % mx, expect="nonnil")
        R.do("alloc 101 1")
        if 100 in sh.live and 101 in sh.live:
            R.problems.append(("overcommit", "a full-size block and another block are both live", len(R.alllines) - 1))


# --------------------------------------------------------------------------------------------
# histories of the thirteen repaired defects (replayed every run, must pass) and scripted precondition-violating histories
# --------------------------------------------------------------------------------------------
BIG = M64 - 8
# each was a known finding until the fix commits 484ce8f / 961d315 / 942c78c / b8d094a / 942989e / 532034f / 9ef0717 / d9328b9 / 23ac203 / ccd321a; the text says what used to fail
REGRESSIONS = [
    # key, instance, ops, what used to fail
    ("arena(64,8): alloc 16; alloc 18446744073709551608; alloc 8", "a0",
     ["alloc 0 16", "alloc 1 %d" % BIG, "alloc 2 8"],
     "arena offset+size wraps mod 2^64: alloc(2^64-8) succeeds and the next block overlaps the first"),
    ("stack(64,8): alloc 16; alloc 18446744073709551608; alloc 8", "s0",
     ["alloc 0 16", "alloc 1 %d" % BIG, "alloc 2 8"],
     "stack offset+size wraps mod 2^64: alloc(2^64-8) succeeds, later blocks overlap"),
    ("arena(64,8): alloc 8; alloc 0; alloc 8; dealloc #1; alloc 8", "a0",
     ["alloc 0 8", "alloc 1 0", "alloc 2 8", "dealloc 1", "alloc 3 8"],
     "arena alloc(0) returns a non-nil zero-size block; freeing it rewinds over a later live block"),
    ("arena(64,8): alloc 64; alloc 0", "a0",
     ["alloc 0 64", "alloc 1 0"],
     "arena alloc(0) on a full arena aborts with 'array index: position out of bounds' (checked build)"),
    ("pool(8x4): deallocall; alloc x5", "p0",
     ["deallocall", "alloc 0 8", "alloc 1 8", "alloc 2 8", "alloc 3 8", "alloc 4 8"],
     "pool deallocall before the first alloc leaves initialized=false: the exhausted pool is re-linked and hands chunk 0 out twice"),
    ("heap(1024): alloc 18446744073709551608", "h0",
     ["alloc 0 %d" % BIG],
     "heap size+header alignment wraps mod 2^64: alloc(2^64-8) returns a 0-byte chunk instead of nil"),
    ("heap(65536): alloc 1000; realloc 100; dealloc; alloc 65000", "h1",
     ["alloc 0 1000", "realloc 0 100", "dealloc 0", "alloc 1 65000 !"],
     "heap realloc-shrink does not coalesce the split remainder with a free successor: memory is lost to fragmentation"),
    # repaired by 942989e / 532034f / 9ef0717
    ("arena(64,8): spanalloc uint32 x 4611686018427387905", "a0", ["spanalloc 0 4611686018427387905", "alloc 1 8"],
     "Allocator:spanalloc computed size * #T without an overflow test: spanalloc(@uint32, 2^62+1) asked the allocator for 4 bytes and returned a span of 2^62+1 elements"),
    ("aligned(arena(1024,8),64): alloc 18446744073709551608", "g0", ["alloc 0 18446744073709551608", "alloc 1 8"],
     "AlignedAllocator:alloc computed size + #pointer + ALIGN - 1 without an overflow test: alloc(2^64-8) asked the wrapped allocator for 63 bytes and returned a non-nil pointer"),
    # the last op must now be REPORTED (the process aborts there, the model panics there): 5th field True
    ("heap(1024): alloc 100; alloc 50; deallocall; alloc 400; rawdealloc 184; alloc 8", "h0",
     ["alloc 0 100", "alloc 1 50", "deallocall", "alloc 2 400", "rawdealloc 184"],
     "HeapAllocatorT:deallocall left the NODE_COOKIE marks of the old chunks in the buffer: the stale pointer of the previous generation passed the cookie test, dealloc linked garbage into a bin and the next alloc overlapped a live block",
     True),
    # repaired by d9328b9 (the last op must be reported)
    ("heap(200): alloc 8; dealloc #0; rawdealloc 200; alloc 190", "h3",
     ["alloc 0 8", "dealloc 0", "rawdealloc 200"],
     "Heap:dealloc accepted the one-past-the-end pointer of the buffer: the end sentinel node carries the used mark (next=1, prev=NODE_COOKIE), so "
     "get_ptr_node(buffer+SIZE) succeeded whenever the sentinel is 16-aligned; dealloc merged the sentinel into the last free chunk (writing 8 bytes "
     "beyond the buffer) and the next alloc handed out a block that ends beyond the buffer",
     True),
    # repaired by 23ac203 (the first use must be REPORTED: 'heap region size is too small')
    ("heap(48): alloc 100", "x0", ["alloc 0 100"],
     "Heap:add_memory_region only checked that the region holds ONE node but places two: for a region of offset+32 .. offset+63 bytes the size of "
     "the start node underflowed to about 2^64 and HeapAllocator(48):alloc(100) returned a 100-byte block at offset 40 of the 48-byte buffer",
     True),
    # repaired by ccd321a
    ("aligned(arena(1024,8),64): alloc 0", "g0", ["alloc 0 0", "realloc 1 0", "alloc 2 953 !"],
     "AlignedAllocator:alloc(0) returned a non-nil pointer although its own documentation and the Allocator interface say 'If size is zero or the "
     "operation fails, then returns nilptr': the wrapped allocator was asked for #pointer + ALIGN - 1 bytes that nobody can use, and realloc(nilptr, 0, 0) "
     "returned a pointer too"),
]

# defects of the unchanged tree that are still open: replayed every run, reported under their exact key
# (listed in known_findings/C11.json; proposed repair in harness/C11/proposed_repairs/)
KNOWN_DEFECTS = []
AVOID_ALIGNED_ZERO = any(k.startswith("aligned(") and k.endswith(": alloc 0") for k, _, _, _ in KNOWN_DEFECTS)

# undefined behaviour visible under -fsanitize=alignment only (harness/C11/ubprobe.nelua); repaired by 23ac203, the probe must stay clean
UB_KEY = "regression:heap(1001): alloc 8 [-fsanitize=alignment]"
UB_WHAT = ("repaired defect is back: Heap:add_memory_region places the end node at heap_start + (region_size - offset - #HeapNode) without rounding: for a SIZE that is not a "
           "multiple of 8 (HeapAllocator(1001)) the end node is not 8-aligned and every access to it (set_used, prev_adj, is_used in dealloc/realloc) "
           "is a misaligned member access, undefined behaviour in the generated C")

# scripted precondition-violating histories: (name, instance, ops, must_panic_at_last_op)
VIOLATING = [
    ("heap double free", "h0", ["alloc 0 100", "alloc 1 50", "dealloc 0", "rawdealloc 40"], True),
    ("heap double free after coalesce with prev", "h0", ["alloc 0 100", "alloc 1 50", "alloc 2 50", "dealloc 0", "dealloc 1", "rawdealloc 184"], True),
    ("heap double free after coalesce with next", "h0", ["alloc 0 100", "alloc 1 50", "alloc 2 50", "dealloc 1", "dealloc 0", "rawdealloc 184"], True),
    ("heap double free of the only block", "h2", ["alloc 0 64", "dealloc 0", "rawdealloc 40"], True),
    ("heap foreign pointer (misaligned)", "h0", ["alloc 0 100", "rawdealloc 44"], True),
    ("heap foreign pointer (inside payload)", "h0", ["alloc 0 100", "rawdealloc 56"], True),
    ("heap realloc of freed pointer", "h0", ["alloc 0 100", "dealloc 0", "rawrealloc 40 10 100"], True),
    ("heap realloc of the one-past-the-end pointer", "h3", ["alloc 0 8", "rawrealloc 200 16 8"], True),
    ("heap dealloc of the one-past-the-end pointer, last chunk used", "h3", ["alloc 0 100", "rawdealloc 200"], True),
    ("arena foreign pointer (beyond buffer)", "a0", ["alloc 0 8", "rawdealloc 64"], True),
    ("arena foreign pointer (misaligned)", "a0", ["alloc 0 8", "rawdealloc 3"], True),
    ("arena foreign pointer (in range, aligned)", "a0", ["alloc 0 8", "alloc 1 8", "rawdealloc 16"], False),
    ("stack out of order dealloc", "s0", ["alloc 0 8", "alloc 1 8", "dealloc 0"], True),
    ("stack realloc of foreign pointer", "s0", ["alloc 0 8", "rawrealloc 3 8 8"], True),
    ("pool foreign pointer (not a chunk start)", "p1", ["alloc 0 16", "rawdealloc 4"], True),
    ("pool foreign pointer (beyond buffer)", "p1", ["alloc 0 16", "rawdealloc 256"], True),
    # the x* variants and new() raise 'out of memory' instead of returning nil
    ("arena xalloc beyond capacity", "a0", ["xalloc 0 16", "xalloc 1 65"], True),
    ("arena xalloc0 fits exactly", "a0", ["xalloc0 0 64"], False),
    ("stack xrealloc of an older block cannot grow", "s0", ["xalloc 0 8", "alloc 1 8", "xrealloc 0 16"], True),
    ("pool new() on an exhausted pool", "p4", ["alloc 0 16", "new 1"], True),
    ("heap xalloc0 beyond capacity", "h0", ["xalloc0 0 100", "xalloc0 1 2000"], True),
    ("heap xrealloc to 2^64-1", "h0", ["xalloc 0 100", "xrealloc 0 18446744073709551615"], True),
    ("heap new/delete", "h2", ["new 0", "new 1", "delete 0", "xrealloc 1 100", "delete 1", "xalloc 2 4016"], False),
    ("arena xalloc(0) returns nil without raising", "a1", ["xalloc 0 0", "xalloc0 1 0", "new 2", "delete 2"], False),
]


def run_scripted(exe, inst, ops, P):
    """Fresh process; returns (Runner, died_at or None, death message)."""
    impl = Impl(exe)
    R = Runner(impl, inst, P)
    died = None
    msg = ""
    try:
        R.do("reset")
        for o in ops:
            if o.endswith(" !"):
                R.do(o[:-2], expect="nonnil")
            else:
                R.do(o)
    except Dead as d:
        died = len(R.alllines) - 1
        msg = str(d)
    impl.close()
    return R, impl.infolines, died, msg


def run_model(driver, infolines, lines):
    text = "\n".join(list(infolines) + list(lines)) + "\n"
    rc, out, err = vlib.sh([driver], input=text, timeout=3000)
    return rc, out.split("\n"), err


def strip_impl(resp):
    return re.sub(r" z[01]", "", resp)



# --------------------------------------------------------------------------------------------
# GC allocator stream (harness/C11/gcdriver.nelua): the allocator-contract view of lib/allocators/gc.nelua
# with collections ENABLED.  One process per history; the oracle keeps the object graph (roots -> blocks ->
# pointer slots) and checks, for every block reachable from the roots the harness holds: aligned, registered
# with the requested size (what the mark phase scans), disjoint from every other block that has not been
# finalized, contents preserved, never finalized; and the collector's own accounting (membytes = sum of sizes).
# --------------------------------------------------------------------------------------------
GC_NROOTS = 16
GC_ALIGN = 16


class GcProc:
    def __init__(self, exe):
        self.p = subprocess.Popen([exe], stdin=subprocess.PIPE, stdout=subprocess.PIPE, stderr=subprocess.PIPE, text=True, bufsize=1)

    def send(self, line):
        try:
            self.p.stdin.write(line + "\n")
            self.p.stdin.flush()
        except (BrokenPipeError, OSError):
            raise Dead(self.death())
        r = self.p.stdout.readline()
        if not r:
            raise Dead(self.death())
        return r.rstrip("\n")

    def death(self):
        try:
            self.p.stdin.close()
        except Exception:
            pass
        err = self.p.stderr.read()
        return "rc=%s %s" % (self.p.wait(), err.strip()[-200:])

    def close(self):
        try:
            self.p.stdin.close()
            self.p.wait(timeout=10)
        except Exception:
            self.p.kill()


class GcRunner:
    def __init__(self, exe):
        self.proc = GcProc(exe)
        self.blocks = {}       # h -> {"addr","size","slots":{off:g},"seed","plen"}   (not finalized as far as we know)
        self.roots = {}        # r -> h
        self.lines = []        # (line, response)
        self.problems = []     # (what, detail, index of the line)
        self.next_h = 0
        self.inplace_grow_collect = 0
        self.reg_no = 0
        self.model_cases = []  # in-place reallocs as inputs of the extracted GcRereg model: (line index, model line, observed registered size)

    def bad(self, what, detail):
        self.problems.append((what, detail, len(self.lines) - 1))

    def reachable(self):
        seen = set()
        todo = [h for h in self.roots.values() if h in self.blocks]
        while todo:
            h = todo.pop()
            if h in seen:
                continue
            seen.add(h)
            for g in self.blocks[h]["slots"].values():
                if g in self.blocks and g not in seen:
                    todo.append(g)
        return seen

    def do(self, line):
        reach = self.reachable()
        resp = self.proc.send(line)
        self.lines.append((line, resp))
        w = line.split()
        op = w[0]
        moved = None
        res, _, st = resp.partition(" | ")
        kv = dict(x.split("=", 1) for x in st.split() if "=" in x)
        fins = [int(x) for x in kv.get("F", "").split(",") if x]
        rw = res.split()
        # -- the operation itself
        if op == "alloc":
            h, n = int(w[1]), int(w[2])
            if not rw or not rw[0].isdigit():
                self.bad("gc-alloc-failed", "alloc0(%d) returned nilptr" % n)
            else:
                addr = int(rw[0])
                self.check_block(h, addr, n, rw)
                self.reg_no += 1
                self.blocks[h] = {"addr": addr, "size": n, "slots": {}, "seed": None, "plen": 0, "reg": self.reg_no}
                if w[3] == "R":
                    self.roots[int(w[4])] = h
                else:
                    self.blocks[int(w[4])]["slots"][int(w[5])] = h
        elif op == "root":
            r, h = int(w[1]), int(w[2])
            if h < 0:
                self.roots.pop(r, None)
            else:
                self.roots[r] = h
        elif op == "store":
            pblk, off, h = int(w[1]), int(w[2]), int(w[3])
            if h < 0:
                self.blocks[pblk]["slots"].pop(off, None)
            else:
                self.blocks[pblk]["slots"][off] = h
        elif op == "realloc":
            h, n = int(w[1]), int(w[2])
            b = self.blocks[h]
            if not rw or not rw[0].isdigit():
                self.bad("gc-alloc-failed", "realloc0(%d -> %d) returned nilptr" % (b["size"], n))
            else:
                addr = int(rw[0])
                before = {g: (x["addr"], x["size"], x["reg"]) for g, x in self.blocks.items()}
                old = self.blocks.pop(h)
                self.check_block(h, addr, n, rw)
                if "ip=1" in rw:
                    # the item table before the call: the garbage we hold no handle for first, then our blocks in registration order; the
                    # collection inside step (if any) keeps what is still registered afterwards
                    known = sorted(before.values(), key=lambda t: t[2])
                    ng = max(0, self.items_before - len(known))
                    gone = set(fins)
                    surv = [a for g, (a, _, _) in before.items() if g not in gone]
                    ng_after = max(0, min(ng, int(kv.get("items", "0")) - len(surv)))
                    tbl = [(i + 1, 1) for i in range(ng)] + [(a, sz) for a, sz, _ in known]
                    isz = [x[4:] for x in rw if x.startswith("isz=")]
                    self.model_cases.append((len(self.lines) - 1,
                                             "gcrereg %d %d T %s S %s" % (addr, n, " ".join("%d %d" % t for t in tbl),
                                                                          " ".join(str(a) for a in [i + 1 for i in range(ng_after)] + surv)),
                                             isz[0] if isz else "none"))
                else:
                    self.reg_no += 1
                    old["reg"] = self.reg_no
                old["slots"] = {o: g for o, g in old["slots"].items() if o + 8 <= n}
                old.update(addr=addr, plen=min(old["plen"], n))
                grew = n > old["size"]
                old["size"] = n
                self.blocks[h] = old
                if grew and "ip=1" in rw and int(kv.get("items", "0")) < self.items_before:
                    self.inplace_grow_collect += 1
                if "ip=0" in rw:
                    moved = h       # the block moved: the roots and slots that refer to it are refreshed below (no allocation in between)
        elif op == "dealloc":
            h = int(w[1])
            self.blocks.pop(h, None)
            for r in [r for r, g in self.roots.items() if g == h]:
                del self.roots[r]
            if h in fins:
                fins.remove(h)
            reach.discard(h)
        elif op == "fill":
            b = self.blocks[int(w[1])]
            b["seed"], b["plen"] = int(w[2]), b["size"]
        elif op == "verify":
            h = int(w[1])
            k = int(res[1:]) if res.startswith("m") and res[1:].isdigit() else -1
            if k < min(int(w[3]), self.blocks[h]["size"]):
                self.bad("gc-contents-changed", "block %d (%d bytes): byte %d of the %s bytes that must be preserved changed" % (h, self.blocks[h]["size"], k, w[3]))
        # -- finalizers that ran during the operation
        for h in fins:
            if h in reach:
                self.bad("gc-reachable-collected", "block %d (%d bytes) was finalized and freed during '%s' although it is reachable from the roots" %
                         (h, self.blocks.get(h, {}).get("size", -1), line))
            self.blocks.pop(h, None)
        # -- the collector's books
        if "mem" in kv and kv["mem"] != kv.get("sum"):
            self.bad("gc-accounting", "gc.membytes = %s but the registered blocks add up to %s bytes" % (kv["mem"], kv.get("sum")))
        self.items_before = int(kv.get("items", "0"))
        if moved is not None and moved in self.blocks:
            for r in sorted(r for r, g in self.roots.items() if g == moved):
                self.do("root %d %d" % (r, moved))
            for pb in sorted(self.blocks):
                for off in sorted(o for o, g in self.blocks[pb]["slots"].items() if g == moved):
                    self.do("store %d %d %d" % (pb, off, moved))
        return resp

    items_before = 0

    def check_block(self, h, addr, n, rw):
        if addr % GC_ALIGN != 0:
            self.bad("gc-misaligned", "block %d at an address = %d mod %d" % (h, addr % GC_ALIGN, GC_ALIGN))
        isz = [x[4:] for x in rw if x.startswith("isz=")]
        if isz and isz[0] != str(n):
            self.bad("gc-registered-size", "block %d of %d bytes is registered in the collector with size %s (the mark phase scans that many bytes)" % (h, n, isz[0]))
        for g, b in self.blocks.items():
            if g != h and addr < b["addr"] + b["size"] and b["addr"] < addr + n:
                self.bad("gc-overlap", "block %d [+%d) overlaps block %d [+%d) which has not been finalized" % (h, n, g, b["size"]))

    def fresh(self):
        self.next_h += 1
        return self.next_h - 1


def gc_history(R, rng, style, nops):
    """(i) garbage bursts, (ii) realloc growth (in place where the system allocator allows, crossing the pause threshold), (iii) pointers to live
    blocks at random offsets including the freshly grown tail, (iv) collections at random points including inside alloc/realloc."""
    def verify_all():
        for h in sorted(R.reachable()):
            b = R.blocks[h]
            if b["seed"] is not None and b["plen"] > 0:
                R.do("verify %d %d %d" % (h, b["seed"], b["plen"]))

    def free_slot(h, lo=0):
        b = R.blocks[h]
        used = b.setdefault("used", set())           # the driver remembers at most 32 slot offsets per block
        used.intersection_update(o for o in used if o + 8 <= b["size"])
        cands = [o for o in range((lo + 7) // 8 * 8, b["size"] - 7, 8) if o not in b["slots"]]
        if len(used) >= 28:
            cands = [o for o in cands if o in used]
        if not cands:
            return None
        o = rng.choice(cands)
        used.add(o)
        return o

    def new_block(size, parent=None, lo=0):
        h = R.fresh()
        off = free_slot(parent, lo) if parent is not None else None
        if off is not None:
            R.do("alloc %d %d S %d %d" % (h, size, parent, off))
        else:
            free_r = [r for r in range(GC_NROOTS) if r not in R.roots] or [rng.randrange(GC_NROOTS)]
            R.do("alloc %d %d R %d" % (h, size, rng.choice(free_r)))
        if h in R.blocks and rng.random() < .8:
            R.do("fill %d %d" % (h, rng.randrange(250)))
        return h

    def pressure():
        # a late-registered block grown by realloc right after a burst of garbage, the growth crossing the pause threshold
        if rng.random() < .8:
            R.do("stop")
        R.do("garbage %d %d" % (rng.choice([100, 200, 300, 500, 800]), rng.choice([16, 32, 48, 64, 100])))
        size = rng.choice([1000, 4000, 16000, 40000, 70000]) + 8 * rng.randrange(0, 50)
        h = new_block(size)
        R.do("restart")
        if h not in R.blocks:
            return
        new = size + max(64, int(size * rng.choice([.1, .25, .5, 1.0]))) // 8 * 8
        R.do("realloc %d %d" % (h, new))
        if h not in R.blocks:
            return
        for _ in range(rng.randint(1, 3)):              # children referenced ONLY from the grown tail
            new_block(rng.choice([16, 32, 64, 200]), parent=h, lo=size)
        if rng.random() < .5:
            new_block(rng.choice([16, 32, 64]), parent=h)
        R.do("collect")
        verify_all()
        for _ in range(rng.randint(2, 6)):              # memory freed by mistake would be handed out again here
            new_block(rng.choice([16, 32, 64, 200]))
        verify_all()

    if style == "pressure":
        for _ in range(rng.randint(1, 3)):
            pressure()
            if R.problems:
                return
    n = 0
    while n < nops and not R.problems:
        n += 1
        reach = sorted(R.reachable())
        r = rng.random()
        if r < .30 or not reach:
            parent = rng.choice(reach) if reach and rng.random() < .6 else None
            new_block(rng.choice([8, 16, 24, 32, 64, 100, 256, 1000, 5000, 30000]) + rng.choice([0, 0, 8, 1, 7]), parent)
        elif r < .50:
            h = rng.choice(reach)
            b = R.blocks[h]
            if b["seed"] is not None and b["plen"]:
                R.do("verify %d %d %d" % (h, b["seed"], b["plen"]))
            new = max(8, int(b["size"] * rng.choice([.5, .9, 1.1, 1.5, 2, 3])) // 8 * 8 + rng.choice([0, 0, 8]))
            old = b["size"]
            R.do("realloc %d %d" % (h, new))
            if h in R.blocks and new > old and rng.random() < .7:
                new_block(rng.choice([16, 32, 64]), parent=h, lo=old)
        elif r < .60:
            R.do("garbage %d %d" % (rng.choice([10, 50, 200, 400]), rng.choice([16, 32, 64, 500])))
        elif r < .70:
            if R.roots and rng.random() < .5:
                R.do("root %d -1" % rng.choice(sorted(R.roots)))
            else:
                cands = [(h, o) for h in reach for o in R.blocks[h]["slots"]]
                if cands:
                    h, o = rng.choice(cands)
                    R.do("store %d %d -1" % (h, o))
        elif r < .78:
            h, g = rng.choice(reach), rng.choice(reach)          # extra edges (cycles, sharing)
            o = free_slot(h)
            if o is not None:
                R.do("store %d %d %d" % (h, o, g))
        elif r < .86:
            R.do(rng.choice(["collect", "collect", "step"]))
            verify_all()
        elif r < .90:
            R.do(rng.choice(["stop", "restart", "restart", "setpause %d" % rng.choice([100, 150, 200, 300])]))
        elif r < .94 and reach:
            h = rng.choice(reach)
            R.do("dealloc %d" % h)
        else:
            pressure()
    if not R.problems:
        R.do("restart")
        R.do("collect")
        verify_all()


def run_gc_stream(ctx, work, stats, driver=None):
    src = os.path.join(vlib.VERIF, "harness", ID, "gcdriver.nelua")
    exe = os.path.join(work, "gcdriver-%s" % vlib.sha_files([src] + vlib.walk_files(os.path.join(vlib.REPO, "lib"), (".nelua",)) +
                                                          vlib.walk_files(os.path.join(vlib.REPO, "lualib"), (".lua",)))[:16])
    if not os.path.exists(exe):
        for f in os.listdir(work):
            if f.startswith("gcdriver-"):
                try:
                    os.remove(os.path.join(work, f))
                except OSError:
                    pass
        cdir_ = os.path.join(work, "nelua-cache-gc-%d" % os.getpid())
        rc, o, e = vlib.nelua_build(src, exe, cache_dir=cdir_)
        shutil.rmtree(cdir_, ignore_errors=True)
        if rc != 0 or not os.path.exists(exe):
            ctx.violation("gcdriver-build", "harness", "harness/C11/gcdriver.nelua does not compile against the current lib/allocators: %s" % (o + e)[-600:],
                          failing_input=False)
            return {}
    rng = ctx.rng
    out = {"histories": 0, "ops": 0, "inplace_grow_with_collection": 0, "by_style": {}}
    for i in range(ctx.scale(36, 600)):
        style = "pressure" if i % 3 != 2 else "mixed"
        R = GcRunner(exe)
        try:
            gc_history(R, rng, style, ctx.scale(40, 70))
        except Dead as d:
            R.problems.append(("gc-aborted", "the process aborted in a valid history: %s" % d, len(R.lines) - 1))
        except (KeyError, IndexError, ValueError):
            if not R.problems:
                raise
        R.proc.close()
        if R.model_cases and driver:
            rc, mo, me = vlib.sh([driver], input="\n".join(c[1] for c in R.model_cases) + "\n", timeout=600)
            mlines = mo.split("\n")
            out["model_reallocs"] = out.get("model_reallocs", 0) + len(R.model_cases)
            for (at, ml, obs), got in zip(R.model_cases, mlines):
                if got != obs:
                    stats["model_mismatches"] += 1
                    upto = [l for l, _ in R.lines[:at + 1]]
                    ctx.violation("model-mismatch:gc-reregister:%s" % "; ".join(l for l in upto if l.split()[0] not in ("fill", "verify"))[-300:], "correspondence",
                                  "GcRereg.v and the implementation disagree on the size registered after the in-place '%s': implementation %s, model %s" %
                                  (R.lines[at][0], obs, got), detail={"ops": upto, "model_input": ml[:2000], "no_longer_checks": "correspondence stream C11/gc-reregister"},
                                  failing_input=bool(R.problems))
                    break
        out["histories"] += 1
        out["ops"] += len(R.lines)
        out["inplace_grow_with_collection"] += R.inplace_grow_collect
        out["by_style"][style] = out["by_style"].get(style, 0) + 1
        if R.problems:
            stats["oracle_failures"] += 1
            what, detail, at = R.problems[0]
            upto = [l for l, _ in R.lines[:at + 1]]
            core = [l for l in upto if l.split()[0] not in ("fill", "verify")] if what != "gc-contents-changed" else upto
            ctx.violation("%s:gc:%s" % (what, "; ".join(core[-14:])), "oracle", "GCAllocator: %s" % detail,
                          detail={"problem": what, "ops": upto, "all_problems": [(w_, d_) for w_, d_, _ in R.problems[:6]],
                                  "transcript_tail": [list(x) for x in R.lines[max(0, at - 6):at + 1]],
                                  "replay": "printf '%%s\\n' %s | %s" % (" ".join("'%s'" % l for l in upto[:120]), exe)})
            if len(ctx.violations) > 12:
                break
    return out

# --------------------------------------------------------------------------------------------
def correspond(ctx):
    rng = ctx.rng
    P = gen_params()
    driver = vlib.ocaml_build(ID)
    work = ctx.work
    src = os.path.join(vlib.VERIF, "harness", ID, "driver.nelua")
    exe = os.path.join(work, "driver-%s" % vlib.sha_files([src] + vlib.walk_files(os.path.join(vlib.REPO, "lib"), (".nelua",)) +
                                                        vlib.walk_files(os.path.join(vlib.REPO, "lualib"), (".lua",)))[:16])
    if not os.path.exists(exe):
        for f in os.listdir(work):
            if f.startswith("driver-"):
                try:
                    os.remove(os.path.join(work, f))
                except OSError:
                    pass
        cdir_ = os.path.join(work, "nelua-cache-%d" % os.getpid())
        rc, o, e = vlib.nelua_build(src, exe, cache_dir=cdir_)
        shutil.rmtree(cdir_, ignore_errors=True)
        if rc != 0 or not os.path.exists(exe):
            ctx.violation("driver-build", "harness", "harness/C11/driver.nelua does not compile against the current lib/allocators: %s" % (o + e)[-600:],
                          failing_input=False)
            return {"evaluations": 0}
    stats = {"histories": 0, "ops": 0, "by_kind": {}, "by_style": {}, "by_op": {}, "oracle_failures": 0, "model_mismatches": 0,
             "panics_expected": 0}
    samples = []
    distinct = set()

    def replay_cmd(lines):
        return "printf '%%s\\n' %s | %s" % (" ".join("'%s'" % l for l in lines[:80]), exe)

    # ---- 1. the histories of the repaired defects: replayed on the implementation, judged by the oracle;
    #         they must pass now, a failure is a plain VIOLATION (the entries in known_findings are "fixed:")
    for reg in REGRESSIONS:
        key, inst, ops, what = reg[:4]
        must_report = len(reg) > 4 and reg[4]
        R, infol, died, msg = run_scripted(exe, inst, ops, P)
        if must_report:
            # the invalid last call has to be reported by a failed check, by the implementation and by the model
            last = len(ops)            # index in alllines (line 0 is the reset)
            rc, mout, merr = run_model(driver, infol, R.alllines)
            mp = next((i for i, l in enumerate(mout) if l.startswith("panic")), None)
            if R.problems or died != last:
                why = "; ".join("%s: %s" % (w, d) for w, d, _ in R.problems[:3]) or \
                      ("the invalid call was not reported: implementation %s" % ("continued" if died is None else "aborted earlier at '%s': %s" % (R.alllines[died], msg)))
                ctx.violation("regression:" + key, "oracle", "repaired defect is back: %s -- %s" % (what, why),
                              detail={"instance": inst, "info": R.impl.info[inst], "ops": ops, "transcript": [list(x) for x in R.lines],
                                      "replay": replay_cmd(R.alllines)})
            if mp != died:
                stats["model_mismatches"] += 1
                ctx.violation("model-mismatch:regression:" + key, "correspondence",
                              "model and implementation disagree on the history of a repaired defect: implementation %s, model %s" %
                              ("aborts at op %s" % died if died is not None else "continues", "panics at op %s" % mp if mp is not None else "continues"),
                              detail={"ops": ops}, failing_input=False)
            stats["ops"] += len(R.alllines)
            stats["panics_expected"] += 1
            continue
        lines = [l for l, _ in R.lines]
        rc, mout, merr = run_model(driver, infol, lines if died is None else R.alllines)
        mm = None
        if died is None:
            for (l, resp), m in zip(R.lines, mout):
                if strip_impl(resp) != m:
                    mm = (l, resp, m)
                    break
        else:
            k = died
            if not (len(mout) > k and mout[k].startswith("panic")):
                mm = (R.alllines[k], "aborted: " + msg, mout[k] if len(mout) > k else "<none>")
        if R.problems or died is not None:
            why = "; ".join("%s: %s" % (w, d) for w, d, _ in R.problems[:3]) or ("process aborted at '%s': %s" % (R.alllines[died], msg))
            ctx.violation("regression:" + key, "oracle", "repaired defect is back: %s -- %s" % (what, why),
                          detail={"instance": inst, "info": R.impl.info[inst], "ops": ops, "transcript": [list(x) for x in R.lines],
                                  "replay": replay_cmd(R.alllines)})
        if mm:
            stats["model_mismatches"] += 1
            ctx.violation("model-mismatch:regression:" + key, "correspondence",
                          "model and implementation disagree on the history of a repaired defect: at '%s' implementation '%s', model '%s'" % mm,
                          detail={"ops": ops}, failing_input=False)
        stats["ops"] += len(R.alllines)

    # ---- 1b. still-open defects: same replay, reported under their recorded key
    for key, inst, ops, what in KNOWN_DEFECTS:
        R, infol, died, msg = run_scripted(exe, inst, ops, P)
        rc, mout, merr = run_model(driver, infol, [l for l, _ in R.lines] if died is None else R.alllines)
        if died is None:
            for (l, resp), m in zip(R.lines, mout):
                if strip_impl(resp) != m:
                    stats["model_mismatches"] += 1
                    ctx.violation("model-mismatch:known:" + key, "correspondence",
                                  "model and implementation disagree on the history of a known defect: at '%s' implementation '%s', model '%s'" % (l, resp, m),
                                  detail={"ops": ops}, failing_input=False)
                    break
        if R.problems or died is not None:
            why = "; ".join("%s: %s" % (w, d) for w, d, _ in R.problems[:3]) or ("process aborted: %s" % msg)
            ctx.violation(key, "oracle", "%s -- %s" % (what, why),
                          detail={"instance": inst, "info": R.impl.info[inst], "ops": ops, "transcript": [list(x) for x in R.lines],
                                  "replay": replay_cmd(R.alllines), "proposed_repair": "harness/C11/proposed_repairs/"})
        stats["ops"] += len(R.alllines)

    # ---- 1c. undefined behaviour the ordinary build hides: the same library under -fsanitize=alignment
    ubsrc = os.path.join(vlib.VERIF, "harness", ID, "ubprobe.nelua")
    ubexe = exe.replace("driver-", "ubprobe-")
    if not os.path.exists(ubexe):
        for f in os.listdir(work):
            if f.startswith("ubprobe-"):
                try:
                    os.remove(os.path.join(work, f))
                except OSError:
                    pass
        cdir_ = os.path.join(work, "nelua-cache-ub-%d" % os.getpid())
        rc, o, e = vlib.nelua_build(ubsrc, ubexe, extra=["--cflags=-fsanitize=alignment -fno-sanitize-recover=all"], cache_dir=cdir_)
        shutil.rmtree(cdir_, ignore_errors=True)
        if rc != 0 or not os.path.exists(ubexe):
            ctx.violation("ubprobe-build", "harness", "harness/C11/ubprobe.nelua does not compile with -fsanitize=alignment: %s" % (o + e)[-400:],
                          failing_input=False)
            ubexe = None
    if ubexe:
        rc, o, e = vlib.sh([ubexe], timeout=60)
        stats["ops"] += 8
        if "misaligned address" in e or "runtime error" in e or rc != 0 or not o.startswith("ok"):
            ctx.violation(UB_KEY, "oracle", "%s -- %s" % (UB_WHAT, (e.strip().split("\n") or [""])[0][:300] or ("exit status %s, output %r" % (rc, o[:80]))),
                          detail={"source": "harness/C11/ubprobe.nelua", "cflags": "-fsanitize=alignment -fno-sanitize-recover=all", "replay": ubexe,
                                  "proposed_repair": "harness/C11/proposed_repairs/"})

    # ---- 1d. the GC allocator with collections enabled (allocator-contract view; the collector itself is property C10)
    gcstats = run_gc_stream(ctx, work, stats, driver)
    stats["ops"] += gcstats.get("ops", 0)

    # ---- 2. precondition-violating histories, one process each, outcome compared as an enum
    viol = list(VIOLATING)
    for name, inst, ops, must in viol:
        R, infol, died, msg = run_scripted(exe, inst, ops, P)
        rc, mout, merr = run_model(driver, infol, R.alllines)
        mp = next((i for i, l in enumerate(mout) if l.startswith("panic")), None)
        last = len(R.alllines) - 1
        stats["panics_expected"] += 1 if must else 0
        stats["ops"] += len(R.alllines)
        if must and died != last:
            ctx.violation("violating:%s:%s" % (inst, name), "oracle",
                          "%s on %s: the invalid call must be reported by a failed check, implementation %s" %
                          (name, inst, "continued" if died is None else "aborted earlier at op %d" % died),
                          detail={"ops": ops, "replay": replay_cmd(R.alllines)})
        elif died != mp:
            stats["model_mismatches"] += 1
            ctx.violation("model-mismatch:violating:%s" % name, "correspondence",
                          "%s on %s: implementation %s, model %s" % (name, inst, "aborts at op %s (%s)" % (died, msg) if died is not None else "continues",
                                                                    "panics at op %s" % mp if mp is not None else "continues"),
                          detail={"ops": ops, "no_longer_checks": "precondition-violating stream"}, failing_input=False)

    # ---- 3. corpus + random histories, interactive on one long-lived process
    impl = Impl(exe)
    transcript = []     # (history index, line, response)
    hist_meta = []
    # instances named x* are for scripted histories only (configurations outside the theorems' hypotheses)
    names = {k: [n for n, d in impl.info.items() if d["kind"] == k and not n.startswith("x")] for k in ("arena", "stack", "pool", "heap", "aligned")}
    # thorough excludes nothing; quick skips the 1 MiB heap for speed except now and then
    nhist = ctx.scale(700, 24000)
    nops = ctx.scale(45, 70)

    def one(name, style, n_ops, scripted=None, tag="random"):
        nonlocal impl
        R = Runner(impl, name, P)
        try:
            if scripted is None:
                run_history(R, rng, n_ops, style)
            else:
                R.do("reset")
                for o in scripted:
                    R.do(o)
        except Dead as d:
            R.problems.append(("aborted", "the allocator process aborted in a valid history: %s" % d, len(R.alllines) - 1))
            impl = Impl(exe)
        except (IndexError, KeyError, ValueError):
            if not R.problems:      # only tolerate generator hiccups on an allocator the oracle already flagged
                raise
        hi = len(hist_meta)
        hist_meta.append((name, style, tag, R))
        transcript.append((hi, [x for x in R.impl.infolines if x.split()[1] == name][0], None))
        for l, r in R.lines:
            transcript.append((hi, l, r))
        stats["histories"] += 1
        stats["ops"] += len(R.alllines)
        k = R.sh.kind
        stats["by_kind"][k] = stats["by_kind"].get(k, 0) + 1
        stats["by_style"][style] = stats["by_style"].get(style, 0) + 1
        for l in R.alllines:
            o = l.split()[1]
            stats["by_op"][o] = stats["by_op"].get(o, 0) + 1
        nsucc = sum(1 for l, r in R.lines if l.split()[1] in ("alloc", "alloc0", "spanalloc", "spanalloc0") and r.split()[0].isdigit())
        nrel = sum(1 for l, r in R.lines if l.split()[1] in ("dealloc", "realloc", "realloc0", "spanrealloc", "spanrealloc0", "spandealloc"))
        if nsucc >= 3 and nrel >= 1:
            distinct.add(hash(tuple(R.alllines)))
        if len(samples) < 4 and scripted is None and len(R.alllines) > 8:
            samples.append({"instance": name, "style": style, "ops": [l for l in R.alllines[:14]]})
        if R.problems:
            stats["oracle_failures"] += 1
            what, detail, at = R.problems[0]
            upto = R.alllines[:at + 1]
            # shrink: drop fills/verifies that are not needed to show a placement problem
            core = [l for l in upto if l.split()[1] not in ("fill", "verify")] if what in ("overlap", "out-of-bounds", "misaligned", "lost-memory") or what.startswith(("heap-", "pool-")) else upto
            key = "%s:%s:%s" % (what, name, "; ".join(" ".join(l.split()[1:]) for l in core[-12:]))
            ctx.violation(key, "oracle", "%s %s: %s" % (impl.info.get(name, {}).get("kind", "?"), name, detail),
                          detail={"instance": name, "info": impl.info.get(name), "problem": what, "ops": core,
                                  "all_problems": [(w, d) for w, d, _ in R.problems[:6]],
                                  "replay": replay_cmd(core)})
        return R

    cdir = os.path.join(vlib.VERIF, "corpus", ID)
    if os.path.isdir(cdir):
        for f in sorted(os.listdir(cdir)):
            if not f.endswith(".txt"):
                continue
            ops = [l.strip() for l in vlib.read(os.path.join(cdir, f)).split("\n") if l.strip() and not l.startswith("#")]
            if not ops:
                continue
            name = ops[0].split()[0]
            one(name, "corpus", 0, scripted=[" ".join(o.split()[1:]) for o in ops], tag="corpus:" + f)
    styles = ["mixed", "mixed", "lifo", "fifo", "realloc", "realloc", "churn"]
    kinds = ["arena", "stack", "pool", "heap", "heap", "heap", "aligned"]
    for i in range(nhist):
        kind = kinds[i % len(kinds)]
        pool = names[kind]
        if kind == "heap" and not ctx.thorough:
            pool = [n for n in pool if impl.info[n]["size"] <= 65536] if rng.random() < .93 else pool
        name = rng.choice(pool)
        if impl.info[name]["kind"] == "heap" and impl.info[name]["size"] < 128:
            if rng.random() < .8:
                name = rng.choice(pool)
        one(name, rng.choice(styles), nops if rng.random() < .8 else rng.randint(5, 3 * nops))
        if len(ctx.violations) > 12:
            break
    impl.close()

    # ---- 4. the extracted model replays the transcript
    # (the long-lived process may have been restarted after an abort: info lines are identical
    #  unless ASLR moved the buffers, so every history re-sends the info of its own process)
    lines = [l for _, l, _ in transcript]
    rc, mout, merr = run_model(driver, [], lines)
    transcript = [t for t in transcript if t[2] is not None]
    if rc != 0 or len(mout) < len(transcript):
        ctx.violation("model-run", "harness", "model driver rc=%s, %d of %d lines: %s" % (rc, len(mout), len(transcript), merr[-300:]), failing_input=False)
    else:
        reported = set()
        for (hi, l, r), m in zip(transcript, mout):
            if strip_impl(r) != m and hi not in reported:
                reported.add(hi)
                stats["model_mismatches"] += 1
                name, style, tag, R = hist_meta[hi]
                if len(reported) <= 3:
                    hl = [x for h2, x, _ in transcript if h2 == hi]
                    upto = hl[:hl.index(l) + 1] if l in hl else hl
                    ctx.violation("model-mismatch:%s:%s" % (R.sh.kind, l.split()[1]), "correspondence",
                                  "model of the %s allocator no longer corresponds to the code: at '%s' implementation answers '%s', model '%s'%s" %
                                  (R.sh.kind, l, r[:200], m[:200], "" if R.problems else " (the property oracle found nothing wrong in this history)"),
                                  detail={"instance": name, "info": R.impl.info.get(name) if hasattr(R, "impl") else None, "ops": upto[-40:],
                                          "implementation": r, "model": m, "no_longer_checks": "correspondence stream C11/%s" % R.sh.kind,
                                          "replay": replay_cmd(upto)}, failing_input=bool(R.problems))
    return {
        "evaluations": stats["ops"],
        "distinct_nontrivial": len(distinct),
        "rule": "histories = the 7 histories of the repaired defects (must pass) + the 2 open known defects (span count, aligned request) + scripted precondition-violating and x*/new/delete histories (one process each) + corpus + random "
                "interactive histories (styles mixed/lifo/fifo/realloc-heavy/churn) over 7 arena, 5 stack, 5 pool, 6 heap and 2 AlignedAllocator(arena) instances; sizes drawn from 0,1,align+-1, "
                "remaining capacity+-1, capacity+-1, free-chunk size +- header/MIN_ALLOC/align (split and grow thresholds), bin boundaries 2^k+-1, 2^63, and the whole "
                "wrap-around zone up to 2^64-1 (2^64-curr+-k, 2^64-SIZE.., 2^64-47..2^64-1); alloc(0) everywhere; pool deallocall before the first alloc; shrinking "
                "reallocs in front of free chunks; every history ends by releasing everything and re-requesting the largest initial request. a GC allocator stream (one process per history, collections enabled: pressure macro = stop, garbage burst, late block, restart, realloc growth, children stored only in the grown tail, collect, re-allocate; plus mixed histories with random roots/slots/cycles/dealloc/setpause); evaluations = operations "
                "executed on the real allocators; non-trivial = distinct histories with >= 3 successful allocations and >= 1 dealloc/realloc. The only precondition kept "
                "in the valid stream is the documented one of the stack (dealloc/realloc-to-0 in LIFO order)",
        "samples": samples,
        "distribution": {"histories_by_kind": stats["by_kind"], "by_style": stats["by_style"], "ops": stats["by_op"],
                         "repaired_defect_histories": len(REGRESSIONS), "violating_histories": len(viol)},
        "histories": stats["histories"],
        "gc_stream": gcstats,
        "oracle_failures": stats["oracle_failures"],
        "model_mismatches": stats["model_mismatches"],
        "traces_validated_against_impl": stats["histories"] + len(REGRESSIONS) + len(viol),
        "unproved": UNPROVED,
    }


UNPROVED = [
    "of the repairs mirrored by hand only 9ef0717 (deallocall clears the marks) has a scraped discriminator the proofs depend on (Gen.DEALLOCALL_CLEARS_MARKS, deallocall_policy, C11_heap_deallocall_clears_iff_policy); for the others (overflow tests, get_ptr_node's size test, region geometry) a revert is noticed by the replayed witnesses and the correspondence, not by a broken proof",
    "heap payload CONTENTS at the memory level: C11_heap_mem_payload_frame proves that the allocator's own writes never touch a live payload, but realloc's memory.copy of a moved block is modelled on the separate byte function (hb_bytes) only, not in the word memory of Heap.v; stack/pool have no such memory-level frame theorem (their headers/links are in-band and covered by the safe theorems' client-write frame condition)",
    "pool: pool_good has no alignment clause beyond 'is a chunk start' (the alignment of T inside the chunk union is the compiler's layout, property C03)",
    "AlignedAllocator: alignment arithmetic, single-step alloc spec and 'fits in a fresh good block of the arena in any reachable arena state' are proved; a history-level theorem over aligned alloc/dealloc/realloc (headers of live aligned blocks are never overwritten) is not; its default realloc's memory.move is not a contents theorem",
    "stack/pool: realloc never moves a block (it returns p or nil), contents preservation is therefore not stated separately",
    "GeneralAllocator (libc) is outside the Coq models; the GC allocator's contract (aligned, registered with the requested size, disjoint while not finalized, contents preserved, reachable blocks never collected, membytes = sum of sizes) is TESTED on histories with collections enabled, not proved - only GC:reregister's in-place size update is a theorem (C11_gc_reregister_size, partial: a deliberately tiny model - association list, the collection inside step an arbitrary function ASSUMED to keep the block's entry (step_keeps), running/membytes/root/moved branches left out; corresponded only on the registered size after in-place reallocs of the gc stream; C11_gc_reregister_size_iff_policy is a tripwire for the scraped statement order); release builds (checks compiled out) are not exercised",
    "NODE = 32 and ALLOC_ALIGN = 16 are literals in the proofs (NODE_eq / ALIGN_eq, 'mod 16' arithmetic): Gen.v regenerates them and the build fails if they change, but a change needs the proofs revisited. The bin tuning constants are parametric: get_bin_index_p_range holds for any BIN_MIN_LOG >= 0, BIN_COUNT > 0 with BIN_MIN_LOG + BIN_COUNT <= 32 and BIN_CLZ_BASE = 31 - BIN_MIN_LOG (side conditions re-checked by computation on the regenerated constants)",
]


def gen_params():
    txt = vlib.read(os.path.join(vlib.coq_dir(ID), "Gen.v"))
    return {k: int(v) for k, v in re.findall(r"Definition (\w+) : Z := (\d+)%Z\.", txt)}
