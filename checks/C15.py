"""C15 - scope-exit actions (defer blocks, <close> variables) run exactly once, innermost first,
on every exit path.

(T) the facts of the generator the model is written against are re-scraped into coq/C15/Gen.v
    (the is_breakflow statement tags of astdefs.lua, the loop header of emit_close_scope, the
    loop of emit_close_upscopes, the order of value evaluation and clean-up in Return/In/Continue);
    Proofs.v proves they are the ones the model assumes.
(C) programs generated from the mini-language are printed as Nelua and compiled by the real
    compiler (many test functions per file);
      (i)  run-time trace for several oracle scripts  vs  ref_sem of the extracted model  (property oracle)
      (ii) token sequence of the emitted C            vs  tokens of the model compiler's output (correspondence)
"""
import concurrent.futures
import json
import os
import re
import shutil
import sys

import vlib

sys.path.insert(0, os.path.join(vlib.VERIF, "harness", "C15"))
import c15gen  # noqa: E402

ID = "C15"
ALLOWED_AXIOMS = []
TRUSTED_BASE = [
    "coqc 8.16.1 kernel; vm_compute only for the refutation witnesses and the scraped-fact lemmas; no native_compute",
    "no axioms: every theorem of coq/C15/Properties.v is 'Closed under the global context'",
    "translator checks/C15.py:gen (regex scrape of astdefs.lua is_breakflow tags and of the loops/statement order in cgenerator.lua emit_close_scope, emit_close_upscopes, visitors.Return/In/Continue/Block)",
    "extraction: Require Extraction + ExtrOcamlBasic only; coq/C15/driver.ml (parser of the program text, printer of traces and tokens), OCaml 4.13.1",
    "harness/C15/c15gen.py: program generator, Nelua pretty-printer (events = print, oracle = script array read through zznext, values = event clock), tokenizer of the emitted C; gcc",
    "modelled rather than verified: cgenerator.lua's stitching is mirrored by hand in coq/C15/Model.v (cstmt/cbody/ccases); the tie is the token-by-token comparison with the emitted C and the trace comparison, run on every check",
]
ASSUMPTIONS = [
    "C semantics of the emitted constructs as written in Model.v texec (block-scoped _repeat_stop/_expr/_ret/_mulret temporaries abstracted into TUntil/TIn/TReturn - for `_mulret` the field-by-field stores r1..rn are assumed to pair the i-th expression with the i-th returned value; break inside switch leaves the switch; goto label leaves the loop)",
    "function calls are inlined syntax (no recursion)",
    "which <close> initialisers get their type in a later resolution pass is an input of the model (flag `late`, printed as a polymorphic call); the repaired visit_close makes the order independent of it",
    "`continue` inside `repeat ... until c` is specified as: evaluate c at the continue statement, then leave the scopes (this is what the generator does; Lua has no continue)",
    "correspondence is differential testing over generated programs x oracle scripts, not a proof that model = code",
]


THEOREM_CLASSES = {
    "C15_generator_facts": "tripwire",
    "C15_defer_compile_correct": "main",
    "C15_close_desugar": "definitional",
    "C15_desugar_preserves_semantics": "corollary",
    "C15_lifo_order": "corollary",
    "C15_each_defer_once": "corollary",
    "C15_unreached_defer_never": "corollary",
    "C15_return_value_fixed_before_cleanup": "definitional",
    "C15_ref_never_out_of_fuel": "corollary",
    "C15_tgt_never_out_of_fuel": "corollary",
    "C15_visit_close_any_order": "corollary",
    "C15_in_goto_placement": "definitional",  # a syntactic fact about the model compiler, NOT a consequence of the main theorem
}
UNPROVED = [
    "`accepted` = what the analyzer accepts of the mini-language: not a theorem; tied by the accepted-vs-`nelua --analyze` stream (programs with exits placed anywhere) and 6 must-reject probes",
    "the `goto _doexprlabel` omission rule (needgoto): texec treats both forms of `in` alike, so the main theorem is semantically insensitive to it; what is proved is the syntactic half (C15_in_goto_placement: a goto-less `in` is always the last statement of its do-expression block, with the model's rule taken from the scraped visitors.In) - a change of the rule breaks that proof, the token comparison and the run-time traces",
    "multi-value return: `TReturn es cl` is ONE target step (evaluate es left to right, run the clean-up cl, return the values); the theorem therefore covers the evaluation order of the returned expressions and that all of them are fixed before any clean-up runs, for any arity - but the per-field stores `_mulret.r1 = e1; ... _mulret.rn = en` of visitors.Return are abstracted into that step, so a wrong FIELD order or a wrong field/expression pairing in the emitted C is not expressible in the model; it is caught only by the token comparison (canonical `R e1 .. en`) and the run-time value comparison of the correspondence (tests)",
    "visit_close position bookkeeping: proved order-independent on a separate list model (C15_visit_close_any_order), linked to the code by a regex fact and the correspondence, not to `desugar_block`",
    "the reference semantics is the specification by construction; independent voice only for the Lua-expressible subset (<close>, no defer/continue/switch/do-expression) run by the bundled Lua 5.4",
    "`for ... in`, recursion, goto, polymorphic/generic function bodies, `require`d files: not generated; main-chunk programs compared by trace only",
    "deferred blocks containing an early `in` or a break inside a switch are not generated (duplicate C labels when emitted twice: C03 matter)",
]
MANIFEST_ENTRY = {
    "text": "proof, partial: Coq theorem for ALL programs of the mini-language (do/if/while/repeat/for/switch+fallthrough/function/do-expression, defers nested in defers, <close> declarations, every exit kind, any depth) that the analyzer's placement rules accept and ALL condition oracles: the generator's statically stitched clean-up produces exactly the trace and returned value of the reference semantics (each executed defer once, innermost first, after the returned value, `until` before the body's defers); corollaries LIFO / once / never, Fuel unreachable, visit_close order-independent. Returns of several values are in the theorem only as one abstract step (expressions evaluated left to right, all before the clean-up); the per-field stores into the `_mulret` temporary are not modelled. Rest on differential testing only: that `accepted` is the analyzer's acceptance, the field order / pairing of `_mulret`, the semantic effect of the goto-omission rule of `in` (the target semantics ignores the flag; only its syntactic placement is a separate theorem, not a consequence of the main one), polymorphic/required code.",
    "note": "trusted: Coq 8.16.1 kernel; the hand-written model of cgenerator.lua's stitching tied to /repo by token-by-token comparison with the emitted C, run-time traces, Lua 5.4 as a third voice on the <close> subset and regex facts in Gen.v (tripwire) - all testing; abstraction of C temporaries (_ret/_mulret/_expr/_repeat_stop) into compound target statements; extraction (ExtrOcamlBasic), OCaml driver, Python generator/printer/tokenizer, gcc; no cross-property files",
    "technique": "machine-checked proof in Coq over an executable model + extracted-model/implementation correspondence",
}


# ------------------------------------------------------------------ (T) scrape
def gen(ctx):
    ast = vlib.repo_read("lualib/nelua/astdefs.lua")
    tags = []
    for m in re.finditer(r"aster\.register\('(\w+)'(.*?)\n\}\)", ast, re.S):
        if re.search(r"is_breakflow\s*=\s*true", m.group(2)):
            tags.append(m.group(1))
    if not tags:
        raise RuntimeError("no is_breakflow tag found in astdefs.lua")
    cg = vlib.repo_read("lualib/nelua/cgenerator.lua")

    def func(name):
        m = re.search(r"\nfunction %s\(.*?\n(.*?)\nend\n" % re.escape(name), cg, re.S)
        if not m:
            raise RuntimeError("cannot find %s in cgenerator.lua" % name)
        return m.group(1)

    cs = func("cgenerator.emit_close_scope")
    m = re.search(r"for\s+i\s*=\s*([^,]+),\s*([^,]+?)(?:,\s*([^ ]+))?\s+do", cs)
    if not m:
        raise RuntimeError("cannot find the loop of emit_close_scope")
    loop = (m.group(1).strip(), m.group(2).strip(), (m.group(3) or "1").strip())
    guard = bool(re.search(r"if\s+scope\.closing\s+then\s+return\s+end", cs))
    cu = func("cgenerator.emit_close_upscopes")
    up_first = bool(re.search(r"^\s*cgenerator\.emit_close_scope\(context, emitter, scope\)", cu, re.M))
    up_loop = bool(re.search(r"repeat\s+scope = scope\.parent\s+cgenerator\.emit_close_scope\(context, emitter, scope\)\s+until scope == topscope", cu))
    blk = func("visitors.Block")
    blk_order = [k for k, _ in sorted(
        [(k, blk.find(t)) for k, t in (("stats", "emitter:add_list(node"), ("repeat_stop", "emit_repeat_stop(emitter)"),
                                        ("close", "cgenerator.emit_close_scope("))], key=lambda x: x[1]) if blk.find(
            {"stats": "emitter:add_list(node", "repeat_stop": "emit_repeat_stop(emitter)", "close": "cgenerator.emit_close_scope("}[k]) >= 0]
    blk_guard = bool(re.search(r"if laststat and not laststat\.is_breakflow then\s+cgenerator\.emit_close_scope", blk))
    ret = func("visitors.Return")
    # in the one-value path: temporary assigned, then the forked defer emitter, then `return tmp`
    m = re.search(r"emitter:add_indent\(rettype, ' ', retname, ' = '\)\s+emitter:add_converted_val\(rettype, retnode\)\s+emitter:add_ln\(';'\)\s+emitter:add_value\(deferemitter\)\s+emitter:add_indent_ln\('return ', retname, ';'\)", ret)
    ret_tmp_first = bool(m)
    ret_scope = bool(re.search(r"emit_close_upscopes\(context, deferemitter, scope, retscope\)", ret)) and \
        bool(re.search(r"retscope = scope:get_up_function_scope\(\)", ret))
    inn = func("visitors.In")
    in_first = 0 <= inn.find("'_expr = '") < inn.find("emitter:add(deferemitter)")
    in_goto_rule = bool(re.search(
        r"local needgoto = true\s+if context:get_visiting_node\(2\)\.is_DoExpr then\s+local blockstats = context:get_visiting_node\(1\)\s+"
        r"if node == blockstats\[#blockstats\] then[^\n]*\n\s+needgoto = false\s+end\s+end\s+if needgoto then", inn))
    co = func("visitors.Continue")
    cont_order = 0 <= co.find("emit_repeat_stop(emitter)") < co.find("emit_close_upscopes(") < co.find("'continue;'")
    br = func("visitors.Break")
    break_order = 0 <= br.find("emit_close_upscopes(") < br.find("get_up_scope_of_any_kind('is_loop', 'is_switch')")
    df = func("visitors.Defer")
    defer_reg = "context.scope:add_defer_block(blocknode)" in df
    ftv = func("visitors.Fallthrough")
    ft_closes = 0 <= ftv.find("cgenerator.emit_close_scope(context, emitter, context.scope)") < ftv.find("NELUA_FALLTHROUGH(); /* fallthrough */")
    resets = 0 <= blk.find("scope.deferblocks = nil") < blk.find("emitter:add_list(node")
    an = vlib.repo_read("lualib/nelua/analyzer.lua")
    m = re.search(r"\nlocal function visit_close\(.*?\n(.*?)\nend\n", an, re.S)
    if not m:
        raise RuntimeError("cannot find visit_close in analyzer.lua")
    vc = m.group(1)
    close_decl_order = "declattr.closeindex" not in vc and bool(re.search(
        r"local varindex = tabler\.ifind\(declnode\[2\], varnode\)\s+local closeindex = statindex \+ 1\s+for i=1,varindex-1 do\s+if closenodes\[i\] then closeindex = closeindex \+ 1 end\s+end\s+table\.insert\(blocknode, closeindex, callnode\)", vc)) \
        and "closenodes[varindex] = callnode" in vc
    jump_rejected = all(re.search(r"function visitors\.%s\(context, node\)\n(?:[^\n]*\n){0,2}?\s*check_jump_out_of_defer\(context, node, '%s', '%s'\)" % (v, w, k), an)
                        for v, w, k in (("Break", "break", "is_loop"), ("Continue", "continue", "is_loop"),
                                        ("Return", "return", "is_function"), ("In", "in", "is_doexpr"))) and \
        "context:get_forked_scope(blocknode).is_deferblock = true" in an and \
        bool(re.search(r"if scope\[targetkind\] or scope\.is_function then break end\s+if scope\.is_deferblock then\s+node:raisef", an))
    sc = vlib.repo_read("lualib/nelua/scope.lua")
    append = bool(re.search(r"function Scope:add_defer_block\(blocknode\).*?deferblocks\[#deferblocks\+1\] = blocknode", sc, re.S))

    def b(x):
        return "true" if x else "false"

    def s(x):
        return '"%s"' % x

    txt = ("(* GENERATED by checks/C15.py from /repo (astdefs.lua, cgenerator.lua, scope.lua) - do not edit *)\n"
           "From Coq Require Import List String Bool.\nImport ListNotations.\nOpen Scope string_scope.\n"
           "Definition gen_breakflow_tags : list string := [%s].\n" % "; ".join(s(t) for t in tags) +
           "Definition gen_close_loop : string * string * string := (%s, %s, %s).\n" % tuple(s(x) for x in loop) +
           "Definition gen_close_guarded_by_closing : bool := %s.\n" % b(guard) +
           "Definition gen_upscopes_closes_current_first : bool := %s.\n" % b(up_first) +
           "Definition gen_upscopes_walks_parents_until_top : bool := %s.\n" % b(up_loop) +
           "Definition gen_block_order : list string := [%s].\n" % "; ".join(s(x) for x in blk_order) +
           "Definition gen_block_close_unless_breakflow : bool := %s.\n" % b(blk_guard) +
           "Definition gen_return_value_saved_before_cleanup : bool := %s.\n" % b(ret_tmp_first) +
           "Definition gen_return_closes_up_to_function_scope : bool := %s.\n" % b(ret_scope) +
           "Definition gen_in_value_assigned_before_cleanup : bool := %s.\n" % b(in_first) +
           "Definition gen_continue_stop_then_cleanup_then_continue : bool := %s.\n" % b(cont_order) +
           "Definition gen_break_cleanup_before_jump : bool := %s.\n" % b(break_order) +
           "Definition gen_defer_registers_on_current_scope : bool := %s.\n" % b(defer_reg) +
           "Definition gen_defer_blocks_appended : bool := %s.\n" % b(append) +
           "Definition gen_fallthrough_closes_scope : bool := %s.\n" % b(ft_closes) +
           "Definition gen_in_goto_omitted_only_for_last_statement_of_doexpr_block : bool := %s.\n" % b(in_goto_rule) +
           "Definition gen_block_resets_deferblocks : bool := %s.\n" % b(resets) +
           "Definition gen_close_defers_in_declaration_order : bool := %s.\n" % b(close_decl_order) +
           "Definition gen_jump_out_of_defer_rejected : bool := %s.\n" % b(jump_rejected))
    vlib.write_if_changed(os.path.join(vlib.coq_dir(ID), "Gen.v"), txt)
    return {"breakflow_tags": tags, "close_loop": list(loop), "closing_guard": guard, "block_order": blk_order,
            "return_value_saved_before_cleanup": ret_tmp_first, "in_value_before_cleanup": in_first,
            "continue_order": cont_order, "break_order": break_order, "upscopes": [up_first, up_loop],
            "fallthrough_closes_scope": ft_closes, "block_resets_deferblocks": resets, "in_goto_omitted_only_for_last_statement_of_doexpr_block": in_goto_rule,
            "close_defers_in_declaration_order": close_decl_order, "jump_out_of_defer_rejected": jump_rejected}


# ------------------------------------------------------------------ corpus / witnesses
def from_json(x):
    """JSON (nested lists) -> AST tuples."""
    def block(b):
        return [stmt(s) for s in b]

    def stmt(s):
        t = s[0]
        if t == 'defer': return ('defer', s[1], block(s[2]))
        if t == 'close': return ('close', [(k, bool(l)) for k, l in s[1]])
        if t in ('do', 'doexpr'): return (t, block(s[1]))
        if t == 'if': return ('if', s[1], block(s[2]), block(s[3]))
        if t in ('while', 'for'): return (t, s[1], block(s[2]))
        if t == 'repeat': return ('repeat', block(s[1]), s[2])
        if t == 'switch': return ('switch', s[1], [(block(b), bool(ft)) for b, ft in s[2]], block(s[3]))
        if t == 'call': return ('call', bool(s[1]), block(s[2]))
        if t == 'return': return ('return', list(s[1]) if isinstance(s[1], list) else s[1])
        return tuple(s)
    return block(x)


# programs on which the unchanged generator violates the property (replayed on every run; the keys are
# listed in known_findings/C15.json).  Each: (key, void, body, oracle, what)
WITNESSES = []      # programs on which the unchanged generator violates the property (none at present)

# programs the analyzer must REJECT: a jump that would leave a defer block (it used to skip the remaining
# defers of the scope being closed).  (key, void, body)
MUST_REJECT = [
    ("return-inside-defer", True, [('defer', 1, []), ('defer', 2, [('if', 3, [('retvoid',)], [])]), ('emit', 4)]),
    ("return-value-inside-defer", False, [('defer', 1, [('return', 2)]), ('return', 3)]),
    ("break-inside-defer", True, [('while', 1, [('defer', 2, [('break',)]), ('emit', 3)])]),
    ("continue-inside-defer", True, [('repeat', [('defer', 2, [('if', 4, [('continue',)], [])]), ('emit', 3)], 1)]),
    ("in-inside-defer", True, [('doexpr', [('defer', 1, [('in', 2)]), ('in', 3)])]),
    ("break-inside-nested-defer", True, [('for', 2, [('defer', 1, [('defer', 2, [('do', [('break',)])])])])]),
]


def norm_tokens(t):
    """`return zzxv(e)` and `rv = zzxv(e); return rv` (bare-variable return modes) are the same placement."""
    return t


def run_model(driver, lines):
    rc, out, err = vlib.sh([driver], input="\n".join(lines) + "\n", timeout=1800)
    res = out.split("\n")
    if rc != 0 or len(res) < len(lines):
        raise RuntimeError("model driver failed rc=%s: %s" % (rc, err[-500:]))
    outv = []
    for l in res[:len(lines)]:
        parts = l.split("\t")
        if len(parts) != 4:
            raise RuntimeError("model driver output: %r" % l[:200])
        parts[2] = norm_tokens(parts[2])
        outv.append(parts)
    return outv


def build_file(work, idx, tests, interp, seed=0, toplevel=False):
    """Print + compile one file of test functions with the real compiler. Returns dict."""
    d = os.path.join(work, "f%d" % idx)
    shutil.rmtree(d, ignore_errors=True)
    os.makedirs(d)
    src = os.path.join(d, "p%d.nelua" % idx)
    pairs = set()
    with open(src, "w") as f:
        if toplevel:
            f.write(c15gen.print_program_toplevel(tests[0][1], __import__("random").Random(seed)))
        else:
            text, pairs = c15gen.print_program_ex(tests, __import__("random").Random(seed))
            f.write(text)
    exe = os.path.join(d, "p%d" % idx)
    rc, out, err = vlib.nelua_build(src, exe, cache_dir=os.path.join(d, "cache"), interp=interp)
    cfile = os.path.join(d, "cache", "p%d.c" % idx)
    ctext = vlib.read(cfile) if os.path.exists(cfile) else ""
    return {"rc": rc, "log": (out + err)[-3000:], "exe": exe, "src": src, "funcs": c15gen.c_functions(ctext), "pairs": pairs}


def run_real(exe, i, orc):
    rc, out, err = vlib.sh([exe, str(i)] + [str(x) for x in orc], timeout=20)
    lines = [l for l in out.split("\n") if l]
    end = lines[-1] if lines else "?"
    evs = [l.replace("\t", "") for l in lines if l not in ("X", "Z")]
    outcome = {"Z": "N", "X": "A"}.get(end, "?rc%d" % rc)
    return outcome + ";" + " ".join(evs)


def oracles_for(rng, n):
    out = [[1] * 40, []]
    while len(out) < n:
        k = rng.choice([6, 12, 20, 32, 48])
        # zeros end loops, so that most runs finish (an exhausted oracle aborts the run and only a prefix is compared)
        out.append([rng.choice([0, 0, 1, 1, 1, 2, 3]) for _ in range(k)])
    return out


def correspond(ctx):
    rng = ctx.rng
    driver = vlib.ocaml_build(ID)
    interp = vlib.ensure_interp()
    work = ctx.work
    nfiles = ctx.scale(12, 120)
    per_file = ctx.scale(50, 100)
    norc = ctx.scale(6, 10)

    # ---- corpus + witnesses form file 0
    corpus = []
    cp = os.path.join(vlib.VERIF, "corpus", ID, "programs.jsonl")
    if os.path.exists(cp):
        for line in vlib.read(cp).split("\n"):
            line = line.strip()
            if line and not line.startswith("#"):
                j = json.loads(line)
                corpus.append((j.get("key", "corpus"), bool(j["void"]), from_json(j["body"]), j["oracles"], False))
    special = [(k, v, b, [o], True) for (k, v, b, o, _) in WITNESSES] + corpus

    files = []   # list of list of (void, body, oracles, stream, key, is_witness)
    f0 = [(v, b, orcs, "witness" if w else "corpus", k, w) for (k, v, b, orcs, w) in special]
    files.append(f0)
    streams = [("wf", dict()), ("targeted", dict()), ("wf-deep", dict(maxdepth=6)), ("wf", dict()),
               ("wf-deep", dict(maxdepth=5)), ("wf", dict())]
    for fi in range(nfiles):
        name, kw = streams[fi % len(streams)]
        g = c15gen.Gen(rng, **kw)
        tests = []
        for _ in range(per_file):
            if name == "targeted":
                void, body = g.targeted() if rng.random() < 0.5 else g.doexpr_targeted()
            else:
                void, body = g.program()
            tests.append((void, body, oracles_for(rng, norc), name, None, False))
        files.append(tests)

    # Lua-expressible subset (<close> variables, no defer/continue/switch/do-expression): also run as Lua 5.4 by
    # the bundled interpreter - an independent third voice for the reference semantics of to-be-closed variables
    lg = c15gen.Gen(rng, lua_subset=True)
    lua_tests = []
    for _ in range(ctx.scale(40, 400)):
        void, body = lg.program()
        lua_tests.append((void, body, oracles_for(rng, norc), "lua-subset", None, False))
    lua_file_index = len(files)
    files.append(lua_tests)

    # main-chunk stream: one void program per file, its body is the top level of the file
    for _ in range(ctx.scale(6, 60)):
        g = c15gen.Gen(rng)
        while True:
            void, body = g.program() if rng.random() < 0.6 else g.targeted()
            if void:
                break
        files.append([(void, body, oracles_for(rng, norc), "toplevel", None, False)])

    # ---- model side
    lines = []
    index = []
    for fi, tests in enumerate(files):
        for ti, (void, body, orcs, stream, key, w) in enumerate(tests):
            ser = c15gen.serialise(void, body)
            for o in orcs:
                lines.append(ser + " | " + " ".join(map(str, o)))
                index.append((fi, ti, o))
    model = run_model(driver, lines)

    # ---- implementation side: build files (4 at a time), run
    with concurrent.futures.ThreadPoolExecutor(max_workers=4) as ex:
        builds = list(ex.map(lambda a: build_file(work, a[0], [(t[0], t[1]) for t in a[1]], interp, seed=ctx.seed * 1000 + a[0],
                                                  toplevel=(a[1][0][3] == "toplevel")), enumerate(files)))
    for fi, bld in enumerate(builds):
        if bld["rc"] != 0:
            ctx.violation("compile-failed:file%d" % fi, "harness",
                          "the real compiler/gcc rejected a generated C15 program file (%s): %s" % (bld["src"], bld["log"][-600:]),
                          detail={"log": bld["log"], "source": bld["src"]}, failing_input=False)

    # ---- third voice: the Lua-subset file under the bundled Lua 5.4 interpreter
    lua_src = os.path.join(work, "lua_subset.lua")
    with open(lua_src, "w") as f:
        f.write(c15gen.print_lua([(t[0], t[1]) for t in lua_tests]))

    def lua_of(a):
        fi, ti, o = a
        if fi != lua_file_index:
            return None
        rc, out, err = vlib.run_lua(lua_src, [str(ti)] + [str(x) for x in o], interp=interp, timeout=20)
        lines = [l for l in out.split("\n") if l]
        end = lines[-1] if lines else "?"
        return {"Z": "N", "X": "A"}.get(end, "?rc%d %s" % (rc, err[-100:])) + ";" + " ".join(l for l in lines if l not in ("X", "Z"))
    with concurrent.futures.ThreadPoolExecutor(max_workers=4) as ex:
        luas = list(ex.map(lua_of, index))
    n_lua = n_lua_bad = 0
    for (fi, ti, o), (ref, tgt, mtoks, _acc), lua in zip(index, model, luas):
        if lua is None:
            continue
        n_lua += 1
        if lua != ref:
            n_lua_bad += 1
            if n_lua_bad <= 3:
                void, body = files[fi][ti][0], files[fi][ti][1]
                ctx.violation("lua-voice:%s|%s" % (c15gen.serialise(void, body), " ".join(map(str, o))), "correspondence",
                              "reference semantics disagrees with Lua 5.4 on a to-be-closed program: Lua prints [%s], ref_sem gives [%s]; program %s oracle %s"
                              % (lua, ref, c15gen.serialise(void, body), o),
                              detail={"lua_source": lua_src, "test": ti, "oracle": o, "no_longer_checks": "correspondence stream C15/lua-voice"},
                              failing_input=False)

    n_reject_fail = 0
    for key, void, body in MUST_REJECT:
        d = os.path.join(work, "reject")
        os.makedirs(d, exist_ok=True)
        src = os.path.join(d, key + ".nelua")
        with open(src, "w") as f:
            f.write(c15gen.print_program([(void, body)]))
        rc, out, err = vlib.nelua(["--analyze", src], interp=interp, timeout=120)
        if not (rc != 0 and "cannot jump out of a `defer` block" in (out + err)):
            n_reject_fail += 1
            ctx.violation("must-reject:%s" % key, "oracle",
                          "a jump leaving a defer block is accepted by the analyzer (%s): the remaining defers of the scope being closed would be skipped; program %s" % (src, c15gen.serialise(void, body)),
                          detail={"program": c15gen.serialise(void, body), "nelua_source": src, "output": (out + err)[-600:],
                                  "replay": "nelua --analyze %s  (must fail with: cannot jump out of a `defer` block)" % src})

    # ---- `accepted` (the hypothesis of the main theorem) against the real analyzer, around the boundary:
    # programs whose exits are placed anywhere (outside loops / do-expressions, inside defer blocks, ...)
    nb = ctx.scale(150, 1500)
    bg = c15gen.Gen(rng, allow_escape=True, misplace=True, maxdepth=3)
    bprogs = [bg.program() for _ in range(nb)]
    bmodel = run_model(driver, [c15gen.serialise(v, b) + " | " for v, b in bprogs])
    bdir = os.path.join(work, "boundary")
    shutil.rmtree(bdir, ignore_errors=True)
    os.makedirs(bdir)

    def analyze_one(a):
        i, (v, b) = a
        src = os.path.join(bdir, "b%04d.nelua" % i)
        with open(src, "w") as f:
            f.write(c15gen.print_program([(v, b)]))
        rc, out, err = vlib.nelua(["--analyze", src], interp=interp, timeout=120)
        return src, rc, (out + err)
    with concurrent.futures.ThreadPoolExecutor(max_workers=4) as ex:
        bres = list(ex.map(analyze_one, enumerate(bprogs)))
    n_b_acc = n_b_rej = n_b_bad = 0
    for (v, b), m, (src, rc, txt) in zip(bprogs, bmodel, bres):
        macc = m[3] == "1"
        located = bool(re.search(r":\d+:\d+: error: ", txt))
        if rc != 0 and not located:
            ctx.violation("boundary-crash:%s" % c15gen.serialise(v, b), "harness", "nelua --analyze crashed on %s: %s" % (src, txt[-300:]), failing_input=False)
            continue
        iacc = rc == 0
        n_b_acc += iacc
        n_b_rej += (not iacc)
        if iacc != macc:
            n_b_bad += 1
            if n_b_bad <= 4:
                ctx.violation("accepted-mismatch:%s" % c15gen.serialise(v, b), "oracle" if iacc else "correspondence",
                              "`accepted` (hypothesis of C15_defer_compile_correct) says %s but nelua --analyze %s: %s; program %s"
                              % (macc, "accepts" if iacc else "rejects (%s)" % (re.findall(r"error: ([^\n]*)", txt) or ["?"])[0], src, c15gen.serialise(v, b)),
                              detail={"program": c15gen.serialise(v, b), "nelua_source": src, "analyzer_output": txt[-600:],
                                      "no_longer_checks": "correspondence stream C15/accepted"}, failing_input=iacc)

    def real_of(a):
        fi, ti, o = a
        if builds[fi]["rc"] != 0:
            return None
        return run_real(builds[fi]["exe"], ti, o)

    with concurrent.futures.ThreadPoolExecutor(max_workers=4) as ex:
        reals = list(ex.map(real_of, index))

    n_eval = 0
    nontrivial = set()
    dist = {}
    feats = set()
    oracle_fail = []      # (size, key, detail)
    tok_fail = []
    self_fail = []
    tok_checked = set()

    def ctoks_of(fi, ti, void):
        try:
            nv = 0 if void else max(1, c15gen.ret_arity(files[fi][ti][1]))
            return norm_tokens(" ".join(["V"] * nv + ["call("] + c15gen.c_tokens("zt%d" % ti, builds[fi]["funcs"], 0, builds[fi]["pairs"]) + [")"]))
        except Exception as exn:  # noqa
            return "!tokenizer: %s" % exn

    exits = {"N": 0, "A": 0}
    for (fi, ti, o), (ref, tgt, mtoks, _acc), real in zip(index, model, reals):
        void, body, orcs, stream, key, is_w = files[fi][ti]
        if real is None:
            continue
        n_eval += 1
        dist[stream] = dist.get(stream, 0) + 1
        ser = c15gen.serialise(void, body)
        ref_cmp = ref
        # the reference outcome of the whole test is N (returned/fell off) or A (oracle exhausted)
        exits[ref.split(";")[0]] = exits.get(ref.split(";")[0], 0) + 1
        if " U" in ref:
            nontrivial.add((ser, tuple(o)))
        if (fi, ti) not in tok_checked:
            tok_checked.add((fi, ti))
            feats |= c15gen.features(body)
            ctoks = mtoks if stream == "toplevel" else ctoks_of(fi, ti, void)
            if ctoks != mtoks and stream in ("wf", "wf-deep", "targeted", "corpus", "lua-subset"):
                tok_fail.append((c15gen.size(body), ser, mtoks, ctoks, builds[fi]["src"], ti))
        if real != ref_cmp:
            k = key if key else "prog:%s|%s" % (ser, " ".join(map(str, o)))
            oracle_fail.append((c15gen.size(body), k, ser, o, ref, real, builds[fi]["src"], ti, stream))
        elif tgt != ref and stream in ("wf", "wf-deep", "targeted", "corpus", "lua-subset"):
            self_fail.append((c15gen.size(body), ser, o, ref, tgt))

    oracle_fail.sort(key=lambda x: (x[0], len(x[3])))
    seen = set()
    shown = 0
    for (sz, k, ser, o, ref, real, src, ti, stream) in oracle_fail:
        if k in seen:
            continue
        seen.add(k)
        if shown >= 6 and not any(kf.get("key") == k for kf in ctx.known):
            continue
        shown += 1
        ctx.violation(k, "oracle",
                      "scope-exit actions: compiled program prints [%s] but the reference semantics (every executed defer exactly once, LIFO, after the returned value) gives [%s]; program %s oracle %s" % (real, ref, ser, o),
                      detail={"program": ser, "oracle": o, "reference": ref, "implementation": real, "stream": stream,
                              "nelua_source": src, "test_function": "zt%d" % ti,
                              "replay": "compile %s with nelua, run: ./p <%d> %s ; model: echo '%s | %s' | coq/C15/driver" % (src, ti, " ".join(map(str, o)), ser, " ".join(map(str, o)))})
    tok_fail.sort(key=lambda x: x[0])
    for (sz, ser, mtoks, ctoks, src, ti) in tok_fail[:3]:
        ctx.violation("model-mismatch:tokens", "correspondence",
                      "the model compiler (coq/C15 cstmt) no longer produces the clean-up placement the generator emits for %s: model [%s] C [%s]" % (ser, mtoks, ctoks),
                      detail={"program": ser, "model_tokens": mtoks, "c_tokens": ctoks, "nelua_source": src,
                              "test_function": "zt%d" % ti, "no_longer_checks": "correspondence stream C15/tokens"},
                      failing_input=False)
    for (sz, ser, o, ref, tgt) in sorted(self_fail)[:3]:
        ctx.violation("model-self:%s|%s" % (ser, o), "proof",
                      "model inconsistency inside the theorem's domain: tgt_sem(compile p) = [%s] but ref_sem p = [%s]" % (tgt, ref),
                      detail={"program": ser, "oracle": o}, failing_input=False)

    if not ctx.thorough:
        pass
    return {
        "evaluations": n_eval,
        "distinct_nontrivial": len(nontrivial),
        "rule": "cases = corpus (incl. the regression witnesses of the repaired defects) + 6 must-reject probes + random programs of the mini-language (streams wf / wf-deep / targeted / lua-subset / toplevel) x oracle scripts (all-ones, empty, random 0..3 of length 6..48); non-trivial = distinct (program, oracle) whose reference trace runs at least one deferred block",
        "samples": [lines[0][:300], lines[len(lines) // 2][:300], lines[-1][:300]],
        "distribution": {"streams": dist, "programs": len(tok_checked), "files": len(files),
                         "distinct_exit_x_context_features": len(feats), "reference_outcomes": exits},
        "oracle_failures": len(oracle_fail),
        "token_mismatches": len(tok_fail),
        "model_self_mismatches": len(self_fail),
        "must_reject_probes": len(MUST_REJECT), "must_reject_failures": n_reject_fail,
        "lua_third_voice": {"runs": n_lua, "mismatches": n_lua_bad},
        "accepted_vs_analyzer": {"programs": nb, "analyzer_accepts": n_b_acc, "analyzer_rejects": n_b_rej, "mismatches": n_b_bad},
        "traces_validated_against_impl": n_eval,
        "structural_comparisons": len(tok_checked),

    }
