"""C16 - preprocessor expansion and specialisation preserve meaning and type identity.

(T) scraped into coq/C16/Gen.v: poly_args_matches compares comptime values; pop_checkpoint merges
    (rather than restores) the saved symbols; generalize = generic(memoize(hygienize f)).
(C) against the real compiler, every run:
    * template programs (## for / ## if / macros defined and called in place / #[e]# / #|'p'..e|#)
      and the hand-expanded program printed from the extracted Coq expander: equal stdout and
      equal multiset of emitted C lines modulo codename hashes and source positions;
    * a generic instantiated with a sequence of argument lists: which instantiations are the same
      type (`==` at compile time), and the behaviour of each, vs the model (memoize);
    * a polymorphic function called with a sequence of arguments: which specialisation each call
      uses (read from the emitted C) and how many are emitted, vs the model (eval_poly);
    * hygiene probes: like-named symbols at the use site, names introduced by the body; what the
      body reads and what is visible afterwards vs the model (checkpoints)."""
import concurrent.futures
import importlib.util
import os
import re
import shutil

import vlib

ID = "C16"
ALLOWED_AXIOMS = []
TRUSTED_BASE = [
    "coqc 8.16.1 kernel (vm_compute only in Examples and the leak witness); no axioms: every theorem of coq/C16/Properties.v is 'Closed under the global context'",
    "translator checks/C16.py:gen (regex scrape of types.lua poly_args_matches/eval_poly, scope.lua checkpoints, ppcontext.lua generalize/hygienize, utils/memoize.lua)",
    "extraction: Require Extraction + ExtrOcamlBasic only; coq/C16/driver.ml (token stream -> template AST, text <-> model values)",
    "harness/C16/gen.py (template generator, renderers of the template and of the expanded program, probe program builders, C canonicaliser), gcc",
    "modelled rather than verified: the Lua code is mirrored by hand in coq/C16/Model.v; the preprocessor itself (preprocessor.lua: translation of the source into a Lua script) is not modelled - the expander is a specification that the real preprocessor is compared against",
]
ASSUMPTIONS = [
    "memoize's argument match is an equivalence on the arguments of generics (types compared by identity, numbers/strings by value)",
    "a scope's ancestors do not change between definition and use of a hygienized function (same scope object)",
    "the root scope is not checkpointed when the generic is defined in a nested scope (stated as C16_hygiene_unbound_names_fall_through_partial)",
    "the own-order theorem excludes a hygienized function that re-enters itself; statements are injected at the function's definition point (by design), not at the call point",
    "template/probe comparison is differential testing over generated programs, not a proof about preprocessor.lua",
]

NAN_KEY = "poly-comptime-nan: q(c: auto <comptime>) called with NaN twice"
NAN_WITNESS = [10, 10]
SIGNED_ZERO_KEY = "poly-comptime-signed-zero: q(c: auto <comptime>) called with 0.0 then -0.0"
SIGNED_ZERO_WITNESS = [7, 8]          # indices into gen.POLYC_ARGS: 0.0, -0.0
INJECT_KEY = "hygienize-inject-order: M0 = {emit}; M1 = {emit; M0(); emit}; both defined first; then a statement, M1(), a statement"
INJECT_WITNESS = ([["e"], ["e", ("c", 0), "e"]], [("d", 0), ("d", 1), "p", ("c", 1), "p"])
THEOREM_CLASSES = {
    "C16_memoize_canonical": "main", "C16_generic_same_type": "main", "C16_memoize_once_per_class": "corollary",
    "C16_polyeval_reuse": "definitional", "C16_polyeval_same_args_one_specialisation": "main",
    "C16_polyeval_distinct_types_distinct_specialisations": "main", "C16_polyeval_comptime_values_distinguish": "main",
    "C16_value_comparison_separation_needed": "refutation", "C16_polyeval_distinct_values_partial": "corollary",
    "C16_polyeval_signed_zero": "tripwire",
    "C16_hygiene_resolution": "main", "C16_hygiene_no_leak": "main", "C16_restoring_pop_needed": "refutation",
    "C16_hygiene_unbound_names_fall_through_partial": "corollary",
    "C16_expand_for": "definitional", "C16_expand_loop_order": "definitional", "C16_expand_if_call": "definitional",
    "C16_hygienize_own_order": "main",
}
UNPROVED = [
    "clause 1 of the statement (code produced by ## loops / ## if / macros / #[ ]# / #| |# behaves like the hand expansion): preprocessor.lua is not modelled; the Coq expander is a specification and its theorems are definitional; the clause rests on compiling generated templates next to their expansion (stdout and emitted C modulo codenames)",
    "cross-nesting named by the quantifier (macros inside generics inside polymorphic functions): the generator nests for/if/macros inside templates and probes generics, polymorphic functions and hygiene separately, not inside one another",
    "memoize's real argument match (== with Type.__eq, shallow_compare_nomt on tables) being an equivalence: discharged only for the modelled match of generics (types by identity, values, nil: C16_generic_same_type); table arguments are covered by C07's memo stream",
    "that same_comptime_value separates exactly the compile-time values code can tell apart: SCRAPED (both branches of poly_args_matches call it; its 1/a == 1/b line) and TESTED by the polyc stream; C16_polyeval_signed_zero is only a tripwire on the scraped flag (the model's value ids are abstract: with the flag every raw id is its own class, for the first two calls of a fresh function); values with __eq metamethods are not covered",
    "NaN compile-time arguments: since 94c863e same_comptime_value treats two NaNs as one value (SCRAPED: the `a ~= a and b ~= b` line; TESTED: NaN witnesses in the polyc stream, one specialisation); NaN is not a flag of the Coq model (the check gives NaN calls one class iff the line is there), so there is no theorem about it",
    "that each poly evaluation yields exactly one emitted C function: read from the emitted C in the poly stream only",
    "the hygiene model has one scope chain and one statement list: that hygienize switches context.scope / statnodes to the definition's (a generic called from another block than its definition) is assumed; covered by the hygiene_nested stream only",
    "statements generated into one place (between two source statements) by different hygienized functions run in generation order: checked on every generated nesting against the implementation and against the cursor model, not a theorem (C16_hygienize_own_order is about one function's own statements)",
    "memo_run's arbitrary pairs() orders are quantified in the theorem but cannot be steered in the harness (C07 runs the memoize module under different hash seeds)",
    "aster.value, inject_value, concepts: through the generated programs only",
]
MANIFEST_ENTRY = {
    "text": "proof, partial: theorems (on hand-written models tied by probe programs) for 'same arguments -> same type' (memoize, premises discharged for the modelled match), 'same argument types -> one specialisation, different -> distinct' (eval_poly), 'free names resolve where the generic was defined, nothing leaks' (checkpoints; restoring pop since b8843bb) and 'injected statements keep their order under nesting' (cursors, 6cc3727); the headline clause 'templates behave like their hand expansion' rests on differential compilation of generated templates only (definitional theorems about the specification expander)",
    "note": "trusted: coqc, regex/structural scrape of poly_args_matches, eval_poly, pop/set/push_checkpoint, hygienize, generalize; harness/C16/gen.py (template and probe generators, renderers, C canonicaliser); the real compiler + gcc; preprocessor.lua unmodelled",
    "technique": "Coq models of memoize / eval_poly / scope checkpoints / statement cursors + template-vs-expansion and probe programs through the real compiler",
}

LEAK_KEY = "hygiene-leak: generic body declares AUX; after `local H1: type = @H(integer)` the use site prints AUX"


def _load():
    p = os.path.join(vlib.VERIF, "harness", ID, "gen.py")
    spec = importlib.util.spec_from_file_location("c16_gen", p)
    m = importlib.util.module_from_spec(spec)
    spec.loader.exec_module(m)
    return m


def gen(ctx):
    """Scrape; Gen.v is written with what was found even if a structural check fails (a stale Gen.v from
    an earlier run must never be used), then the failure is raised."""
    problems = []
    try:
        return _gen(ctx, problems)
    finally:
        if problems:
            raise RuntimeError("; ".join(problems))


def _gen(ctx, problems):
    ty = vlib.repo_read("lualib/nelua/types.lua")
    m = re.search(r"local function poly_args_matches\(largs, rargs\)(.*?)\nend", ty, re.S)
    if not m:
        raise RuntimeError("cannot find poly_args_matches")
    body = m.group(1)
    if not re.search(r"if ltype ~= rtype then\s*return false", body):
        problems.append("poly_args_matches: type comparison not found")
    val_ne = r"(?:larg\.value ~= rarg\.value|not same_comptime_value\(larg\.value, rarg\.value\))"
    val_ne2 = r"(?:rarg\.value ~= larg\.value|not same_comptime_value\(rarg\.value, larg\.value\))"
    cmp_vals = bool(re.search(r"ltype\.is_comptime and traits\.is_attr\(larg\) then\s*if " + val_ne + r" or not traits\.is_attr\(rarg\) then\s*return false", body)
                    and re.search(r"traits\.is_attr\(larg\) and larg\.comptime then\s*if " + val_ne2 + r" or not traits\.is_attr\(rarg\) then\s*return false", body))
    # since cab9725 BOTH branches compare through same_comptime_value, which tells 0.0 from -0.0 (1/a == 1/b)
    msz = re.search(r"local function same_comptime_value\(a, b\)(.*?)\nend", ty, re.S)
    helper = re.sub(r"--[^\n]*", "", msz.group(1)) if msz else ""
    both = bool(re.search(r"ltype\.is_comptime and traits\.is_attr\(larg\) then\s*if not same_comptime_value\(larg\.value, rarg\.value\) or not traits\.is_attr\(rarg\) then\s*return false", body)
                and re.search(r"traits\.is_attr\(larg\) and larg\.comptime then\s*if not same_comptime_value\(rarg\.value, larg\.value\) or not traits\.is_attr\(rarg\) then\s*return false", body))
    signed_zero = bool(both and re.search(r"if a ~= b then return [^\n]*?\bend", helper) and
                       re.search(r"if a == 0 and math\.type\(a\) == 'float' and math\.type\(b\) == 'float' then return 1\s*/\s*a == 1\s*/\s*b end", helper))
    nan_same = bool(both and re.search(r"if a ~= b then return a ~= a and b ~= b end", helper))
    if not re.search(r"function PolyFunctionType:eval_poly\(args, srcnode\)\s*local polyeval\s*if not self\.alwayspoly then\s*polyeval = self:get_poly_eval\(args\)\s*end\s*if not polyeval then\s*polyeval = \{ args = args, srcnode = srcnode\}\s*local evals = self\.evals\s*evals\[#evals\+1\] = polyeval", ty):
        problems.append("eval_poly is not the function the model mirrors")
    sc = vlib.repo_read("lualib/nelua/scope.lua")
    sc_code = re.sub(r"--[^\n]*", "", re.sub(r"--\[\[.*?\]\]", "", sc, flags=re.S))     # comments carry no meaning
    m2 = re.search(r"function Scope:pop_checkpoint\(\)(.*?)\nend", sc_code, re.S)
    if not m2:
        raise RuntimeError("cannot find Scope:pop_checkpoint")
    popbody = re.sub(r"\s+", " ", m2.group(1)).strip()
    if popbody == "local oldcheckpoint = table.remove(self.checkpointstack) self:set_checkpoint(oldcheckpoint)":
        merges = False
    elif popbody == "local oldcheckpoint = table.remove(self.checkpointstack) self:merge_checkpoint(oldcheckpoint)":
        merges = True
    else:
        merges = True
        problems.append("pop_checkpoint is neither `pop; set_checkpoint(old)` nor `pop; merge_checkpoint(old)`: %s" % popbody[:120])
    if not re.search(r"function Scope:set_checkpoint\(checkpoint\)\s*tabler\.clear\(self\.symbols\)\s*tabler\.update\(self\.symbols, checkpoint\.symbols\)", sc):
        problems.append("set_checkpoint is not clear+update")
    if not re.search(r"function Scope:push_checkpoint\(checkpoint\).*?table\.insert\(self\.checkpointstack, self:make_checkpoint\(\)\)\s*self:set_checkpoint\(checkpoint\)", sc, re.S):
        problems.append("push_checkpoint is not save+set")
    pp = vlib.repo_read("lualib/nelua/ppcontext.lua")
    if not re.search(r"return self:generic\(memoize\(self:hygienize\(func\)\)\)", pp):
        problems.append("generalize is no longer generic(memoize(hygienize(func)))")
    if not re.search(r"scope:push_checkpoint\(checkpoint\).*?scope:pop_checkpoint\(\)", pp, re.S):
        problems.append("hygienize no longer brackets the call with push/pop_checkpoint")
    hm = re.search(r"function PPContext:hygienize\(func\)(.*?)\nend", pp, re.S)
    hyg = hm.group(1) if hm else ""
    cursors = bool(re.search(r"local cursor = \{index = #statnodes\+1\}", hyg) and re.search(r"cursor\.index = cursor\.index \+ 1", pp))
    if not cursors and (not re.search(r"local oldaddindex = statnodes\.addindex\b", hyg) or
                        not re.search(r"statnodes\.addindex = addindex\b", hyg) or
                        not re.search(r"statnodes\.addindex = oldaddindex", hyg)):
        problems.append("hygienize: the addindex save/restore is not the one the model mirrors")
    # a repair would move the caller's index past what the callee inserted (any arithmetic on oldaddindex)
    adjusts = bool(re.search(r"oldaddindex\s*=\s*oldaddindex\s*\+", hyg))
    txt = ("(* GENERATED by checks/C16.py from /repo - do not edit *)\n"
           "Definition POLY_COMPARES_COMPTIME_VALUES : bool := %s.\n"
           "Definition POP_CHECKPOINT_MERGES : bool := %s.\n"
           "Definition HYGIENIZE_ADJUSTS_CALLER : bool := %s.\n"
           "Definition HYGIENIZE_USES_CURSORS : bool := %s.\n"
           "Definition POLY_DISTINGUISHES_SIGNED_ZERO : bool := %s.\n" % tuple("true" if x else "false" for x in (cmp_vals, merges, adjusts, cursors, signed_zero)))
    vlib.write_if_changed(os.path.join(vlib.coq_dir(ID), "Gen.v"), txt)
    ctx.c16 = {"poly_compares_comptime_values": cmp_vals, "pop_checkpoint_merges": merges, "hygienize_adjusts_caller": adjusts, "hygienize_uses_cursors": cursors, "poly_distinguishes_signed_zero": signed_zero, "poly_nan_same": nan_same}
    return dict(ctx.c16, generalize="generic(memoize(hygienize(func)))")


HASH_RE = re.compile(r"_[1-9A-HJ-NP-Za-km-z]{10,14}\b")
POS_RE = re.compile(r"prog\.nelua:\d+:\d+")


def canon_c(code):
    """multiset of emitted C lines modulo codename hashes and source positions"""
    out = []
    for line in code.splitlines():
        line = POS_RE.sub("prog.nelua:L:C", HASH_RE.sub("_H", line)).strip()
        if line and not line.startswith("/*"):
            out.append(line)
    return sorted(out)


def correspond(ctx):
    g = _load()
    driver = vlib.ocaml_build(ID)
    interp = vlib.ensure_interp()
    rng = ctx.rng
    work = os.path.join(ctx.work, "run-%d" % os.getpid())
    shutil.rmtree(work, ignore_errors=True)
    os.makedirs(work)

    def model(lines):
        rc, out, err = vlib.sh([driver], input="\n".join(lines) + "\n", timeout=120)
        res = out.split("\n")
        if rc != 0 and os.environ.get("C16_DEBUG"):
            open(os.path.join(ctx.work, "model-input.txt"), "w").write("\n".join(lines) + "\n")
        if rc != 0 or len(res) < len(lines) or any(r.startswith("!exn") for r in res[:len(lines)]):
            raise RuntimeError("model driver failed: %s %s" % (err[-300:], [r for r in res if r.startswith("!exn")][:2]))
        return res[:len(lines)]

    def nelua(d, src, extra=()):
        os.makedirs(d, exist_ok=True)
        f = os.path.join(d, "prog.nelua")
        with open(f, "w") as fh:
            fh.write(src)
        return vlib.nelua(["--cache-dir", os.path.join(d, "cache")] + list(extra) + ["prog.nelua"], interp=interp, cwd=d, timeout=300)

    # ------------------------------------------------------------ cases
    cases = []           # (kind, payload)
    cp = os.path.join(vlib.VERIF, "corpus", ID, "cases.txt")
    corpus_lines = []
    if os.path.exists(cp):
        corpus_lines = [l.split("#")[0].strip() for l in vlib.read(cp).split("\n") if l.split("#")[0].strip()]
    n_tpl = ctx.scale(120, 1500)
    for _ in range(n_tpl):
        cases.append(("template", g.gen_template(rng)))
    for _ in range(ctx.scale(12, 300)):
        calls = [(rng.randrange(4) if rng.random() < .8 else rng.randrange(len(g.TYPES)), rng.choice([1, 2, 2, 3]),
                  rng.choice([None, None, 5, 6])) for _ in range(rng.randint(2, 6))]
        cases.append(("generic", (calls, rng.randint(1, 9), rng.choice([None, rng.randint(11, 19)]))))
    for _ in range(ctx.scale(12, 300)):
        calls = [(rng.randrange(len(g.POLY_ARGS)), rng.choice([1, 2, 2, 3])) for _ in range(rng.randint(2, 8))]
        cases.append(("poly", (calls, rng.random() < .15)))
    for _ in range(ctx.scale(14, 300)):
        defs = {k: rng.randint(1, 9) for k in rng.sample([1, 2], rng.randint(1, 2))}
        use = {k: rng.randint(11, 19) for k in rng.sample([1, 2, 3, 4], rng.randint(0, 3))}
        body = {k: rng.randint(101, 109) for k in rng.sample([3, 4], rng.randint(0, 2))}
        extra = rng.choice([None, None, 3, 4, 1])
        cases.append(("hygiene", (defs, use, body, rng.choice([1, 2, 3, 4]), extra)))
    # an omitted (nil) optional parameter followed by differing arguments: still distinct types
    cases.append(("generic", ([(0, 2, None), (0, 3, None), (0, 2, None), (0, 2, 5)], 3, None)))
    # generics created in a nested scope: the file-level scope is part of the snapshot too
    for _ in range(ctx.scale(6, 120)):
        outer = {k: rng.randint(1, 9) for k in rng.sample([1, 2, 3], rng.randint(1, 3))}
        inner = {k: rng.randint(21, 29) for k in rng.sample([1, 2, 3, 4], rng.randint(0, 2))}
        use = {k: rng.randint(11, 19) for k in rng.sample([1, 2, 3], rng.randint(1, 3))}
        reads = sorted(set(outer) | set(inner))
        cases.append(("hygiene_nested", (outer, inner, use, reads)))
    cases.append(("hygiene_nested", ({1: 10}, {2: 3}, {1: 20, 2: 7}, [1, 2])))
    # the leak witness of C16_restoring_pop_needed, every run; and a body that reads a name bound
    # only at the use site (must be rejected: the body does not see the use site)
    cases.append(("hygiene", ({1: 10, 2: 5}, {1: 20}, {3: 111}, 3, None)))
    cases.append(("hygiene", ({1: 10}, {4: 14}, {}, 1, 4)))

    # comptime arguments of every kind (false, 0, '', nil, 0.0 / -0.0 ...), falsy values first and second
    nk = len(g.POLYC_ARGS)
    rc_n, nan_text, _ = vlib.sh([interp, "-e", "io.write(tostring(0.0/0.0))"])
    g.POLYC_ARGS[g.NAN_ARG] = g.POLYC_ARGS[g.NAN_ARG][:4] + (nan_text,)
    for fixed in ([0, 1, 0, 1], [1, 0, 1], [2, 3, 2], [4, 5, 4], [6, 0, 2, 4, 6], [8, 7], [0, 2, 4, 6, 1, 3, 5], SIGNED_ZERO_WITNESS, NAN_WITNESS, [10, 9, 10, 7]):
        cases.append(("polyc", fixed))
    for _ in range(ctx.scale(10, 200)):
        cases.append(("polyc", [rng.randrange(nk) for _ in range(rng.randint(2, 7))]))
    for i in range(ctx.scale(16, 400)):
        cases.append(("inject", g.gen_inject(rng, nested=(i % 4 != 3))))
    cases.append(("inject", INJECT_WITNESS))

    flags16 = getattr(ctx, "c16", None) or {}

    def polyc_class(i, a):
        """the class of the i-th call's comptime value under the comparison the code uses (as scraped)"""
        if a == g.NAN_ARG:
            return 23 if flags16.get("poly_nan_same") else 40 + i            # a ~= a: never equal to an earlier NaN
        return g.POLYC_ARGS[a][2 if flags16.get("poly_distinguishes_signed_zero") else 3]

    # ------------------------------------------------------------ model
    mlines = list(corpus_lines)
    for kind, p in cases:
        if kind == "template":
            mlines.append(" ".join(["expand"] + g.s_tokens(p)))
        elif kind == "generic":
            mlines.append("generic " + "|".join("T%d;%s;V%d" % (t, "N" if o is None else "V%d" % o, n) for t, n, o in p[0]))
        elif kind == "hygiene_nested":
            outer, inner, use, reads = p
            f = lambda d: ",".join("%d=%d" % kv for kv in sorted(d.items())) or "-"
            at_use = dict(outer)
            at_use.update(use)
            mlines.append("hyg %s/%s %s/%s - %s" % (f(inner), f(outer), f(inner), f(at_use), ",".join(map(str, reads))))
        elif kind == "poly":
            mlines.append("poly %d %s" % (int(p[1]), "|".join("%s;1:0:1:1:%d" % (g.POLY_ARGS[a][1], n) for a, n in p[0])))
        elif kind == "polyc":
            mlines.append("poly 0 " + "|".join("%d:0:1:1:%d;1:0:0:0:-" % (g.POLYC_ARGS[a][1], polyc_class(i, a)) for i, a in enumerate(p)))
        elif kind == "inject":
            mlines.append(g.inject_case(*p)[0])
        else:
            defs, use, body, probe, extra = p
            at_use = dict(defs)
            at_use.update(use)
            f = lambda d: ",".join("%d=%d" % kv for kv in sorted(d.items())) or "-"
            mlines.append("hyg %s %s %s %s" % (f(defs), f(at_use), f(body), ",".join(str(k) for k in sorted(set(defs) | set(body) | {probe} | ({extra} if extra else set())))))
    mres = model(mlines)
    corpus_res, mres = mres[:len(corpus_lines)], mres[len(corpus_lines):]

    # ------------------------------------------------------------ implementation
    def job(a):
        i, (kind, p), m = a
        d = os.path.join(work, "c%d" % i)
        try:
            if kind == "template":
                tsrc = "\n".join(g.render_template(p)) + "\n"
                xl = g.render_expanded(m)
                xsrc = "\n".join(xl) + "\n"
                ref = g.py_expand(p, {})
                r1 = nelua(os.path.join(d, "tpl"), tsrc)
                r2 = nelua(os.path.join(d, "exp"), xsrc)
                c1 = nelua(os.path.join(d, "tpl"), tsrc, ["--print-code"])
                c2 = nelua(os.path.join(d, "exp"), xsrc, ["--print-code"])
                return {"kind": kind, "tsrc": tsrc, "xsrc": xsrc, "lines": len(xl), "model_is_ref": xl == ref,
                        "run": (r1[0], r1[1]), "run_x": (r2[0], r2[1]), "err": r1[2][-500:], "err_x": r2[2][-500:],
                        "c_equal": canon_c(c1[1]) == canon_c(c2[1]), "c_lines": len(canon_c(c1[1]))}
            if kind == "generic":
                src = g.generic_program(*p)
                r = nelua(d, src)
                return {"kind": kind, "src": src, "rc": r[0], "out": r[1], "err": r[2][-500:]}
            if kind == "polyc":
                src = g.polyc_program(p)
                r = nelua(os.path.join(d, "tpl"), src)
                c = nelua(os.path.join(d, "tpl"), src, ["--print-code"])
                x = nelua(os.path.join(d, "exp"), g.polyc_expanded(p))
                main = c[1].split("int nelua_main")[-1] if "nelua_main" in c[1] else c[1]
                return {"kind": kind, "src": src, "rc": r[0], "out": r[1], "err": r[2][-500:], "xsrc": g.polyc_expanded(p), "xout": x[1], "xrc": x[0],
                        "used": [int(v) for v in re.findall(r"prog_q_(\d+)\(", main)]}
            if kind == "poly":
                src = g.poly_program(*p)
                r = nelua(d, src)
                c = nelua(d, src, ["--print-code"])
                main = c[1].split("int nelua_main")[-1] if "nelua_main" in c[1] else c[1]
                return {"kind": kind, "src": src, "rc": r[0], "out": r[1], "err": r[2][-500:],
                        "used": [int(x) for x in re.findall(r"prog_p_(\d+)\(", main)],
                        "defined": len(set(re.findall(r"^\w[\w ]*\bprog_p_(\d+)\([^;]*\{\s*$", c[1], re.M)))}
            src = g.inject_program(*p) if kind == "inject" else g.hygiene_nested_program(*p) if kind == "hygiene_nested" else g.hygiene_program(*p)
            r = nelua(d, src)
            return {"kind": kind, "src": src, "rc": r[0], "out": r[1], "err": r[2][-500:]}
        finally:
            shutil.rmtree(d, ignore_errors=True)

    with concurrent.futures.ThreadPoolExecutor(max_workers=ctx.scale(8, 14)) as ex:
        results = list(ex.map(job, [(i, c, m) for i, (c, m) in enumerate(zip(cases, mres))]))
    shutil.rmtree(work, ignore_errors=True)

    # ------------------------------------------------------------ compare
    dist = {"template": 0, "generic": 0, "poly": 0, "polyc": 0, "hygiene": 0, "inject": 0, "hygiene_nested": 0}
    stats = {"template_lines": 0, "template_empty": 0, "oracle_failures": 0, "model_mismatches": 0, "leaks_observed": 0,
             "specialisations_checked": 0, "type_identities_checked": 0, "c_lines_compared": 0}
    nontrivial = set()
    samples = []
    leak_witness_reproduced, leak_instances = [], []
    inject_witness_reproduced, inject_instances = [], []
    zero_witness_reproduced, zero_instances = [], []
    nan_witness_reproduced, nan_instances = [], []

    def oracle_fail(key, summary, detail):
        stats["oracle_failures"] += 1
        if stats["oracle_failures"] <= 6:
            ctx.violation(key, "oracle", summary, detail=detail)

    def mismatch(stream, summary, detail):
        stats["model_mismatches"] += 1
        if stats["model_mismatches"] <= 4:
            detail = dict(detail, no_longer_checks="correspondence stream C16/%s" % stream)
            ctx.violation("model-mismatch:%s" % stream, "correspondence", summary, detail=detail, failing_input=False)

    for (kind, p), m, r in zip(cases, mres, results):
        dist[kind] += 1
        if kind == "template":
            stats["template_lines"] += r["lines"]
            stats["c_lines_compared"] += r["c_lines"]
            if r["lines"] == 0:
                stats["template_empty"] += 1
            else:
                nontrivial.add(r["tsrc"])
            if len(samples) < 2 and r["lines"] > 3:
                samples.append({"template": r["tsrc"], "expanded": r["xsrc"]})
            ok = r["run"] == r["run_x"] and r["run"][0] == 0 and r["c_equal"]
            if not ok:
                # the oracle is the reference expansion (Python, = the theorem's right-hand side rendered)
                if r["model_is_ref"]:
                    oracle_fail("template: " + r["tsrc"].replace("\n", " ; ")[:400],
                                "template program and its hand expansion differ: run %s / %s, emitted C equal modulo codenames: %s; %s %s" %
                                (r["run"], r["run_x"], r["c_equal"], r["err"][-200:], r["err_x"][-200:]),
                                {"template": r["tsrc"], "expanded": r["xsrc"], "stderr": r["err"], "stderr_expanded": r["err_x"]})
                else:
                    mismatch("expand", "the Coq expander disagrees with the reference expansion", {"template": r["tsrc"], "expanded": r["xsrc"]})
            elif not r["model_is_ref"]:
                mismatch("expand", "the Coq expander disagrees with the reference expansion", {"template": r["tsrc"], "expanded": r["xsrc"]})
        elif kind == "generic":
            calls, kdef, kuse = p
            idx = [int(x) for x in m.split(" #")[0].split()]
            nontrivial.add(r["src"])
            exp = []
            for i, (t, n, _o) in enumerate(calls):
                tot = 8 + 8 * n          # field v padded to the alignment of the integer array
                exp.append("get\t%d\t%d\t%d" % (i, kdef * 1000 + n * 10 + n, tot))
            same = ["true" if idx[i] == idx[j] else "false" for i in range(len(calls)) for j in range(i + 1, len(calls))]
            exp.append("same" + "".join("\t" + s for s in same))
            if kuse is not None:
                exp.append("K\t%d" % kuse)
            stats["type_identities_checked"] += len(same)
            got = r["out"].strip().split("\n")
            # oracle: equal argument lists <=> same type; the body reads the definition-time K
            same_oracle = ["true" if calls[i] == calls[j] else "false" for i in range(len(calls)) for j in range(i + 1, len(calls))]
            exp_oracle = exp[:len(calls)] + ["same" + "".join("\t" + s for s in same_oracle)] + exp[len(calls) + 1:]
            if r["rc"] != 0 or got != exp_oracle:
                oracle_fail("generic: " + r["src"].replace("\n", " ; ")[:500],
                            "generic instantiation: expected %s, got rc=%s %s %s" % (exp_oracle, r["rc"], got, r["err"][-200:]),
                            {"program": r["src"], "expected": exp_oracle, "got": got, "stderr": r["err"]})
            elif exp != exp_oracle:
                mismatch("generic", "model of memoize disagrees with the specification on %s" % (calls,), {"program": r["src"], "model": m})
            if len(samples) < 4:
                samples.append({"generic_program": r["src"], "model": m})
        elif kind == "poly":
            calls, ap = p
            idx = [int(x) for x in m.split(" #")[0].split()]
            nev = int(m.split("#")[1])
            nontrivial.add(r["src"])
            stats["specialisations_checked"] += len(calls)
            # oracle: two calls share a specialisation iff same argument type and same comptime values (never with alwayspoly)
            keyf = lambda a, n: (g.POLY_ARGS[a][1], n)
            seen, oidx = [], []
            for a, n in calls:
                k = keyf(a, n)
                if ap or k not in seen:
                    seen.append(k if not ap else (k, len(seen)))
                    oidx.append(len(seen) - 1)
                else:
                    oidx.append(seen.index(k))

            def val(a, n):
                s = g.POLY_ARGS[a][0]
                if s.startswith("@"):
                    return str(n)
                if s == "true":
                    return str(n + 1000)
                if "." in s:
                    return repr(float(s) * n)
                return str(int(s.split("_")[0]) * n)
            exp_out = ["call\t%d\t%s" % (i, val(a, n)) for i, (a, n) in enumerate(calls)]
            used = [u - 1 for u in r["used"]]
            if r["rc"] != 0 or r["out"].strip().split("\n") != exp_out or used != oidx or r["defined"] != len(seen):
                oracle_fail("poly: " + r["src"].replace("\n", " ; ")[:500],
                            "polymorphic function: expected output %s with specialisations %s (%d emitted); got rc=%s %s, specialisations %s (%d emitted) %s" %
                            (exp_out, oidx, len(seen), r["rc"], r["out"].strip().split("\n"), used, r["defined"], r["err"][-200:]),
                            {"program": r["src"], "expected_specialisation_per_call": oidx, "got": used, "stderr": r["err"]})
            elif idx != oidx or nev != len(seen):
                mismatch("poly", "model of eval_poly (%s #%d) disagrees with the implementation (%s #%d)" % (idx, nev, used, r["defined"]),
                         {"program": r["src"], "model": m})
            if len(samples) < 6:
                samples.append({"poly_program": r["src"], "model": m})
        elif kind == "polyc":
            nontrivial.add(r["src"])
            stats["specialisations_checked"] += len(p)
            idx = [int(v) for v in m.split(" #")[0].split()]
            first, oidx = {}, []
            for a in p:                                   # oracle: one specialisation per distinct (type, value)
                oidx.append(first.setdefault(a, len(first)))
            exp_out = ["call\t%d\t%s" % (i, g.POLYC_ARGS[a][4]) for i, a in enumerate(p)]
            got_out = r["out"].rstrip("\n").split("\n")
            used = [u - 1 for u in r["used"]]
            same_as_expansion = r["rc"] == 0 and r["xrc"] == 0 and r["out"] == r["xout"]
            if not same_as_expansion or got_out != exp_out or used != oidx:
                wrong = [i for i, (a_, b_) in enumerate(zip(got_out, exp_out)) if a_ != b_]
                # explained by the comparison the code uses (the model has its classes): the specialisations are
                # the model's, and the output differs from the expansion at 0.0 / -0.0 arguments only
                explained = r["rc"] == 0 and used == idx and all(p[i] in (7, 8) for i in wrong) and len(got_out) == len(exp_out)
                nan_only = explained and not wrong and g.NAN_ARG in p and not flags16.get("poly_nan_same")
                only_signed_zero = explained and not nan_only and not flags16.get("poly_distinguishes_signed_zero")
                if nan_only and list(p) == NAN_WITNESS:
                    nan_witness_reproduced.append(True)
                    ctx.violation(NAN_KEY, "oracle",
                                  "a polymorphic function called twice with the comptime argument NaN creates two specialisations (same_comptime_value: a ~= a), the property asks for one: specialisation per call %s" % used,
                                  detail={"program": r["src"], "stdout": r["out"], "model": m})
                    continue
                if nan_only:
                    nan_instances.append((r["src"], used))
                    continue
                if only_signed_zero and list(p) == SIGNED_ZERO_WITNESS:
                    zero_witness_reproduced.append(True)
                    ctx.violation(SIGNED_ZERO_KEY, "oracle",
                                  "a polymorphic function called with the comptime arguments 0.0 and -0.0 reuses one specialisation (poly_args_matches compares with ==): prints %s, its hand expansion prints %s" %
                                  (got_out, r["xout"].rstrip("\n").split("\n")),
                                  detail={"program": r["src"], "hand_expansion": r["xsrc"], "stdout": r["out"], "expansion_stdout": r["xout"], "model": m})
                elif only_signed_zero:
                    zero_instances.append((r["src"], got_out))
                else:
                    oracle_fail("polyc: " + r["src"].replace("\n", " ; ")[:500],
                                "polymorphic function with comptime arguments does not behave like its hand expansion: prints %s, the expansion prints %s; specialisation per call %s, expected %s (model %s) %s" %
                                (got_out, r["xout"].rstrip("\n").split("\n"), used, oidx, idx, r["err"][-200:]),
                                {"program": r["src"], "hand_expansion": r["xsrc"], "stdout": r["out"], "expansion_stdout": r["xout"],
                                 "specialisation_per_call": used, "expected": oidx, "model": m})
            elif idx != oidx:
                mismatch("poly", "model of eval_poly (%s) disagrees with the implementation (%s) on comptime arguments" % (idx, used), {"program": r["src"], "model": m})
            if len(samples) < 12:
                samples.append({"polyc_program": r["src"], "model": m})
        elif kind == "hygiene_nested":
            outer, inner, use, reads = p
            nontrivial.add(r["src"])
            ins = m.split(" ")[0][len("inside:"):].split(",")
            exp_model = "inside" + "".join("\t" + v for v in ins)
            oracle_vals = [inner[k] if k in inner else outer[k] for k in reads]      # definition-time bindings
            exp_oracle = "inside" + "".join("\t%d" % v for v in oracle_vals)
            got = r["out"].strip()
            if r["rc"] != 0 or got != exp_oracle:
                oracle_fail("hygiene-nested: " + r["src"].replace("\n", " ; ")[:600],
                            "a generic created in a nested scope must read the definition-time bindings %s, got rc=%s %s %s" % (exp_oracle, r["rc"], got, r["err"][-200:]),
                            {"program": r["src"], "stderr": r["err"], "model": m})
            elif exp_model != exp_oracle:
                mismatch("hygiene", "model of the checkpoint chain (%s) disagrees with the implementation (%s)" % (exp_model, got), {"program": r["src"], "model": m})
        elif kind == "inject":
            nontrivial.add(r["src"])
            own = g.inject_case(*p)[1]
            got = [x for x in r["out"].split()]
            stats["inject_statements"] = stats.get("inject_statements", 0) + len(got)
            # oracle (full strength): the statements a hygienized function emits itself stay in emission order
            pos = {x: i for i, x in enumerate(got)}
            n_total = sum(1 for it in p[1] if it == "p") + sum(len(o) for o in own)
            ordered = r["rc"] == 0 and len(got) == n_total and all(
                all(str(a) in pos and str(b) in pos and pos[str(a)] < pos[str(b)] for a, b in zip(o, o[1:])) for o in own)
            # second oracle (the hand-expanded equivalent): statements generated into one place - between two
            # statements of the source - run in the order in which they were generated
            cnt, plain = [0], set()

            def walk(hh):
                for bb in p[0][hh]:
                    if bb == "e":
                        cnt[0] += 1
                    else:
                        walk(bb[1])
            for it in p[1]:
                if it == "p":
                    cnt[0] += 1
                    plain.add(str(cnt[0]))
                elif it[0] == "c":
                    walk(it[1])
            gap = []
            for x in got + ["P"]:
                if x == "P" or x in plain:
                    if gap != sorted(gap):
                        ordered = False
                    gap = []
                elif x.isdigit():
                    gap.append(int(x))
            model_list = m.split(",") if m else []
            if not ordered:
                if got == model_list and r["rc"] == 0:
                    if p == INJECT_WITNESS:
                        inject_witness_reproduced.append(True)
                        ctx.violation(INJECT_KEY, "oracle",
                                      "statements injected by a hygienized function are reordered by a nested hygienized call: the program prints %s, emission order is 1 2 3 4 5" % " ".join(got),
                                      detail={"program": r["src"], "stdout": r["out"], "model": m})
                    else:
                        inject_instances.append((r["src"], got))
                else:
                    oracle_fail("inject: " + r["src"].replace("\n", " ; ")[:500],
                                "hygienized macros: the statements do not run in the order in which they were generated into their place: final order %s (rc=%s %s), own statements per call %s, model %s" % (got, r["rc"], r["err"][-200:], own, model_list),
                                {"program": r["src"], "stderr": r["err"], "model": m})
            elif got != model_list:
                mismatch("inject", "model of hygienize's addindex bookkeeping (%s) disagrees with the implementation (%s)" % (model_list, got), {"program": r["src"], "model": m})
            if len(samples) < 10:
                samples.append({"inject_program": r["src"], "model": m})
        else:
            defs, use, body, probe, extra = p
            nontrivial.add(r["src"])
            names = sorted(set(defs) | set(body) | {probe} | ({extra} if extra else set()))
            ins, aft = m.split(" ")
            ins = dict(zip(names, ins[len("inside:"):].split(",")))
            aft = dict(zip(names, aft[len("after:"):].split(",")))
            reads = [k for k in defs if k not in body]
            if extra is not None and extra not in reads and extra not in body:
                reads = reads + [extra]
            reads = reads + list(body)
            if extra is not None and extra not in defs and extra not in body:
                # the body reads a name that is unbound at definition time: it must not compile, whatever the use site holds
                stats["unbound_reads"] = stats.get("unbound_reads", 0) + 1
                rejected = r["rc"] != 0 and ("undeclared symbol '%s'" % g.NAMES[extra - 1]) in r["err"]
                if not rejected:
                    oracle_fail("hygiene: " + r["src"].replace("\n", " ; ")[:500],
                                "the body of a generic reads %s, unbound where the generic was defined; the program must be rejected but rc=%s out=%s %s" %
                                (g.NAMES[extra - 1], r["rc"], r["out"].strip()[:100], r["err"][-200:]),
                                {"program": r["src"], "stderr": r["err"], "model": m})
                elif ins[extra] != "nil":
                    mismatch("hygiene", "model says the body sees %s = %s, the implementation rejects it" % (g.NAMES[extra - 1], ins[extra]), {"program": r["src"], "model": m})
                continue
            exp_inside = "inside" + "".join("\t" + (str(body[k]) if k in body else ins[k]) for k in reads)
            # full-strength oracle: the body reads definition-time values; afterwards the use site sees
            # exactly what it saw before the instantiation (no leak)
            at_use = dict(defs)
            at_use.update(use)
            o_inside = "inside" + "".join("\t%d" % (body[k] if k in body else defs[k]) for k in reads)
            o_after = at_use.get(probe)
            got = r["out"].strip().split("\n") if r["out"].strip() else []
            got_inside = got[0] if got else None
            got_after = got[1].split("\t")[1] if len(got) > 1 else None
            undeclared = r["rc"] != 0 and "undeclared symbol" in r["err"]
            model_after = None if aft[probe] == "nil" else aft[probe]
            impl_after = got_after if r["rc"] == 0 else (None if undeclared else "error")
            full_ok = (impl_after == (str(o_after) if o_after is not None else None)) and (r["rc"] != 0 or got_inside == o_inside)
            if impl_after == "error" or (r["rc"] == 0 and got_inside != o_inside):
                oracle_fail("hygiene: " + r["src"].replace("\n", " ; ")[:500],
                            "hygiene probe: body must read %s, got %s (rc=%s %s)" % (o_inside, got_inside, r["rc"], r["err"][-200:]),
                            {"program": r["src"], "stderr": r["err"]})
            elif not full_ok:
                # a name introduced by the body is visible at the use site afterwards
                stats["leaks_observed"] += 1
                if impl_after == model_after and (defs, use, body, probe, extra) == ({1: 10, 2: 5}, {1: 20}, {3: 111}, 3, None):
                    leak_witness_reproduced.append(True)
                    ctx.violation(LEAK_KEY, "oracle",
                                  "a name declared by the body of a generic is visible at the use site after the instantiation: prints %s, expected 'undeclared symbol'" % impl_after,
                                  detail={"program": r["src"], "stdout": r["out"], "model": m})
                elif impl_after == model_after and probe in body and probe not in at_use:
                    # same shape as the witness (probe declared by the body, unbound at the use site): it
                    # shrinks to the witness by dropping the other names; reported under the witness
                    # if that reproduced in this run, on its own otherwise (see below)
                    leak_instances.append((r["src"], impl_after))
                elif impl_after != model_after:
                    oracle_fail("hygiene: " + r["src"].replace("\n", " ; ")[:500],
                                "hygiene probe: after the instantiation the use site sees %s, before it saw %s (model: %s)" % (impl_after, o_after, model_after),
                                {"program": r["src"], "stderr": r["err"], "model": m})
            if r["rc"] == 0 and (got_inside != exp_inside) and got_inside == o_inside:
                mismatch("hygiene", "model of the checkpoints (%s) disagrees with the implementation (%s)" % (exp_inside, got_inside), {"program": r["src"], "model": m})
            if impl_after != "error" and impl_after != model_after and full_ok:
                mismatch("hygiene", "model predicts %s visible after the call, the implementation shows %s" % (model_after, impl_after), {"program": r["src"], "model": m})
            if len(samples) < 8:
                samples.append({"hygiene_program": r["src"], "model": m})

    if leak_instances and not leak_witness_reproduced:
        for src, seen in leak_instances[:3]:
            oracle_fail("hygiene: " + src.replace("\n", " ; ")[:500],
                        "a name declared by the body of a generic is visible at the use site after the instantiation (prints %s) although the canonical witness did not reproduce" % seen,
                        {"program": src})
    stats["leak_instances_shrunk_to_witness"] = len(leak_instances) if leak_witness_reproduced else 0
    if nan_instances and not nan_witness_reproduced:
        for src, got in nan_instances[:3]:
            oracle_fail("polyc: " + src.replace("\n", " ; ")[:500], "NaN comptime arguments get one specialisation per call (%s) although the canonical witness did not reproduce" % got, {"program": src})
    stats["nan_instances_same_shape_as_witness"] = len(nan_instances) if nan_witness_reproduced else 0
    if zero_instances and not zero_witness_reproduced:
        for src, got in zero_instances[:3]:
            oracle_fail("polyc: " + src.replace("\n", " ; ")[:500], "0.0 / -0.0 share a specialisation (%s) although the canonical witness did not reproduce" % got, {"program": src})
    stats["signed_zero_instances_same_shape_as_witness"] = len(zero_instances) if zero_witness_reproduced else 0
    if inject_instances and not inject_witness_reproduced:
        for src, got in inject_instances[:3]:
            oracle_fail("inject: " + src.replace("\n", " ; ")[:500],
                        "statements injected by a hygienized function are reordered (%s) although the canonical witness did not reproduce" % got, {"program": src})
    stats["inject_reorderings_same_shape_as_witness"] = len(inject_instances) if inject_witness_reproduced else 0
    return {
        "evaluations": len(cases) + len(corpus_lines),
        "distinct_nontrivial": len(nontrivial),
        "rule": "cases = generated templates (nested ## for / ## if / in-place macros with #[e]# and #|name|# holes; compiled next to the expansion "
                "returned by the extracted Coq expander), generic instantiation sequences, polymorphic call sequences (runtime, type-valued and "
                "comptime arguments, alwayspoly), hygiene probes (use-site rebinding, body-declared names, probe after the call); "
                "non-trivial = distinct program with at least one expanded line / instantiation",
        "samples": samples,
        "distribution": dict(dist, **stats),
        "corpus_model_results": dict(zip(corpus_lines, corpus_res)),
        "programs": 2 * dist["template"] + dist["generic"] + dist["poly"] + dist["hygiene"],
        "traces_validated_against_impl": len(cases),
        "policy_scraped": getattr(ctx, "c16", None),
        "main_injection_theorem": ("C16_hygienize_own_order (full strength, any nesting depth) is discharged for the scraped bookkeeping (cursors, 6cc3727)"
                                   if (getattr(ctx, "c16", None) or {}).get("hygienize_uses_cursors") else
                                   "hygienize no longer uses cursors: C16_hygienize_own_order cannot check (see proof_problems)"),
        "main_hygiene_theorem": ("C16_hygiene_no_leak : hygiene_no_leak POP_CHECKPOINT_MERGES (full strength: scopes exactly restored, no name of the body "
                                 "stays behind) is discharged for the scraped policy (pop_checkpoint restores)") if not (getattr(ctx, "c16", None) or {}).get("pop_checkpoint_merges", True)
                                else "pop_checkpoint merges again: C16_hygiene_no_leak cannot check (see proof_problems)",
        "unproved": UNPROVED,
    }
