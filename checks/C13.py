"""C13 - string, pattern, utf8, pack and math library functions agree with Lua 5.4.

(T) harness/C13/c13gen.py scrapes strchar's formulas, MAX_MATCH_CALLS, capture limits, utf8 limits ...
    into coq/C13/Gen.v.
(C) three voices on one case file ("op arg..." lines):
      implementation = harness/C13/driver.nelua compiled by the real compiler (each call in a forked child),
      reference      = harness/C13/ref.lua under the interpreter rebuilt from /repo/src (Lua 5.4's own library),
      model          = coq/C13/driver (extracted Gallina model of the port).
    Property oracle: reference Lua's result, rendered in Nelua's documented way."""
import hashlib
import os
import re
import struct
import sys

import vlib

sys.path.insert(0, os.path.join(vlib.VERIF, "harness", "C13"))
import c13gen  # noqa: E402

ID = "C13"
ALLOWED_AXIOMS = []
TRUSTED_BASE = [
    "coqc 8.16.1 kernel (vm_compute used for finite tables and refutation witnesses; no native_compute)",
    "no axioms: every theorem of coq/C13/Properties.v is 'Closed under the global context'",
    "translator harness/C13/c13gen.py (regex scrape + a small expression translator for strchar.nelua's one-line bodies; constants of strpatt/utf8/string and of lstrlib.c/lutf8lib.c)",
    "reference semantics = the string/utf8/math library of the Lua 5.4.6 interpreter rebuilt from /repo/src (harness/C13/ref.lua); the Coq [lua_*] definitions are a hand transcription of lstrlib.c/lutf8lib.c/lmathlib.c/lvm.c",
    "extraction: Require Extraction + ExtrOcamlBasic only; ocaml/zutil.ml + coq/C13/driver.ml; OCaml 4.13.1",
    "harness/C13/driver.nelua (hand-written parser without string-library calls; fork/waitpid per call), gcc, AddressSanitizer for the memory-safety stream",
    "modelled rather than verified: lib/string.nelua, lib/utf8.nelua, lib/math.nelua, lib/detail/strpatt|strpack|strchar.nelua are mirrored by hand in coq/C13/Model*.v; the tie is the per-call correspondence run on every check",
]
ASSUMPTIONS = [
    "TERMINATOR: every pattern and every format string is NUL-terminated, as string literals and strings built by the library are: the models read pattern.data[#pattern] and fmt.data[#fmt] as 0 (ModelPat.P / ModelFmt.hd0), and C13_match_reads_only_its_arguments requires the memories to agree on index #pattern too (a pattern 'a' followed in memory by '*' would behave differently). String VIEWS (subview / matchview / gmatchview results, spans cast to string) used as patterns or formats are excluded from every theorem and from the streams; subjects need no terminator",
    "C 'C' locale for Lua's strcoll/toupper/tolower/isxxx (the interpreter never calls setlocale)",
    "libc memcmp/memchr/memmem behave as their ISO C specifications (memcmp modelled as lexicographic comparison of prefixes)",
    "a single allocation above 2^47 bytes fails (ALLOC_LIMIT in Model.v), used only to say that string.rep stops instead of returning on absurd sizes",
    "string sizes are below 2^63 (hypothesis 'slen s <= maxint' of the index theorems)",
    "string.format: the port's strprintf.snprintf and Lua's l_sprintf are the same C library function (default build, no usestbsprintf / usenanoprintf pragma); its integer/character/string conversions behave as ISO C99 7.21.6.1 (coq/C13/ModelFmt.v c99_snprintf, run against glibc on every check); float conversions and float math are outside the model: differential only",
    "correspondence is differential testing, not a proof that model = code",
]

MININT = -2**63
MAXINT = 2**63 - 1


def gen(ctx):
    txt, info = c13gen.generate(vlib.repo_read)
    vlib.write_if_changed(os.path.join(vlib.coq_dir(ID), "Gen.v"), txt)
    return info


# --------------------------------------------------------------------------------------------
# case construction helpers
# --------------------------------------------------------------------------------------------

def X(b):
    if isinstance(b, str):
        b = b.encode("latin1")
    return "x" + bytes(b).hex()


def unx(tok):
    return bytes.fromhex(tok[1:])


def F(v):
    return "f%016x" % struct.unpack("<Q", struct.pack("<d", v))[0]


UNPACK_FORMATS = []
for _e in "<>":
    for _n in range(1, 17):
        UNPACK_FORMATS.append(_e + "i%d" % _n)
        UNPACK_FORMATS.append(_e + "I%d" % _n)
UNPACK_FORMATS += ['<b', '<B', '<h', '>h', '<H', '>H', '<l', '>l', '<j', '>j', '<J', '>J', '<T', '>T',
                   '!4 <i1 i4', '!8 >i1 i8', '!2 <i1 i8', '!<i1 i3', '<i1 Xi4 i2', '<s1', '>s2', '<s4', 'z', 'c3', '<i2 x i2']


def check_unpack_formats():
    """the three copies of the unpack format menu must agree"""
    for rel in ("driver.nelua", "ref.lua"):
        src = vlib.read(os.path.join(vlib.VERIF, "harness", ID, rel))
        m = re.search(r"for _, f in ipairs\{(.*?)\} do", src, re.S)
        if not m:
            raise RuntimeError("cannot find the unpack format menu in " + rel)
        lst = re.findall(r"'([^']*)'", m.group(1))
        if lst != UNPACK_FORMATS[64:]:
            raise RuntimeError("unpack format menu of %s differs from checks/C13.py" % rel)


ALPHA = [b"a", b"b", b"\x00", b"\xff", b"%", b" "]


def rand_subject(rng, maxlen=6, alpha=ALPHA):
    return b"".join(rng.choice(alpha) for _ in range(rng.randint(0, maxlen)))


def index_lattice(n):
    L = {0, 1, -1, 2, -2, 3, n, -n, n + 1, -(n + 1), n - 1, -(n - 1), n + 2, -(n + 2), MININT, MAXINT, MININT + 1, MAXINT - 1,
         MININT + n, MAXINT - n, 2**31, -2**31, 2**32, -2**32}
    return sorted(L)


# ---- pattern grammar ------------------------------------------------------------------------
CLASSES = "acdglpsuwxACDGLPSUWX"


def gen_set(rng, lits):
    s = "["
    if rng.random() < .3:
        s += "^"
    if rng.random() < .2:
        s += "]"                      # a set whose first member is ']'
    for _ in range(rng.randint(0 if len(s) > 1 and s[-1] == "]" else 1, 3)):
        r = rng.random()
        if r < .3:
            s += "%" + rng.choice(CLASSES)
        elif r < .5:
            a, b = sorted([rng.choice(lits), rng.choice(lits)])
            s += a + "-" + b
        elif r < .6:
            s += rng.choice(["%]", "%-", "%%", "%^", "-", "^"])
        elif r < .65:
            s += "["
        else:
            s += rng.choice(lits)
    return s + "]"


def gen_single(rng, lits):
    r = rng.random()
    if r < .45:
        return rng.choice(lits)
    if r < .55:
        return "."
    if r < .7:
        return "%" + rng.choice(CLASSES)
    if r < .78:
        return "%" + rng.choice(".%()[]*+-?^$")
    return gen_set(rng, lits)


def gen_pattern(rng, lits, depth=0, st=None):
    """st = [number of captures opened so far, number closed]"""
    top = st is None
    if top:
        st = [0, 0]
    out = ""
    if top and rng.random() < .15:
        out += "^"
    for _ in range(rng.randint(1, 4 if depth == 0 else 2)):
        r = rng.random()
        if r < .55:
            out += gen_single(rng, lits) + rng.choice(["", "", "", "*", "+", "-", "?"])
        elif r < .7 and depth < 3 and st[0] < 4:
            st[0] += 1
            out += "(" + gen_pattern(rng, lits, depth + 1, st) + ")"
            st[1] += 1
        elif r < .75 and st[0] < 4:
            st[0] += 1
            st[1] += 1
            out += "()"
        elif r < .82:
            a, b = rng.choice(lits), rng.choice(lits)
            out += "%b" + a + b
        elif r < .9:
            out += "%f" + gen_set(rng, lits)
        elif st[1] > 0:
            out += "%" + str(rng.randint(1, st[1]))
        else:
            out += gen_single(rng, lits)
    if top and rng.random() < .15:
        out += "$"
    return out


def subject_for(rng, lits, maxlen=8):
    pool = lits + [" ", "1", "A"]
    return "".join(rng.choice(pool) for _ in range(rng.randint(0, maxlen)))


def gen_repl(rng, ncap):
    out = ""
    for _ in range(rng.randint(0, 3)):
        r = rng.random()
        if r < .4:
            out += rng.choice(["x", "-", "ab", ""])
        elif r < .6:
            out += "%0"
        elif r < .8:
            out += "%" + str(rng.randint(1, max(1, ncap)))
        elif r < .9:
            out += "%%"
        else:
            out += rng.choice(["%", "%z", "%9"])          # malformed replacement
    return out


# ---- utf8 ------------------------------------------------------------------------------------
def utf8enc(x):
    if x < 0x80:
        return bytes([x])
    out = []
    mfb = 0x3f
    while True:
        out.append(0x80 | (x & 0x3f))
        x >>= 6
        mfb >>= 1
        if x <= mfb:
            break
    out.append(((~mfb << 1) | x) & 0xff)
    return bytes(reversed(out))


CODEPOINTS = [0, 1, 0x41, 0x7f, 0x80, 0x7ff, 0x800, 0xd7ff, 0xd800, 0xdfff, 0xe000, 0xffff, 0x10000, 0x10ffff, 0x110000,
              0x1fffff, 0x200000, 0x3ffffff, 0x4000000, 0x7fffffff]


def utf8enc_forced(x, n):
    """x written with exactly n >= 2 bytes (overlong when x is below the minimum for n)"""
    out = []
    for _ in range(n - 1):
        out.append(0x80 | (x & 0x3f))
        x >>= 6
    lead = (0xff << (8 - n)) & 0xff
    out.append(lead | x)
    return bytes(reversed(out))


UTF8_MIN = {2: 0x80, 3: 0x800, 4: 0x10000, 5: 0x200000, 6: 0x4000000}


def utf8_overlongs():
    out = []
    for n, lo in UTF8_MIN.items():
        cap = (1 << (5 * n + 1)) - 1          # payload bits of an n-byte sequence
        for v in (0, 1, 0x2f, lo // 2, lo - 1, lo, lo + 1, (lo * 3) // 4, (lo * 7) // 8):
            if v <= cap:
                out.append(utf8enc_forced(v, n))
    return out


def utf8_subjects(rng):
    good = [utf8enc(c) for c in CODEPOINTS]
    bad = [b"\x80", b"\xbf", b"\xc0\x80", b"\xc1\xbf", b"\xe0\x80\x80", b"\xf0\x80\x80\x80", b"\xc3", b"\xe4\xb8", b"\xf0\x9f\x98",
           b"\xff", b"\xfe\x80\x80\x80\x80\x80\x80", b"\xfc\x80\x80\x80\x80\x80", b"\xf8\x88\x80\x80\x80", b"\xed\xa0\x80", b"\xf4\x90\x80\x80"]
    out = []
    for _ in range(40):
        parts = [rng.choice(good if rng.random() < .7 else bad) for _ in range(rng.randint(0, 4))]
        out.append(b"".join(parts))
    over = utf8_overlongs()
    return out + good + bad + over + [o + b"A" for o in over[::3]] + [b"", b"A\x80", b"ab", b"\xe4\xb8\xadA"]


# ---- the case file -----------------------------------------------------------------------------
def gen_cases(ctx):
    rng = ctx.rng
    cases = []
    dist = {}

    def add(stream, line):
        cases.append((stream, line))
        dist[stream] = dist.get(stream, 0) + 1

    # (i) index normalisation: subjects x index lattice
    subs = [b"", b"a", b"ab", b"abc", b"a\x00b", b"\xff\x00\xff\x00", b"hello world"] + [rand_subject(rng) for _ in range(ctx.scale(8, 60))]
    for s in subs:
        L = index_lattice(len(s))
        pairs = [(i, j) for i in L for j in L]
        if not ctx.thorough:
            pairs = rng.sample(pairs, 60)
        for i, j in pairs:
            add("index", "sub %s %d %d" % (X(s), i, j))
        for i in L:
            add("index", "sub1 %s %d" % (X(s), i))
            add("index", "byte %s %d" % (X(s), i))
            add("index", "find %s %s %d 1" % (X(s), X(s[1:2]), i))
            add("index", "find %s %s %d 0" % (X(s), X(b"."), i))
            add("index", "match %s %s %d" % (X(s), X(b".?"), i))
        for i, j in rng.sample(pairs, min(len(pairs), 10)):
            add("index", "subview %s %d %d" % (X(s), i, j))
        add("index", "len %s" % X(s))
    # (ii) order and concatenation
    words = [b"", b"a", b"a\x00", b"a\x00a", b"a\x00b", b"a\x00\x00", b"ab", b"b", b"\xff", b"\x7f", b"\x80", b"a\xff", b"\x00", b"\x00\x00", b"\x00a"]
    words += [rand_subject(rng, 5, [b"a", b"b", b"\x00", b"\xff"]) for _ in range(ctx.scale(25, 120))]
    for a in words:
        for b in (words if ctx.thorough else rng.sample(words, 12)):
            for op in ("lt", "le", "eq"):
                add("order", "%s %s %s" % (op, X(a), X(b)))
        add("order", "concat %s %s" % (X(a), X(rng.choice(words))))
        add("order", "eq %s %s" % (X(a), X(a)))
    # (iii) rep / reverse / case mapping
    for s in [b"", b"a", b"ab", b"abc", b"abcd", b"abcde", b"\x00\xff"]:
        for n in [-1, 0, 1, 2, 3, 7, MININT]:
            add("rep", "rep %s %d" % (X(s), n))
        # sizes around the usize limit: n * #s = 2^64 - 1 exactly, one below / above, and far above
        if len(s) > 0:
            for tot in (2**64 - 1, 2**64, 2**64 + len(s), 2**65 + 4):
                n = tot // len(s)
                if n <= MAXINT:
                    for d in (-1, 0, 1):
                        if 1 < n + d <= MAXINT and not (2**32 < (n + d) * len(s) < 2**63):
                            add("rep", "rep %s %d" % (X(s), n + d))
            for sep in [b"", b",", b"--"]:
                add("rep", "repsep %s %d %s" % (X(s), n, X(sep)))
    allb = bytes(range(256))
    for k in range(0, 256, 32):
        add("case", "upper %s" % X(allb[k:k + 32]))
        add("case", "lower %s" % X(allb[k:k + 32]))
    for _ in range(ctx.scale(30, 300)):
        s = rand_subject(rng, 9, [bytes([rng.randrange(256)]) for _ in range(6)])
        add("case", "%s %s" % (rng.choice(["upper", "lower", "reverse"]), X(s)))
    # (iv) patterns: find / match / gmatch / gsub over the full grammar
    npat = ctx.scale(2500, 60000)
    for _ in range(npat):
        lits = rng.sample(["a", "b", "c", "(", ")", "x", "]", "-", "\x00", "\xff"], 3)
        p = gen_pattern(rng, [x for x in lits])
        ncap = p.count("(")
        for _k in range(3):
            s = subject_for(rng, lits)
            r = rng.random()
            if r < .25:
                add("pattern", "find %s %s %d 0" % (X(s), X(p), rng.choice([1, 1, 1, 2, -1, 0, len(s) + 1, len(s) + 2, -len(s)])))
            elif r < .5:
                add("pattern", "match %s %s %d" % (X(s), X(p), rng.choice([1, 1, 1, 2, -1, len(s) + 1])))
            elif r < .7:
                add("pattern", "gmatch %s %s" % (X(s), X(p)))
            elif r < .85:
                add("pattern", "gsub3 %s %s %s" % (X(s), X(p), X(gen_repl(rng, ncap))))
            else:
                add("pattern", "gsub %s %s %s %d" % (X(s), X(p), X(gen_repl(rng, ncap)), rng.choice([0, 1, 2, 3, -1, 100, MAXINT, MININT])))
    # sets whose first member is ']' and other shapes named by the mutation plan
    for p in ["[]]", "[^]]", "[][]", "[]-a]", "[^]a]+", "[a-]", "[%a-z]", "[]%]]*", "%f[]]", "%f[^]]", "[]", "[^]", "[a", "%", "a%", "(", ")", "%b", "%bx", "%f", "%fa", "(()", "%1", "(a)%2", "(a*(.)%w(%s*))", "a-", "a*-", "^", "$", "^$", "^^", "$$", "a$b", ".-$", "()", "()a()", "(a)(b)(c)(d)(e)(f)(g)(h)(i)"]:
        for s in ["", "]", "a]", "]]a", "[a]", "a-z", "abc abc", "(a)", "a b"]:
            add("pattern-shapes", "find %s %s 1 0" % (X(s), X(p)))
            add("pattern-shapes", "match %s %s 1" % (X(s), X(p)))
            add("pattern-shapes", "gsub3 %s %s %s" % (X(s), X(p), X("<%0>")))
            add("pattern-shapes", "gmatch %s %s" % (X(s), X(p)))
    # deep backtracking against the recursion budgets (MAX_MATCH_CALLS vs MAXCCALLS)
    for k in (1, 5, 10, 15, 16, 28, 29, 30, 31, 32, 40, 100, 199, 200, 201, 250):
        add("pattern-depth", "find %s %s 1 0" % (X("a" * 3), X("a?" * k + "b")))
        add("pattern-depth", "match %s %s 1" % (X("a" * k), X("a-" * 3 + "$")))
        add("pattern-depth", "find %s %s 1 0" % (X("x"), X("(" * min(k, 40) + "x" + ")" * min(k, 40))))
    # malformed / random soup
    for _ in range(ctx.scale(600, 8000)):
        p = "".join(rng.choice(list("ab%[]()^$*+-?.f1b")) for _ in range(rng.randint(1, 7)))
        s = "".join(rng.choice("ab ]") for _ in range(rng.randint(0, 5)))
        add("pattern-soup", rng.choice(["find %s %s 1 0", "match %s %s 1", "gmatch %s %s", "gsub3 %s %s x2d"]) % (X(s), X(p)))
    # plain find
    for _ in range(ctx.scale(300, 4000)):
        s = rand_subject(rng, 8, [b"a", b"b", b"%", b"."])
        p = rand_subject(rng, 3, [b"a", b"b", b"%", b"."])
        add("find-plain", "find %s %s %d 1" % (X(s), X(p), rng.choice([1, 2, -1, -3, 0, len(s), len(s) + 1])))
    # (v) utf8
    for c in CODEPOINTS + [0x7fffffff + 1, 0xffffffff, 2**32, 2**32 + 0x41, -1, MININT, MAXINT] + [rng.randrange(0, 2**31) for _ in range(ctx.scale(100, 3000))]:
        add("utf8", "utf8char %d" % c)
    add("utf8", "utf8char2 %d %d" % (0x4e2d, 0x41))
    for s in utf8_subjects(rng):
        n = len(s)
        for lax in (0, 1):
            add("utf8", "utf8len %s 1 -1 %d" % (X(s), lax))
            add("utf8", "utf8codes %s %d" % (X(s), lax))
            for i in (1, 2, n, n + 1, -1, 0, -n, -(n + 1), MININT, MAXINT):
                add("utf8", "utf8codepoint %s %d %d" % (X(s), i, lax))
        for i in (1, 2, 3, n, n + 1, n + 2, 0, -1, -n, -(n + 1), MININT):
            for j in (-1, 0, 1, n, n + 1, -n - 1):
                add("utf8", "utf8len %s %d %d 0" % (X(s), i, j))
        for k in (0, 1, 2, 3, -1, -2, n, -n, n + 1, MININT, MAXINT):
            add("utf8", "utf8offset2 %s %d" % (X(s), k))
            for i in (1, 2, n, n + 1, n + 2, 0, -1, -n):
                add("utf8", "utf8offset %s %d %d" % (X(s), k, i))
    # (vi) pack / unpack / packsize
    for e in "<>=":
        for n in range(1, 17):
            for sg in "iI":
                fmt = "%s%s%d" % (e, sg, n)
                bits = 8 * n
                vals = {0, 1, -1, 2, -2, 127, 128, 255, 256, -128, -129, MININT, MAXINT, MININT + 1, -255, -256, 0x0102030405060708, -0x0102030405060708}
                if bits < 64:
                    vals |= {2**(bits - 1) - 1, 2**(bits - 1), -2**(bits - 1), -2**(bits - 1) - 1, 2**bits - 1, 2**bits}
                for v in sorted(vals):
                    add("pack", "pack1 %s %d" % (X(fmt), v))
    for fmt in ["b", "B", "h", "H", "l", "L", "j", "J", "T", "<h", ">h", "<j", ">J", "!4 i1 i4", "!8 i1 i8", "!2i1i8", "!i1 i3", "<i1 Xi4 i2", "i1 x i2", "!16 i1 i16"]:
        for v in (0, 1, -1, 255, 256, 65535, -32768, MININT, MAXINT):
            add("pack", "pack1 %s %d" % (X(fmt), v))
            add("pack", "pack2 %s %d %d" % (X(fmt), v, rng.choice([0, 1, -1, 1000])))
    for fmt in ["s1", "s2", ">s4", "z", "c0", "c3", "c5", "s", "<s8"]:
        for s in [b"", b"a", b"abc", b"a\x00b", b"x" * 300]:
            add("pack", "packs %s %s" % (X(fmt), X(s)))
    opts = ["b", "B", "h", "H", "i", "I", "l", "L", "j", "J", "T", "f", "d", "n", "i3", "I7", "i16", "i17", "i0", "x", "X", "Xi4", "Xh", "Xd", " ", "<", ">", "=", "!", "!2", "!4", "!8", "!16", "!3", "!17", "c3", "c", "c0", "s", "z", "s4", "q", "Xz", "X<"]
    for _ in range(ctx.scale(500, 6000)):
        add("pack", "packsize %s" % X("".join(rng.choice(opts) for _ in range(rng.randint(0, 5)))))
    # the number reader at Lua's limits (numbers <= 2147483639 = the largest getnum reads, total <= INT_MAX: beyond
    # them Lua refuses and the port, which has no such caps, does not - outside the property, see UNPROVED)
    for f in ["c2147483639", "c2147483638x", "c2147483632i7", "c0000000012", "c214748364c9", "!0008i4", "i016", "I0000000001",
              "!00016 i1 i016", "c1073741823c1073741823x", "c99 X i8", "s016", "c2147483639 !8 Xj"]:
        add("pack", "packsize %s" % X(f))
    # (vi-b) string.format: integer / character / string conversions (model + spec voices), floats differential
    ivals = [0, 1, -1, 7, -7, 8, 9, 10, 65, 255, 256, -255, 12345, -12345, 2**31 - 1, 2**31, -2**31, 2**32 + 65, -(2**32) - 191,
             MAXINT, MININT, MININT + 1, MAXINT - 1, 0x0123456789abcdef]
    allowed = {"d": "-+0 ", "i": "-+0 ", "u": "-0", "o": "-#0", "x": "-#0", "X": "-#0", "c": "-", "s": "-"}
    widths = ["", "1", "5", "12", "20", "99"]
    precs = ["", ".", ".0", ".1", ".5", ".20", ".99"]

    def subsets(fl):
        out = [""]
        for ch in fl:
            out += [x + ch for x in out]
        return out
    fmt_lines = []
    for cv, fl in allowed.items():
        for fs in subsets(fl):
            for w in widths:
                for pr in (precs if cv != "c" else [""]):
                    spec = "%" + fs + w + pr + cv
                    if cv == "s":
                        for sv in (b"", b"a", b"hello", b"x" * 99, b"y" * 100, b"z" * 150):
                            fmt_lines.append("fmts %s %s" % (X(spec), X(sv)))
                        fmt_lines.append("fmti %s %d" % (X(spec), rng.choice(ivals)))
                    else:
                        for v in ([0, 1, -1] + rng.sample(ivals, 3)):
                            fmt_lines.append("fmti %s %d" % (X(spec), v))
    if not ctx.thorough:
        fmt_lines = rng.sample(fmt_lines, 2500)
    for ln in fmt_lines:
        add("format", ln)
    # flags a conversion does not take (Lua 5.4 refuses them, some are undefined in C), malformed and over-long specifications
    for _ in range(ctx.scale(400, 4000)):
        cv = rng.choice("diuoxXcs")
        spec = "%" + "".join(rng.choice("-+ #0") for _ in range(rng.randint(0, 3))) + rng.choice(widths) + rng.choice(precs) + cv
        if cv == "s":
            add("format", "fmts %s %s" % (X(spec), X(rng.choice([b"", b"ab", b"a\x00b", b"q" * 120]))))
        else:
            add("format", "fmti %s %d" % (X(spec), rng.choice(ivals)))
    for spec in ["%", "%5", "%5%", "%q", "%z", "%ld", "%lld", "%hd", "%100d", "%.100d", "%1.123d", "%012d", "%-----5d", "%------5d", "%--------------------d",
                 "%---------------------d", "%5-3d", "%.-3d", "%..3d", "%5.5.5d", "%*d", "%p", "%n", "%F", "%\x00d", "abc%", "%%", "100%%", "%%%d%%", "a\x00b%dc"]:
        add("format", "fmti %s %d" % (X(spec), 42))
        add("format", "fmt0 %s" % X(spec))
    # items at and around the item buffer MAX_ITEM (and Lua's 100-byte shortcut): %s subjects of lengths around them under every
    # kind of modifier, numeric conversions at the largest width / precision
    for ln in (98, 99, 100, 101, 127, 128, 129, 510, 511, 512, 513, 514, 1000, 5000):
        sv = bytes((97 + (k % 26)) for k in range(ln))
        for spec in ("%s", "%5s", "%-5s", "%99s", "%-99s", "%.3s", "%.99s", "%20.10s", "[%5s]", "%-99.99s|"):
            add("format", "fmts %s %s" % (X(spec), X(sv)))
        add("format", "fmtis %s %d %s" % (X("%d:%10s"), rng.choice(ivals), X(sv)))
        add("format", "fmtsi %s %s %d" % (X("%-8s|%x"), X(sv), rng.choice(ivals)))
    for spec in ("%99.99d", "%-99.99d", "%+099d", "%#99.99x", "%#99.99o", "%-#99.99X", "%99.99u", "%099u", "% 99.99i", "%99c", "%-99c", "%.99d", "%#.99o"):
        for v in (0, 1, -1, MAXINT, MININT, 0x0123456789abcdef):
            add("format", "fmti %s %d" % (X(spec), v))
    for f2 in ["%d and %d", "%5d|%-5d|", "%x%X", "%c%c", "%d%%%d", "%s=%d"]:
        for _ in range(6):
            add("format", "fmtii %s %d %d" % (X(f2), rng.choice(ivals), rng.choice(ivals)))
    for f2, k in [("%d:%s", "fmtis"), ("%5.3d[%-8.2s]", "fmtis"), ("%c%s%%", "fmtis"), ("%s:%d", "fmtsi"), ("%10s|%+d", "fmtsi"), ("%.3s%x", "fmtsi")]:
        for sv in (b"", b"abc", b"hello world", b"w" * 130):
            v = rng.choice(ivals)
            add("format", ("%s %s %d %s" % (k, X(f2), v, X(sv))) if k == "fmtis" else ("%s %s %s %d" % (k, X(f2), X(sv), v)))
    # float conversions: differential only (the model declines); integers given to float conversions and floats given to %d
    for spec in ["%f", "%e", "%g", "%a", "%5.2f", "%-12.3e", "%+.0f", "%#.3g", "% 010.4f", "%.99f", "%99.99f", "%E", "%G", "%A"]:
        for v in (0, 1, -1, 255, 2**53 + 1, MAXINT, MININT):
            add("format", "fmti %s %d" % (X(spec), v))
        for fv in (0.0, -0.0, 1.5, -2.25, 1e15, 1e16, 1e100, 123456.789, 5e-324, float("inf"), float("-inf")):
            add("format", "fmtf %s %s" % (X(spec), F(fv)))
    for fv in (3.0, -0.0, 3.5, 2.0**53, 2.0**63, -2.0**63, 1e100, float("inf"), float("nan"), 0.5, -7.0):
        for spec in ("%d", "%5d", "%x", "%c", "%i"):
            add("format", "fmtf %s %s" % (X(spec), F(fv)))
    for k, fmt in enumerate(UNPACK_FORMATS, 1):
        m = re.match(r"^[<>]([iI])(\d+)$", fmt)
        datas = []
        if m:
            n = int(m.group(2))
            pats = [b"\x00", b"\xff", b"\x7f", b"\x80", b"\x01", b"\xfe"]
            for _ in range(ctx.scale(12, 80)):
                datas.append(bytes(rng.choice(pats)[0] for _ in range(n)))
            datas += [b"\xff" * n, b"\x00" * n, b"\x80" + b"\x00" * (n - 1), b"\x00" * (n - 1) + b"\x80", b"\xff" * (n - 1), b"\x7f" + b"\xff" * (n - 1), b"\xff" * (n - 1) + b"\x7f"]
            datas += [bytes(rng.randrange(256) for _ in range(n)) for _ in range(4)]
        else:
            for _ in range(ctx.scale(10, 60)):
                datas.append(bytes(rng.choice([0, 1, 2, 3, 0xff, 0x80, 0x7f, 0x61]) for _ in range(rng.randint(0, 20))))
        for d in datas:
            add("unpack", "unpack %d %s 1" % (k, X(d)))
        for d in datas[:3]:
            for init in (2, 0, -1, -len(d), len(d) + 1, len(d) + 2, len(d) + 3, len(d) + 4, MININT, MAXINT):
                add("unpack", "unpack %d %s %d" % (k, X(b"\x00" + d), init))
    # (vii) math
    ints = sorted({0, 1, -1, 2, -2, 3, -3, 7, -7, 10, MININT, MAXINT, MININT + 1, MAXINT - 1, 2**31, -2**31, 2**32, 2**53, 2**53 + 1, -(2**53) - 1, 2**62, -2**62})
    for a in ints:
        for op in ("abs", "floor", "ceil", "tointeger"):
            add("math", "%s %d" % (op, a))
        for b in ints:
            for op in ("fmod", "ult", "max2", "min2"):
                add("math", "%s %d %d" % (op, a, b))
        for _ in range(4):
            b, c = rng.choice(ints), rng.choice(ints)
            add("math", "max3 %d %d %d" % (a, b, c))
            add("math", "min3 %d %d %d" % (a, b, c))
    for _ in range(ctx.scale(400, 5000)):
        a, b = rng.randrange(MININT, MAXINT + 1), rng.choice([rng.randrange(MININT, MAXINT + 1), rng.randrange(-5, 6)])
        add("math", "%s %d %d" % (rng.choice(["fmod", "ult", "max2", "min2"]), a, b))
    nan = float("nan")
    fl = [0.0, -0.0, 1.0, -1.0, 0.5, -0.5, 2.5, -2.5, 1e300, -1e300, float("inf"), -float("inf"), nan, 2.0**63, -2.0**63, 2.0**53 + 2, 5e-324, 3.0, -3.0]
    for a in fl:
        for op in ("ffloor", "fceil", "fabs"):
            add("math-float", "%s %s" % (op, F(a)))
        for b in fl:
            for op in ("fmax2", "fmin2", "ffmod"):
                add("math-float", "%s %s %s" % (op, F(a), F(b)))
            c = rng.choice(fl)
            add("math-float", "fmax3 %s %s %s" % (F(a), F(b), F(c)))
            add("math-float", "fmin3 %s %s %s" % (F(a), F(b), F(c)))
    return cases, dist


# --------------------------------------------------------------------------------------------
# witnesses of the REPAIRED defects (known_findings/C13.json "fixed:"): one exact input each, replayed on every run.
# There is no class-level attribution any more: every failing input is a VIOLATION (a finding is matched by
# known_findings on its exact key only).
# --------------------------------------------------------------------------------------------
WITNESSES = [
    # (case line, needs the AddressSanitizer build)
    ("gmatch x616263 x782a", False),
    ("gmatch x616161 x5e61", False),
    ("rep x61626364 4611686018427387905", False),
    ("rep x616263 6148914691236517205", False),
    ("fmod -9223372036854775808 -1", False),
    ("utf8char 4294967361", False),
    ("pack1 x3c6931 300", False),
    ("utf8codes x4180 0", False),
    ("fmax2 f7ff8000000000000 f3ff0000000000000", False),
    ("find x x25665b257a5d 1 0", False),
    ("utf8codepoint xe4b8ad 2 0", True),
    ("fabs f8000000000000000", False),
    ("find x41 x28 1 0", False),
    ("packsize x63", False),
    ("unpack 87 x00 9223372036854775807", False),
    ("utf8offset2 x 1", False),
    ("pack1 x3c4939 -1", False),
    ("fmti x252364 5", False),
    ("fmtf x2564 f400c000000000000", False),
    ("fmts x25352e3273 x61006263", False),
    ("fmtf x252e393966 f54b249ad2594c37d", False),
    ("find x412941 x29 1 0", False),          # d52527d: each must return what Lua returns (2 2, 3 3, 2 2, 1 2)
    ("find x286129 x29 1 0", False),
    ("find x412941 x29 1 1", False),
    ("find x2900 x2900 -2 0", False),
]
PATTERN_OPS = ("find", "match", "gmatch", "gsub", "gsub3")
# the stops of the pattern functions that the port documents (the model voice names its reason): recursion budget
# MAX_MATCH_CALLS = 32, position captures "not supported yet", the 8-capture limit of gmatch.  A stop for any other reason
# (e.g. the matcher reporting a malformed pattern) where Lua returns a value is a FAIL
DOCUMENTED_PATTERN_STOPS = ("!trap:complex", "!trap:poscapture", "!trap:caplimit")


# --------------------------------------------------------------------------------------------
# the property oracle
# --------------------------------------------------------------------------------------------

def render_lua_as_nelua(a, lua):
    """Lua's nil/fail results in Nelua's documented rendering (zero index, false flag, empty string...)."""
    op = a[0]
    if op == "find" and lua == "nil":
        return "0 0"
    if op == "match" and lua == "nil":
        return "false"
    if op in ("utf8offset", "utf8offset2") and lua == "nil":
        return "-1"
    if op in ("ffloor", "fceil") and lua.startswith("i"):
        return F(float(int(lua[1:])))     # Lua returns an integer where the typed port returns the same value as a float
    if op == "byte" and lua == "nil" and a[1] in ("x", "e"):
        return "0"                    # string.byte on the empty string returns 0 ("TODO: return nil")
    return lua


def verdict(a, lua, nel):
    """-> (status, why).  status: ok | undefined (the port stops where Lua is defined: outside the
    property's domain, counted) | FAIL"""
    if nel.startswith("!sig") or nel.startswith("!exit") or nel == "!nonterminating":
        if nel == "!sig6":
            return ("ok", "both-stop") if lua.startswith("!error") else ("undefined", "port stops, Lua defined")
        if nel == "!sig14" or nel == "!nonterminating":
            return "FAIL", "the port does not terminate"
        if nel == "!exit77":
            return "FAIL", "AddressSanitizer: the port reads or writes outside its arguments and buffers"
        return "FAIL", "the port crashes (%s) instead of returning or stopping in a check" % nel
    if nel.startswith("?"):
        return "FAIL", "harness does not know the op"
    if lua.startswith("!error"):
        return "FAIL", "reference Lua raises an error (%s) but the port returns a value" % lua[7:90]
    want = render_lua_as_nelua(a, lua)
    if want == nel:
        return "ok", "equal"
    if a[0] in ("ffloor", "fceil") and lua == "i0" and nel == "f8000000000000000":
        return "ok", "equal"          # integer 0 vs float -0.0: numerically equal
    if lua == "nil":
        return "undefined", "Lua has no value"    # e.g. byte: handled above; position captures
    return "FAIL", "results differ"


def build_driver(ctx, asan=False):
    """compile harness/C13/driver.nelua with the real compiler; binary cached by the hash of the
    driver and of the library sources it is built from"""
    src = os.path.join(vlib.VERIF, "harness", ID, "driver.nelua")
    libfiles = vlib.walk_files(os.path.join(vlib.REPO, "lib"), (".nelua",)) + vlib.walk_files(os.path.join(vlib.REPO, "lualib"), (".lua",))
    key = vlib.sha_files([src] + libfiles)[:16] + ("-asan" if asan else "")
    out = os.path.join(ctx.work, "driver-" + key)
    if os.path.exists(out):
        return out
    prune_work(ctx)
    extra = ["--cflags=-fsanitize=address -fno-omit-frame-pointer -g"] if asan else []
    tmp = "%s.tmp%d" % (out, os.getpid())
    rc, o, e = vlib.nelua_build(src, tmp, extra=extra, cache_dir=os.path.join(ctx.work, "nelua-cache-%s-%d" % (key, os.getpid())))
    if rc != 0 or not os.path.exists(tmp):
        raise RuntimeError("cannot compile the Nelua driver: " + (o + e)[-1500:])
    os.rename(tmp, out)
    return out


def prune_work(ctx, max_age=7200):
    """drivers and compile caches of other source states (another run may be using them: only remove
    what has not been touched for two hours)"""
    import shutil
    import time
    now = time.time()
    for f in os.listdir(ctx.work):
        if f.startswith(("driver-", "nelua-cache-", "probe-cache-")):
            p = os.path.join(ctx.work, f)
            try:
                if now - os.path.getmtime(p) > max_age:
                    shutil.rmtree(p) if os.path.isdir(p) else os.remove(p)
            except OSError:
                pass


def run_three(ctx, lines, drv, interp, model, asan_drv=None):
    text = "\n".join(lines) + "\n"
    env = {"ASAN_OPTIONS": "exitcode=77:detect_leaks=0:abort_on_error=0"}
    rc1, nout, nerr = vlib.sh([asan_drv or drv], input=text, timeout=3000, env=env)
    rc2, lout, lerr = vlib.run_lua(os.path.join(vlib.VERIF, "harness", ID, "ref.lua"), input=text, interp=interp, timeout=3000)
    rc3, mout, merr = vlib.sh([model], input=text, timeout=900)
    nl, ll, ml = nout.split("\n"), lout.split("\n"), mout.split("\n")
    if rc1 != 0 or rc2 != 0 or rc3 != 0 or min(len(nl), len(ll), len(ml)) < len(lines):
        raise RuntimeError("harness run failed: driver rc=%s lua rc=%s model rc=%s lines %d/%d/%d of %d: %s %s" %
                           (rc1, rc2, rc3, len(nl), len(ll), len(ml), len(lines), lerr[-300:], merr[-300:]))
    return nl, ll, ml


def model_agrees(m, nel):
    if m == "?":
        return True
    if m == "!trap" or m.startswith("!trap:"):
        return nel == "!sig6"
    if m == "!unsafe":
        # the model says the code runs into undefined behaviour: only a crash / sanitizer report / hang of the implementation
        # agrees with that (a value returned is a mismatch: the theorems say the outcome is unreachable)
        return nel.startswith("!sig") or nel.startswith("!exit") or nel == "!nonterminating"
    if m == "!loop":
        return nel == "!nonterminating"
    return m == nel


def correspond(ctx):
    check_unpack_formats()
    model = vlib.ocaml_build(ID)
    interp = vlib.ensure_interp()
    drv = build_driver(ctx)
    asan_drv = build_driver(ctx, asan=True)

    corpus = []
    cp = os.path.join(vlib.VERIF, "corpus", ID, "cases.txt")
    if os.path.exists(cp):
        for line in vlib.read(cp).split("\n"):
            line = line.strip()
            if line and not line.startswith("#"):
                corpus.append(("corpus", line))
    witnesses = [("witness", k) for k, needs_asan in WITNESSES if not needs_asan]
    gen_list, dist = gen_cases(ctx)
    cases = witnesses + corpus + gen_list
    dist["witness"] = len(witnesses)
    dist["corpus"] = len(corpus)
    lines = [c[1] for c in cases]
    nl, ll, ml = run_three(ctx, lines, drv, interp, model)

    # memory-safety stream under AddressSanitizer: witnesses + a sample of every stream
    asan_lines = [k for k, needs_asan in WITNESSES if needs_asan] + ["find e x25665b257a5d 1 0"]
    sample = [l for (st, l) in cases if st in ("witness", "corpus")]
    rest = [l for (st, l) in gen_list if not l.startswith(("rep ", "repsep "))]
    sample += ctx.rng.sample(rest, min(len(rest), ctx.scale(6000, 40000)))     # a fork under ASan costs ~4 ms
    # the same subjects as a static empty literal for the frontier class
    asan_all = asan_lines + sample
    anl, all_, aml = run_three(ctx, asan_all, drv, interp, model, asan_drv=asan_drv)

    stats = {"ok": 0, "undefined": 0, "FAIL": 0}
    per_op = {}
    err_kinds = {}
    nontrivial = set()
    n_model_mismatch = 0
    reported = 0
    failing = []
    voiced = {}
    spec_stats = {"checked": 0, "mismatch": 0}
    spec_fail = []
    undefined_by = {}

    def handle(line, lua, nel, mod, tag=""):
        nonlocal n_model_mismatch, reported
        a = line.split()
        per_op[a[0]] = per_op.get(a[0], 0) + 1
        spec = None
        if " || " in mod:                 # the model driver also prints the Coq transcription of Lua (the SPEC side of the theorems)
            mod, spec = mod.split(" || ", 1)
        if mod != "?":
            voiced[a[0]] = voiced.get(a[0], 0) + 1
        if spec is not None and spec != "?" and not tag:
            spec_stats["checked"] += 1
            if not ((spec == "!error" and lua.startswith("!error")) or spec == lua):
                spec_stats["mismatch"] += 1
                spec_fail.append("%s | spec=%s | lua=%s" % (line[:100], spec[:60], lua[:90]))
                if spec_stats["mismatch"] <= 3:
                    ctx.violation("spec-mismatch:%s" % a[0], "correspondence",
                                  "the Coq transcription of Lua's %s does not agree with the reference interpreter on '%s': transcription %s, interpreter %s" % (a[0], line, spec[:80], lua[:80]),
                                  detail={"case": line, "spec": spec, "reference_lua": lua, "no_longer_checks": "spec stream C13/%s" % a[0]}, failing_input=False)
        st, why = verdict(a, lua, nel)
        documented_stop = (mod == "!trap" and a[0] not in PATTERN_OPS) or mod in DOCUMENTED_PATTERN_STOPS
        if st == "undefined" and not documented_stop:
            # the port stops where Lua returns: accepted only as a documented limit, i.e. when the model of the port predicts the stop
            st, why = "FAIL", "the port stops where Lua is defined, and not for a documented limit"
        stats[st] += 1
        if st == "undefined":
            k = "%s:%s" % (a[0], mod[1:] if mod.startswith("!trap") else "no-model-voice")
            undefined_by[k] = undefined_by.get(k, 0) + 1
        if nel.startswith("!"):
            err_kinds[nel] = err_kinds.get(nel, 0) + 1
        if st == "ok" and not nel.startswith("!") and len(line) > 14:
            nontrivial.add(line)
        key = tag + line
        if st == "FAIL":
            reported += 1
            failing.append("%s%s | lua=%s | port=%s | %s" % (tag, line, lua[:100], nel[:100], why))
            if reported <= 8:
                ctx.violation(key, "oracle", "%s: %s; reference Lua: %s, port: %s" % (line, why, lua[:120], nel[:120]),
                              detail={"case": line, "reference_lua": lua, "implementation": nel, "model": mod, "why": why,
                                      "replay": "echo '%s' | <driver built from harness/C13/driver.nelua%s>; echo '%s' | nelua-lua harness/C13/ref.lua" % (line, " with -fsanitize=address" if tag else "", line)})
        elif not model_agrees(mod, nel):
            n_model_mismatch += 1
            if n_model_mismatch <= 3:
                ctx.violation("model-mismatch:%s" % a[0], "correspondence",
                              "model of %s no longer corresponds to the code on '%s': model %s, implementation %s (reference Lua: %s)" % (a[0], line, mod[:80], nel[:80], lua[:80]),
                              detail={"case": line, "implementation": nel, "model": mod, "reference_lua": lua,
                                      "no_longer_checks": "correspondence stream C13/%s" % a[0]}, failing_input=False)

    # witnesses first
    for i, (st, line) in enumerate(cases):
        if st == "witness":
            handle(line, ll[i], nl[i], ml[i])
    for i, line in enumerate(asan_all[:len(asan_lines)]):
        handle(line, all_[i], anl[i], aml[i], tag="asan: ")
    for i, (st, line) in enumerate(cases):
        if st != "witness":
            handle(line, ll[i], nl[i], ml[i])
    for i, line in enumerate(asan_all):
        if i >= len(asan_lines) and anl[i] == "!exit77":
            handle(line, all_[i], anl[i], aml[i], tag="asan: ")
    with open(os.path.join(ctx.work, "failures.txt"), "w") as f:
        f.write("\n".join(failing + ["SPEC " + x for x in spec_fail]) + "\n")
    return {
        "evaluations": len(cases) + len(asan_all),
        "distinct_nontrivial": len(nontrivial),
        "rule": "cases = witnesses + corpus + index lattice x subjects + order pairs + rep/case + pattern grammar (depth<=3, sets starting with ']', %b, %f, back-references, position captures) + malformed soup + utf8 boundary code points and invalid sequences + pack/unpack sizes 1..16 both endiannesses + string.format (every flag subset x width x precision x conversion d i u o x X c s, malformed and over-long specifications, float conversions differential) + math lattice; non-trivial = distinct case lines on which port and reference Lua both return the same value",
        "samples": lines[:3] + lines[len(lines) // 2: len(lines) // 2 + 3] + lines[-3:],
        "distribution": {"streams": dist, "per_op": per_op, "port_error_kinds": err_kinds, "verdicts": stats,
                         "asan_cases": len(asan_all),
                         "cases_with_model_voice_per_op": voiced},
        "oracle_failures": stats["FAIL"],
        "model_mismatches": n_model_mismatch,
        "spec_voice_checked_against_interpreter": spec_stats["checked"],
        "spec_voice_mismatches": spec_stats["mismatch"],
        "port_undefined_where_lua_defined": stats["undefined"],
        "port_undefined_by_op_and_model_voice": undefined_by,
        "traces_validated_against_impl": len(cases),
        "unproved": UNPROVED,
    }


THEOREM_CLASSES = {
    # main: a clause of the property statement, port against the Lua transcription or against memory safety
    "C13_sub_eq_lua": "main", "C13_find_init_eq_lua": "main", "C13_byte_eq_lua": "main",
    "C13_rep_eq_lua_partial": "main", "C13_rep_sep_eq_lua_partial": "main", "C13_rep_val_is_repetition": "main",
    "C13_rep_memory_safe": "main", "C13_rep_sep_memory_safe": "main",
    "C13_reverse_eq_lua": "main", "C13_strchar_eq_clocale": "main", "C13_upper_eq_lua": "main", "C13_lower_eq_lua": "main",
    "C13_abs_eq_lua": "main", "C13_fmod_eq_lua": "main", "C13_fmod_never_unsafe": "main",
    "C13_lua_strcmp_eq_lex": "corollary",        # about the transcription of Lua's l_strcmp alone (spec-side lemma)
    "C13_strlt_eq_lua": "main", "C13_strle_eq_lua": "main", "C13_streq_iff": "main",
    "C13_strle_total_preorder": "corollary",
    "C13_find_search_eq_lua": "main", "C13_gsub_eq_lua": "main", "C13_gmatch_eq_lua": "main",
    "C13_utf8_roundtrip": "main", "C13_utf8_strict_spec": "main",
    # both sides are ONE Gallina function over scraped constants: only a change of the constants is detected
    "C13_utf8_decode_eq_lua": "definitional",
    "C13_utf8char_eq_lua": "main", "C13_utf8relpos_eq_lua": "main", "C13_codepoint_eq_lua_partial": "main",
    "C13_codepoint_memory_safe": "main", "C13_utf8len_eq_lua": "main", "C13_utf8len_fuel_never_exhausted": "main",
    "C13_utf8offset_eq_lua": "main", "C13_utf8codes_step_eq_lua": "main", "C13_utf8codes_first_cont": "corollary",
    "C13_pack_unpack_int_roundtrip": "main", "C13_pack_unpack_uint_roundtrip": "main",
    "C13_pack_int_eq_lua": "main", "C13_pack_uint_eq_lua": "main", "C13_pack_unpack_format_roundtrip": "main",
    "C13_packsize_eq_lua_partial": "main", "C13_pack_alignforward_eq_lua": "main",
    # the matcher: ONE transcription of match() run under two configurations (budget, character classes):
    # the content is classes = C locale + budget monotonicity, not a structural comparison of two codes
    # (corollaries of C13_strchar_eq_clocale + monotonicity of the budget; the documented 32-level limit is in the name)
    "C13_match_eq_lua_within_budget": "corollary", "C13_match_is_lua_with_small_budget": "corollary",
    "C13_match_budget_is_a_limit": "corollary", "C13_match_error_eq_lua": "corollary",
    "C13_match_range": "main", "C13_gsub_pattern_eq_lua_partial": "main",
    "C13_match_fuel_never_exhausted": "main", "C13_match_loop_bounds_adequate": "main", "C13_match_never_unsafe": "main",
    "C13_match_positions_in_range": "main", "C13_match_class_end_in_pattern": "corollary",
    "C13_match_expansion_in_subject": "corollary", "C13_match_balance_in_subject": "corollary",
    "C13_find_plain_first": "main", "C13_find_plain_none": "main",
    "C13_find_plain_decision_eq_lua": "corollary",     # a four-row truth table of two one-line mirrors; the tie to the code is the find stream
    "C13_format_eq_lua": "main", "C13_format_val_is_lua": "main", "C13_format_iff_restricted_lua": "corollary",
    "C13_format_restricted_is_lua": "corollary", "C13_c99_plain_d_is_decimal": "corollary",
    "C13_format_never_unsafe": "main", "C13_format_never_truncated": "main",
    "C13_format_s_bound_needed": "refutation", "C13_format_num_bound_needed": "refutation",
    "C13_match_reads_only_its_arguments": "main", "C13_match_generic_instance": "definitional",
    "C13_search_bounds_adequate": "main", "C13_format_bounds_adequate": "main", "C13_packsize_bound_adequate": "main",
    "C13_gen_facts": "tripwire",
}

MANIFEST_ENTRY = {
    "text": "proof, partial: theorems (port model against a Coq transcription of lstrlib.c / lutf8lib.c / lmathlib.c / lvm.c, itself run against the "
            "real interpreter on every check) for index normalisation of sub/find/byte, string order, case, reverse, rep (one direction + "
            "memory safety), the find/gsub/gmatch drivers over an abstract matcher, the matcher within its documented 32-level recursion budget - a documented limitation of the port, not a finding - (one "
            "transcription under two configurations; fuel never exhausted, positions always inside the arguments), utf8 char/len/offset/"
            "codes/codepoint, the pack integer codec, packsize (one direction), pack/unpack round trip over whole option lists, string.format "
            "for integer/character/string conversions (both directions), integer abs/fmod; differential testing only for: float formatting and "
            "float math, concatenation, function/table replacements of gsub, float pack options, byte/char varargs, the per-byte reads inside "
            "one matcher step (AddressSanitizer stream)",
    "note": "model = hand transcription of lib/string|utf8|math.nelua and lib/detail/strpatt|strpack|strchar.nelua + stringbuilder writef, tied "
            "by scraped constants (Gen.v) and a three-voice correspondence (compiled port, real Lua 5.4.6, extracted model; the Lua "
            "transcription is a fourth voice); ISO C99 snprintf is a transcription run against glibc; LP64 sizes and a 2^47 allocation limit are "
            "platform assumptions; no file of another property is used",
    "technique": "machine-checked proof in Coq over executable models + extracted-model / implementation / reference-interpreter correspondence",
}

UNPROVED = [
    "string.format: the conversions of FLOATS (a A e E f g G) are differential only; C13_format_eq_lua / C13_format_val_is_lua treat the C formatter of floats as an arbitrary function (same specification, same argument on both sides). %q is not supported by the port (it stops), %p of non-pointers likewise; numeric conversions of STRING arguments (Lua coerces, the port is statically typed and stops) are outside the reference model. [c99_snprintf] (ISO C99 7.21.6.1 for d i u o x X c s) is a hand transcription of the standard, run against glibc through both real voices on every check, not proved against libc. Under the pragmas usestbsprintf / usenanoprintf the port bundles other snprintf implementations: not covered",
    "string.format: C13_format_never_truncated covers the size bound of every snprintf call site for integer, character and string items; for FLOAT items the formatter is a parameter assumed to stay below MAX_ITEM (a float item of 512 characters or more makes the port stop, e.g. '%.99f' of 1e308 is 409 characters: fits; long double / float128 arguments are not modelled); the bounds are scraped by regular expressions over formatarg (harness/C13/c13gen.py)",
    "float math (floor/ceil/fmod/abs/max/min on floats), integer max/min/ult/floor/ceil/tointeger (the model is Lua's definition verbatim: nothing to prove, differential only), string concatenation: differential only",
    "pattern matcher: C13_match_eq_lua_within_budget compares ONE transcription of match() under the two configurations (budget 32 vs 200, strchar vs C locale); that strpatt.nelua::_match has the control flow of lstrlib.c::match is established by reading and by the correspondence, not by a second structurally separate model",
    "DOCUMENTED LIMITATION, not a finding (DESIGN 9.2): the port's matcher has a recursion budget of 32 levels (MAX_MATCH_CALLS, error 'pattern too complex') against Lua's 200: C13_match_eq_lua_within_budget has the disjunct '= MTooComplex', C13_match_budget_is_a_limit shows it is reached where Lua succeeds (31 nested captures), the correspondence counts such cases as port_undefined (find:trap:complex); likewise position captures ('not supported yet') and the 8-capture limit of gmatch",
    "the Lua half of the matcher theorems (run_match lua_cfg with lua_do_search / lua_gsub around it) is a transcription of lstrlib.c; since this round it is run as a spec voice against the real interpreter on every find / match / gsub case of the pattern streams (not gmatch); that is testing, not proof",
    "pattern matcher, reads: C13_match_positions_in_range checks the positions and captures on every entry of match() / goto init (any depth); the reads INSIDE one step (single-character classes, bracket classes, %b, %f, back references) are guarded by those positions plus C13_match_class_end_in_pattern / _expansion_in_subject / _balance_in_subject, and, per byte, by C13_match_reads_only_its_arguments: the matcher with its two read functions as parameters (coq/C13/ModelPatG.v, generated from ModelPat.v by text substitution; equal to the matcher by conversion) returns the same result for all memories that agree inside the arguments - an extensional statement (no out-of-range byte can matter), not a log of the addresses touched; that a C read which cannot matter does not happen at all is covered by the AddressSanitizer stream only; the memory.compare of a back reference is outside the parametrisation (its ranges are bounded by the capture invariant). A pattern or subject that is a non-terminated string view (pattern.data[#pattern] is read as the terminator) is outside the model",
    "pattern matcher, loop bounds: each inner loop is shown independent of its bound (C13_match_loop_bounds_adequate) and the outer fuel is never exhausted (C13_match_fuel_never_exhausted); the composition 'the matcher with every bound replaced by a larger one returns the same result' is not restated as one theorem",
    "loop bounds: shown never to be what ends the loop (result independent of any larger bound) for the matcher's inner loops, lua_search / nl_search, both gmatch_next, the format scanners of both sides, the digit generator and the port's packsize loop (C13_search_bounds_adequate, C13_format_bounds_adequate, C13_packsize_bound_adequate); NOT done for the Lua-side packsize loop, the utf8 loops skip_cont / off_* / nl_cp_loop, gsub_fuel, gmatch_all (argued sufficient by inspection; the same bound is used on both sides of the equalities); the bounds still end in a normal-looking value rather than a distinguished Fuel constructor; errors of the matcher inside find / gsub / gmatch are propagated by driver.ml glue (the Coq drivers take a matcher that can only say 'no match'), so C13_gsub_pattern_eq_lua_partial excludes malformed patterns and budget overruns by hypothesis",
    "string.pack / string.unpack: C13_pack_unpack_format_roundtrip is over the option LIST (after parsing) for integer, string, padding, endianness and alignment options; the runtime parser of pack is tied to Lua's by C13_packsize_eq_lua_partial for packsize only, unpack's format is parsed at compile time by the preprocessor (Lua code, not modelled; the model voice parses the format in harness glue); unpack of integers against Lua: one shared definition (round trip only); float options f d n: differential only",
    "one-direction theorems (_partial): rep / rep with separator and packsize are 'Lua returns => same value'; the converse is false by design (Lua caps results at INT_MAX, numbers in formats at 2147483639, and has no option 't'; the port has neither cap: packsize('c2147483647') = 2147483647). C13_rep_val_is_repetition bounds what rep may return; nothing bounds packsize beyond the caps (the generators stay below them); codepoint: one position, port value => Lua value",
    "utf8.codes as an iterator protocol (the step function is proved), string.byte(i, j) / string.char varargs, gsub with function or table replacement, the 8-capture limit and position captures of gmatch (asserts reproduced in driver.ml only): differential only",
    "harness glue that is not proved: driver.ml's StrPatt.create (anchor decision; the plain decision is the extracted nl_use_plain, C13_find_plain_decision_eq_lua), capture rendering, gmatch outer loop, pack/unpack format reading; ops without a model voice: concat, float ops, utf8char2, patterns with more than 10 quantifiers or longer than 64 bytes",
]
