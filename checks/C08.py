"""C08 - the compile cache never serves a stale artefact.

(T) the policy of compile_code/compile_binary (comparison operator, hash in the heading, size
    test, reuse of -o files, reuse under nocheading) and the whole-second granularity of
    lfs' modification time are scraped into coq/C08/Gen.v; the theorems are proved for every
    policy and instantiated at the scraped one.
(C) histories of compiler invocations are replayed on the real compiler in real time (whole
    seconds imposed by ageing the cache files with os.utime, see harness/C08/replay.py); the
    extracted model is run on the *observed* write times; at every invocation the decisions
    ("generated"/"using cached generated"/"using cached binary") and the outcome are compared
    with the model, and the outcome with the same invocation under --no-cache in a fresh
    directory (the property oracle).
Stale runs are shrunk on the model to a canonical minimal history, which is then replayed on the
real compiler (the setup is retried until the observed timing has the intended shape; the
verdict never is) and reported under that history as key."""
import concurrent.futures
import importlib.util
import os
import re
import shutil
import time

import vlib

ID = "C08"
ALLOWED_AXIOMS = []
TRUSTED_BASE = [
    "coqc 8.16.1 kernel (vm_compute for the refutation witnesses and non-vacuity examples; no native_compute)",
    "no axioms: every theorem of coq/C08/Properties.v is 'Closed under the global context'",
    "translator checks/C08.py:gen (regex scrape of ccompiler.lua compile_code/compile_binary and of push_st_mtime in src/lfs.c)",
    "extraction: Require Extraction + ExtrOcamlBasic only; no Extract Constant of our own; coq/C08/driver.ml supplies the hash as the identity on triples and the C-compiler outcome (code id >= 900 fails)",
    "harness/C08/replay.py (source/option generator, --cc wrapper script, os.utime ageing, stat-based observation of writes), gcc and clang, OCaml 4.13.1",
    "modelled rather than verified: ccompiler.lua/runner.lua are mirrored by hand in coq/C08/Model.v; the tie is the history replay run on every check",
    "the five policy facts the main theorem C08_cache_fresh rests on are regex-scraped from ccompiler.lua (Gen.v) and checked behaviourally by replaying the three former defect histories (same-second in real time) on every run",
]
ASSUMPTIONS = [
    "the behaviour of a binary is a function of (generated C, compiler command, the world the C compiler reads: compiler + headers/extra C files); the main theorem C08_cache_fresh covers histories in which every world change shows in ccinfo (the property's own step kinds, discharged in ProofsEdits.v); since 304728c the heading hash covers the local headers the generated C includes that are found in the cincdir directories (world w -> w+10: visible, must be fresh); edits of headers reached only through --cflags -I (w -> w+100), of system headers and of `## cfile` extra C files remain invisible: modelled, refuted (C08_cache_fresh_all_world_edits_refuted) and replayed as the open known finding",
    "the hash written into the heading is injective on (code, ccinfo, command) (BLAKE2b collisions ignored)",
    "invocations sharing a cache directory are sequential and the clock is monotone; -o never names a file inside the cache directory",
    "a build killed while writing its output leaves an EMPTY file (Interrupt step; the --cc wrapper truncates the output): a truncated non-empty output with a fresh mtime would pass the size test",
    "the files of different slots have different names (<cache>/<slot>.c, <cache>/<slot>): a source called a.c.nelua breaks this (the real compiler then fails with gcc's 'input file is the same as output file'); other output modes (--object ...) are not in this model",
    "history replay is differential testing on generated histories, not a proof that model = code",
]

THEOREM_CLASSES = {
    "C08_cache_fresh": "main",
    "C08_expected_is_nocache_run": "main",
    "C08_source_and_option_edits_show_in_text": "main",
    "C08_cincdir_header_edits_fresh": "corollary",
    "C08_header_hash_needed": "refutation",
    "C08_cache_fresh_all_world_edits_refuted": "refutation",
    "C08_cflags_ldflags_release_change_command": "corollary",
    "C08_heading_covering_command_needed": "refutation",
    "C08_cache_fresh_general_policy": "corollary",
    "C08_sufficient_policy": "corollary",
    "C08_strict_compare_needed": "refutation",
    "C08_nocheading_guard_needed": "refutation",
    "C08_output_guard_needed": "refutation",
    "C08_hash_in_heading_needed": "refutation",
    "C08_size_test_needed": "refutation",
    "C08_header_edit_leaves_text": "refutation",
}
UNPROVED = [
    "that compile_code/compile_binary are the machine of coq/C08/Model.v: tied by replaying histories on the real compiler and by a structural scrape of the two conditions, not proved",
    "edits of what the C compiler reads that the heading hash does not cover: headers reached only through --cflags -I, system headers, `## cfile` extra C files (headers found in cincdir directories ARE covered since 304728c); outside the property's step kinds; modelled, refuted (C08_cache_fresh_all_world_edits_refuted) and replayed as the open known finding",
    "a build killed while writing leaves an EMPTY file (what Interrupt models and the --cc wrapper does); a killed linker that leaves a truncated non-empty file with a fresh mtime would be served: not modelled, not tested",
    "file-name aliasing between slots (a source named a.c.nelua uses <cache>/a.c both as C file and as binary: the real compiler stops with 'input file is the same as output file'; probed on every run: it must fail or print its own output), output modes with another extension (--object/--static-lib/--shared-lib/--assembly share the slot's C file; their mode sequences are compared in C07's differential, not here), -o inside the cache directory, concurrent invocations, non-monotone clocks",
    "the generated C of a required module / -D / -P edit is the front end's business: the model only uses that the binary is a function of (C file, command, world)",
]
MANIFEST_ENTRY = {
    "text": "proof, partial (one open finding): for the policy scraped from compile_binary/compile_code, every history over the property's step kinds (source, required-module, -D/-P/--cflags/--release edits, source and compiler switches, -o, --no-cache, --code, interrupted builds), at any spacing, runs a binary built from the current text, and 'expected' is the model's own --no-cache run in an empty directory (C08_cache_fresh, C08_expected_is_nocache_run, C08_source_and_option_edits_show_in_text); model = code is tied by real-time history replay; documented limit, refuted and keyed as the open known finding: an edit of a header reached only through --cflags -I (or of a `## cfile` extra C file) alone; cincdir headers are hashed since 304728c",
    "note": "trusted: coqc, regex scrape of the two conditions of compile_binary (comments stripped, conjunct lists) and of the heading/hash in compile_code, lfs whole-second mtimes, the replayer (harness/C08/replay.py: real compiler, os.utime ageing, --cc wrapper), gcc/clang; assumes an injective heading hash, sequential invocations, a killed build leaving an empty file, distinct slot file names",
    "technique": "Coq state machine over a cache directory with an inductive invariant, parametric in a scraped policy + replay of generated/corpus/witness histories on the real compiler with the model run on observed write times",
}

TPS = 10
W_SAME_SECOND = "R:0:-:0:0:0:0:0:0 R:0:-:1:0:0:0:0:0"
W_NOHEAD = "R:0:-:0:0:0:1:0:11 A:30 R:0:-:0:1:0:1:0:0"     # first build crosses a second boundary (matters under <)
W_SHARED_OUT = "R:0:0:0:0:0:0:0:0 A:30 R:1:0:1:0:0:0:0:0 A:30 R:0:0:0:0:0:0:0:0"
# world 0 -> 10: same compiler, edited C header found through cincdir: hashed into the heading since 304728c, must be fresh
W_HEADER_EDIT = "R:0:-:0:0:0:0:0:11 R:0:-:0:0:10:0:0:0"
# world 0 -> 100: edited C header reached only through --cflags -I: the documented remaining limit (open known finding)
W_HEADER_EDIT_I = "R:0:-:0:0:0:0:0:11 R:0:-:0:0:100:0:0:0"
# link options only (--ldflags directory / LDFLAGS environment): the binary strictly newer than the C file
W_LDFLAGS = "R:0:-:0:0:0:0:0:11 R:0:-:0:1000:0:0:0:0"
W_LDFLAGS_ENV = "R:0:-:0:0:0:0:0:11 R:0:-:0:2000:0:0:0:0"
WITNESSES = [("ldflags", W_LDFLAGS), ("LDFLAGS-env", W_LDFLAGS_ENV), ("same-second", W_SAME_SECOND), ("nocheading", W_NOHEAD), ("shared-output", W_SHARED_OUT), ("header-edit", W_HEADER_EDIT),
             ("header-edit-cflags-I", W_HEADER_EDIT_I)]


def key_of(tokens):
    return "stale-history: " + " ".join(tokens)


def _load_replay():
    p = os.path.join(vlib.VERIF, "harness", ID, "replay.py")
    spec = importlib.util.spec_from_file_location("c08_replay", p)
    m = importlib.util.module_from_spec(spec)
    spec.loader.exec_module(m)
    return m


# --------------------------------------------------------------------------- (T)

def gen(ctx):
    """Scrape; Gen.v is written with what was found even when a structural check fails (a stale Gen.v
    from an earlier run must never be used); the failures are then raised together."""
    problems = []
    try:
        res = _gen(ctx, problems)
    except Exception as ex:      # a scrape that cannot even locate the function
        raise RuntimeError("; ".join(problems + [str(ex)]))
    if problems:
        raise RuntimeError("; ".join(problems))
    return res


def _gen(ctx, problems):
    cc_raw = vlib.repo_read("lualib/nelua/ccompiler.lua")
    # comments carry no meaning: strip them before looking at the conditions
    cc = re.sub(r"--\[\[.*?\]\]", "", cc_raw, flags=re.S)
    cc = re.sub(r"--[^\n]*", "", cc)
    m = re.search(r"function compiler\.compile_binary\(.*?using cached binary", cc, re.S)
    if not m:
        problems.append("cannot find the reuse test of compiler.compile_binary")
    body = m.group(0)
    # outer guard: `if not config.no_cache [and <conjunct>]* then`
    og = re.search(r"\bif\s+(not\s+config\.no_cache\b(?:(?!\bthen\b).)*?)\s+then\b", body, re.S)
    if not og:
        problems.append("compile_binary: the --no-cache guard is not where the model expects it")
    outer = [re.sub(r"\s+", " ", c.strip()) for c in re.split(r"\band\b", og.group(1))] if og else []
    extra = [c for c in outer if c not in ("not config.no_cache", "not config.output", "not compileopts.nocheading")]
    if extra:
        problems.append("compile_binary: unknown conjunct(s) in the cache guard: %s" % extra)
    # inner test: the `if` whose body reports "using cached binary"
    ig = re.search(r"\bif\s+((?:(?!\bthen\b).)*?)\s+then\s+if\s+config\.verbose\s+then\s+console\.info\(\"using cached binary", body, re.S)
    if not ig:
        problems.append("compile_binary: cannot find the condition under which the cached binary is used")
    inner = [re.sub(r"\s+", " ", c.strip()) for c in re.split(r"\band\b", ig.group(1))] if ig else []
    cmpc = [c for c in inner if re.fullmatch(r"cfile_mtime (<=|<) binfile_mtime", c)]
    if len(cmpc) != 1:
        problems.append("cannot find the conjunct cfile_mtime <|<= binfile_mtime in the reuse test: %s" % inner)
    unknown = [c for c in inner if c not in cmpc and c not in ("cfile_mtime", "binfile_mtime", "binfile_size", "binfile_size > 0")]
    if unknown:
        problems.append("compile_binary: unknown conjunct(s) in the reuse test: %s" % unknown)
    p_le = bool(cmpc) and "<=" in cmpc[0]
    p_size = "binfile_size > 0" in inner
    p_reuse_out = "not config.output" not in outer
    p_nohead_cache = "not compileopts.nocheading" not in outer
    m2 = re.search(r"function compiler\.compile_code\(.*?\nend", cc, re.S)
    if not m2:
        problems.append("cannot find compiler.compile_code")
    code = m2.group(0)
    if not re.search(r"not\s+config\.no_cache\s+and\s+current_sourcecode\s+and\s+current_sourcecode\s*==\s*sourcecode", code):
        problems.append("compile_code: the text comparison is not the one the model mirrors")
    hm = re.search(r"local\s+hash\s*=\s*stringer\.hash\(([^)]*)\)", code)
    fm = re.search(r"string\.format\(\s*\[\[(.*?)\]\]\s*,([^)]*)\)", code, re.S)
    hash_args = set(re.findall(r"\w+", hm.group(1))) if hm else set()
    p_hash = bool(hm and fm and {"ccode", "ccinfotext", "ccmd"} <= hash_args
                  and "Compile hash: %s" in fm.group(1) and re.search(r"\bhash\b", fm.group(2)))
    # a repair may hash the contents of the local headers too
    # (304728c) -- read structurally, not by the word "header": a table T filled, inside a loop over the
    # #include "..." lines of the generated code and over compileopts.incdirs, with the CONTENTS
    # fs.readfile(fs.join(incdir, name)) of the file, and table.concat(T) is part of the hashed string;
    # the filling must come before the hash and nothing may reset T in between
    p_hdr_hashed = False
    if hm:
        tm = re.search(r"\.\.\s*table\.concat\(\s*(\w+)\s*$", hm.group(1))       # [^)]* stops at the ')' of table.concat(T)
        if tm:
            T = tm.group(1)
            pre = code[:hm.start()]
            loop = re.search(r"local\s+%s\s*=\s*\{\}\s*"
                             r"for\s+(\w+)\s+in\s+ccode:gmatch\('#include \"\(\[\^\"\\n\]\+\)\"'\)\s+do\s+"
                             r"for\s+_\s*,\s*(\w+)\s+in\s+ipairs\(compileopts\.incdirs\)\s+do\s+"
                             r"local\s+(\w+)\s*=\s*fs\.readfile\(fs\.join\(\2\s*,\s*\1\)\)\s+"
                             r"if\s+\3\s+then\s+%s\[#%s\s*\+\s*1\]\s*=\s*\3\s+break\s+end\s+end\s+end" % (T, T, T), pre)
            p_hdr_hashed = bool(loop and not re.search(r"\b%s\s*=[^=]" % T, pre[loop.end():]))
    p_cmd = bool(fm and "Compile command: %s" in fm.group(1) and re.search(r"\bccmd\b", fm.group(2)))
    # a repair may delete the slot's binary when the C file is rewritten (before fs.makefile)
    mk = code.find("fs.makefile(cfile")
    p_del = bool(re.search(r"fs\.deletefile\(\s*binfile", code[:mk if mk >= 0 else len(code)]))
    if not (p_cmd or p_hash):
        problems.append("compile_code: heading carries neither the command nor the hash; the model's text does not apply")
    lfs = vlib.repo_read("src/lfs.c")
    if not re.search(r"push_st_mtime\s*\([^)]*\)\s*\{\s*lua_pushinteger\s*\(\s*L\s*,\s*\(lua_Integer\)\s*info->st_mtime\s*\)", lfs):
        problems.append("lfs.c: 'modification' is no longer the whole-second st_mtime; the model's [sec] does not apply")
    fs = vlib.repo_read("lualib/nelua/utils/fs.lua")
    if not re.search(r"function fs\.getmodtime\(p\)\s*return lfs\.attributes\(p,\s*'modification'\)", fs):
        problems.append("fs.getmodtime no longer reads lfs 'modification'")
    b = lambda x: "true" if x else "false"
    txt = ("(* GENERATED by checks/C08.py from /repo (ccompiler.lua, utils/fs.lua, src/lfs.c) - do not edit *)\n"
           "From Coq Require Import ZArith.\nFrom C08 Require Import Model.\n"
           "(* p_le p_head_hash p_size_chk p_reuse_out p_nohead_cache p_del_rewrite *)\n"
           "Definition GENPOL : policy := mkPol %s %s %s %s %s %s.\n"
           "(* ticks per second used by the replayer; mtimes are whole seconds (lfs st_mtime) *)\n"
           "Definition TPS : Z := %d%%Z.\n" % (b(p_le), b(p_hash), b(p_size), b(p_reuse_out), b(p_nohead_cache), b(p_del), TPS))
    txt += "(* compile_code hashes the local headers the generated code includes (since 304728c: read structurally from the loop over the #include lines and incdirs) *)\nDefinition HEADERS_HASHED : bool := %s.\n" % b(p_hdr_hashed)
    # tie fact: compile_code records the command compile_binary executes - both build it from the same
    # get_compiler_cflags(compileopts), nothing appended (comments stripped)
    mcb = re.search(r"function compiler\.compile_binary\(.*?\nend", cc, re.S)
    cbody = mcb.group(0) if mcb else ""
    covers = bool(re.search(r"local cflags = get_compiler_cflags\(compileopts\)[ \t]*\n", code) and
                  re.search(r"get_compile_args\(cfile, binfile, cflags\)", code) and
                  re.search(r"local cflags = get_compiler_cflags\(compileopts\)[ \t]*\n", cbody) and
                  re.search(r"get_compile_args\(cfile, midfile, cflags\)", cbody) and
                  len(re.findall(r"\bcflags\s*=", cbody)) == 1 and len(re.findall(r"\bcflags\s*=", code)) == 1)
    txt += "(* compile_code and compile_binary build the command from the same get_compiler_cflags(compileopts) *)\nDefinition HEADING_COVERS_EXECUTED_COMMAND : bool := %s.\n" % b(covers)
    cdefs = vlib.repo_read("lualib/nelua/cdefs.lua")
    gm = re.search(r"compilers_flags\.gcc = tabler\.updatecopy\(compilers_flags\.cc, \{(.*?)\n\}\)", cdefs, re.S)
    rel = re.search(r'cflags_release = "([^"]*)"', gm.group(1)) if gm else None
    dev = re.search(r'cflags_devel = "([^"]*)"', gm.group(1)) if gm else None
    if not (rel and dev):
        problems.append("cannot find cflags_release / cflags_devel of compilers_flags.gcc in cdefs.lua")
    coqlist = lambda t: "".join("(cons %d " % ord(ch) for ch in t) + "nil" + ")" * len(t)
    txt += ("(* cdefs.lua compilers_flags.gcc: cflags_release / cflags_devel as character codes *)\n"
            "Definition GCC_RELEASE_FLAGS : list Z := (%s)%%Z.\nDefinition GCC_DEVEL_FLAGS : list Z := (%s)%%Z.\n" %
            (coqlist(rel.group(1) if rel else ""), coqlist(dev.group(1) if dev else "")))
    vlib.write_if_changed(os.path.join(vlib.coq_dir(ID), "Gen.v"), txt)
    ctx.genpol = {"p_le": p_le, "p_head_hash": p_hash, "p_size_chk": p_size, "p_reuse_out": p_reuse_out,
                  "p_nohead_cache": p_nohead_cache, "p_del_rewrite": p_del, "headers_hashed": p_hdr_hashed, "heading_covers_executed_command": covers}
    return dict(ctx.genpol, cache_guard_conjuncts=outer, reuse_test_conjuncts=inner, gcc_cflags_release=rel.group(1) if rel else None, gcc_cflags_devel=dev.group(1) if dev else None, heading_has_command=p_cmd, mtime_unit="whole seconds (lfs st_mtime)", ticks_per_second=TPS)


# --------------------------------------------------------------------------- model driver

class Model:
    def __init__(self, driver):
        self.driver = driver
        self.calls = 0

    def run(self, histories, pol="gen"):
        """histories: list of token lists -> list of per-invocation result dicts."""
        if not histories:
            return []
        text = "".join("P:%s %s\n" % (pol, " ".join(h)) for h in histories)
        rc, out, err = vlib.sh([self.driver], input=text, timeout=600)
        lines = out.split("\n")
        if rc != 0 or len(lines) < len(histories):
            raise RuntimeError("model driver failed: rc=%s %s" % (rc, err[-300:]))
        self.calls += len(histories)
        res = []
        for h, line in zip(histories, lines):
            if line.startswith("!exn"):
                raise RuntimeError("model driver: %s on %s" % (line, h))
            toks = [t for t in line.split() if t != "-"]
            rr = []
            for t in toks:
                f = t.split(":")
                rr.append({"g": f[0][1] == "1", "b": f[0][3] == "1", "outcome": f[1], "fresh": f[2] == "f1",
                           "hyp_weak": f[3] == "w1", "hyp_1s": f[4] == "s1"})
            res.append(rr)
        return res

    def fails(self, h):
        return any(not r["fresh"] for r in self.run([h])[0])


FIELDS = ["k", "slot", "out", "code", "cmd", "cc", "nohead", "nocache", "dur"]


def _parse(tokens, rp):
    return [rp.parse_step(t) for t in tokens]


def _fmt(steps, rp):
    return [rp.fmt_step(s) for s in steps]


def shrink(model, tokens, rp):
    """Deterministic shrinking on the model (policy = the scraped one): returns a canonical
    minimal failing history.  Order: timing-independent form first (3 s between all
    invocations), removal of steps, durations, defaults for all/one invocation, differences
    moved into the code, renaming by first occurrence."""
    fails = lambda steps: model.fails(_fmt(steps, rp))
    steps = _parse(tokens, rp)
    if not fails(steps):
        return None
    runs = [dict(s) for s in steps if s["k"] != "A"]
    stretched = []
    for i, s in enumerate(runs):
        if i:
            stretched.append({"k": "A", "d": 30})
        stretched.append(dict(s, dur=0))
    timing_free = fails(stretched)
    if timing_free:
        steps = stretched

    def remove_pass(steps):
        changed = True
        while changed:
            changed = False
            idx = [i for i, s in enumerate(steps) if s["k"] != "A"] if timing_free else list(range(len(steps)))
            for i in idx:
                cand = steps[:i] + steps[i + 1:]
                if timing_free:   # keep exactly one A:30 between invocations
                    rr = [s for s in cand if s["k"] != "A"]
                    cand = []
                    for j, s in enumerate(rr):
                        if j:
                            cand.append({"k": "A", "d": 30})
                        cand.append(s)
                if cand and fails(cand):
                    steps = cand
                    changed = True
                    break
        return steps

    defaults = {"nocache": False, "nohead": False, "out": None, "slot": 0, "cc": 0, "cmd": 0, "k": "R"}
    for _ in range(6):
        before = _fmt(steps, rp)
        steps = remove_pass(steps)
        if not timing_free:
            for i, s in enumerate(steps):
                if s["k"] == "A":
                    for d in (30, 2, 9, 11):
                        cand = [dict(x) for x in steps]
                        cand[i]["d"] = d
                        if d != s["d"] and fails(cand):
                            steps = cand
                            break
        for i, s in enumerate(steps):
            if s["k"] != "A":
                for d in (0, 11):
                    if s["dur"] == d:
                        break
                    cand = [dict(x) for x in steps]
                    cand[i]["dur"] = d
                    if fails(cand):
                        steps = cand
                        break
        for f, dv in defaults.items():           # one field, all invocations at once
            cand = [dict(x) if x["k"] == "A" else dict(x, **{f: dv}) for x in steps]
            if _fmt(cand, rp) != _fmt(steps, rp) and fails(cand):
                steps = cand
        for i, s in enumerate(steps):            # one field, one invocation
            if s["k"] == "A":
                continue
            for f, dv in defaults.items():
                if steps[i][f] != dv:
                    cand = [dict(x) for x in steps]
                    cand[i][f] = dv
                    if fails(cand):
                        steps = cand
        runs_i = [i for i, s in enumerate(steps) if s["k"] != "A"]
        if runs_i:                                # move differences into the code
            first = steps[runs_i[0]]
            for i in runs_i[1:]:
                for f in ("cc", "cmd"):
                    if steps[i][f] != first[f]:
                        fresh = max(s["code"] for s in steps if s["k"] != "A" and s["code"] < 900) + 1
                        cand = [dict(x) for x in steps]
                        cand[i][f] = first[f]
                        cand[i]["code"] = fresh
                        if fails(cand):
                            steps = cand
                        elif f == "cc":           # else express a compiler switch as a flag change
                            cand = [dict(x) for x in steps]
                            cand[i]["cc"] = first["cc"]
                            cand[i]["cmd"] = max(s["cmd"] for s in steps if s["k"] != "A") + 1
                            if fails(cand):
                                steps = cand
                if steps[i]["code"] >= 900:
                    fresh = max([s["code"] for s in steps if s["k"] != "A" and s["code"] < 900] + [-1]) + 1
                    cand = [dict(x) for x in steps]
                    cand[i]["code"] = fresh
                    if fails(cand):
                        steps = cand
        # a run that only serves to make the binary newer than the C file = a slower first build
        changed = True
        while changed:
            changed = False
            ri = [i for i, x in enumerate(steps) if x["k"] != "A"]
            for a, b2 in zip(ri, ri[1:]):
                cand = [dict(x) for j, x in enumerate(steps) if j != b2 and not (a < j < b2 and x["k"] == "A")]
                cand[a]["dur"] = 11
                if len([x for x in cand if x["k"] != "A"]) >= 2 and fails(cand):
                    steps = cand
                    changed = True
                    break
                cand = [dict(x) for j, x in enumerate(steps) if j != a and not (a < j < b2 and x["k"] == "A")]
                for x in cand:
                    if x is not None and x["k"] != "A":
                        x["dur"] = 11          # (the first remaining run)
                        break
                if len([x for x in cand if x["k"] != "A"]) >= 2 and fails(cand):
                    steps = cand
                    changed = True
                    break
        # worlds: one compiler throughout -> compiler 0; header versions renamed by first occurrence
        runs_w = [x for x in steps if x["k"] != "A"]
        cand = [dict(x) for x in steps]
        if len({x["cc"] % 10 for x in runs_w}) == 1:
            for x in cand:
                if x["k"] != "A":
                    x["cc"] = x["cc"] - x["cc"] % 10
        ren, renx = {}, {}
        for x in cand:
            if x["k"] != "A":
                hv, hx = (x["cc"] // 10) % 10, x["cc"] // 100
                ren.setdefault(hv, len(ren))
                renx.setdefault(hx, len(renx))
                x["cc"] = x["cc"] % 10 + 10 * ren[hv] + 100 * renx[hx]
        if _fmt(cand, rp) != _fmt(steps, rp) and fails(cand):
            steps = cand
        for f in ("code", "cmd", "slot", "out"):         # rename by first occurrence (worlds keep their meaning)
            ren = {}
            cand = [dict(x) for x in steps]
            for s in cand:
                if s["k"] == "A" or s[f] is None:
                    continue
                if f == "code" and s[f] >= 900:
                    s[f] = 900
                    continue
                if s[f] not in ren:
                    ren[s[f]] = len(ren)
                s[f] = ren[s[f]]
            if f == "cc" and len(ren) > 2:
                continue
            if fails(cand):
                steps = cand
        if _fmt(steps, rp) == before:
            break
    cand = [x for x in steps if x["k"] != "A"]       # spacing that is not needed is dropped
    if len(cand) != len(steps) and fails(cand):
        steps = cand
    return _fmt(steps, rp)


# --------------------------------------------------------------------------- generator

DELTAS = [0, 2, 9, 11, 30]


def gen_history(rng, flavour):
    """flavour: 'mixed' (everything), 'tight' (sub-second edits), 'spaced' (respects the hypotheses of
    the partial theorem), 'opts' (option/compiler/pragma changes)."""
    n = rng.randint(2, 12)
    toks = []
    cur = {"slot": 0, "out": None, "code": rng.randrange(4), "cmd": 0, "cc": 0, "nohead": False, "nocache": False}
    p_nohead = {"mixed": .12, "tight": 0, "spaced": 0, "opts": .3}[flavour]
    p_out = {"mixed": .15, "tight": .05, "spaced": .1, "opts": .15}[flavour]
    p_cc = {"mixed": .06, "tight": 0, "spaced": .06, "opts": .2}[flavour]
    p_hdr = {"mixed": .04, "tight": 0, "spaced": 0, "opts": .06}[flavour]
    nohead_hist = rng.random() < p_nohead * 2
    out_owner = {}
    while len(toks) < n:
        r = rng.random()
        if toks and toks[-1][0] != "A" and (flavour == "spaced" or r < .45):
            if flavour == "spaced":
                d = rng.choice([11, 30, 30, 12])
            elif flavour == "tight":
                d = rng.choice([0, 0, 2, 2, 9, 11])
            else:
                d = rng.choice(DELTAS)
            if d:
                toks.append("A:%d" % d)
            if flavour != "spaced" and rng.random() < .5:
                continue
        # mutate the invocation
        c = rng.random()
        if c < .40:
            cur["code"] = rng.choice([x for x in range(8) if x != cur["code"]])       # edit main / module / -D / switch source
        elif c < .52:
            cur["cmd"] = rng.choice([x for x in (0, 1, 2, 100, 101, 1000, 1001, 2000, 1100) if x != cur["cmd"]])   # --cflags / --release / --ldflags / LDFLAGS
        elif c < .52 + p_cc:
            cur["cc"] = (1 - cur["cc"] % 10) + (cur["cc"] - cur["cc"] % 10)             # compiler behind the name changes
        elif c < .52 + p_cc + p_hdr:
            hv, hx = (cur["cc"] // 10) % 10, cur["cc"] // 100
            if rng.random() < .5:
                hv = 1 - hv                                                             # the header found through cincdir is edited
            else:
                hx = 1 - hx                                                             # the header found only through --cflags -I is edited
            cur["cc"] = cur["cc"] % 10 + 10 * hv + 100 * hx
        elif c < .70 and flavour != "spaced":
            cur["slot"] = 1 - cur["slot"]
        cur["nohead"] = nohead_hist and rng.random() < .8
        cur["nocache"] = rng.random() < .08
        out = None
        if rng.random() < p_out:
            out = rng.randrange(2)
            if flavour == "spaced":
                out = out_owner.setdefault(cur["slot"], cur["slot"])
        code = cur["code"]
        if rng.random() < .05:
            code = 900 + cur["code"]
        kind = "I" if rng.random() < .07 else "C" if rng.random() < .06 else "R"
        toks.append("%s:%d:%s:%d:%d:%d:%d:%d:%d" % (kind, cur["slot"], "-" if out is None else out, code, cur["cmd"],
                                                    cur["cc"], int(cur["nohead"]), int(cur["nocache"]),
                                                    rng.choice([0, 0, 0, 0, 11, 25])))   # builds that cross a second boundary
    while toks and toks[-1][0] == "A":
        toks.pop()
    if sum(1 for t in toks if t[0] != "A") < 2:
        return gen_history(rng, flavour)
    return toks


# --------------------------------------------------------------------------- replay + compare

def wait_second_start(limit=0.25):
    """Setup helper for witnesses that need two writes inside one second."""
    f = time.time() % 1.0
    if f > limit:
        time.sleep(1.0 - f + 0.01)


def confirm(ctx, rp, model, interp, name, tokens, tries=6):
    """Replay a (shrunk) failing history on the real compiler.  The setup is retried until the
    model, run on the observed timing, predicts the stale run; the verdict is then read once."""
    last = None
    for t in range(tries):
        wait_second_start()
        hdir = os.path.join(ctx.work, "confirm-%s-%d" % (name, os.getpid()))
        recs, obs = rp.replay(interp, vlib.REPO, hdir, tokens)
        mres = model.run([obs])[0]
        last = (recs, obs, mres)
        if any(not m["fresh"] for m in mres):
            stale = [i for i, (r, m) in enumerate(zip(recs, mres))
                     if r["reference"] is not None and r["outcome"] != r["reference"]]
            return {"setup_ok": True, "tries": t + 1, "stale_runs": stale, "records": recs, "observed": obs, "model": mres}
    recs, obs, mres = last
    return {"setup_ok": False, "tries": tries, "stale_runs": [], "records": recs, "observed": obs, "model": mres}


def strip(rec):
    return {k: v for k, v in rec.items() if k not in ("stdout", "stderr")}


def correspond(ctx):
    rp = _load_replay()
    driver = vlib.ocaml_build(ID)
    interp = vlib.ensure_interp()
    model = Model(driver)
    genpol = getattr(ctx, "genpol", None) or {}
    cov = {"policy_scraped": genpol}
    confirmed = {}          # key -> confirm result (this run)
    n_inv = 0

    def report_stale(key, res, origin):
        r = res["records"]
        i = res["stale_runs"][0]
        ctx.violation(key, "oracle",
                      "stale artefact: invocation %d of the history ran/served %s, the same invocation with --no-cache in a fresh directory gives %s" %
                      (i + 1, r[i]["outcome"], r[i]["reference"]),
                      detail={"history": key, "origin": origin, "observed_history": " ".join(res["observed"]),
                              "records": [strip(x) for x in r], "model": res["model"],
                              "replay": "python3 -c \"import sys;sys.path.insert(0,'/verif/tools');sys.path.insert(0,'/verif/harness/C08');import vlib,replay;print(replay.replay(vlib.ensure_interp(),vlib.REPO,'/verif/.cache/work/C08/manual','%s'.split()))\"  (two writes must land in one second for same-second histories: retry)" % key[len("stale-history: "):]})

    # 1. the refutation witnesses of Proofs.v, replayed in real time on the real compiler
    wit = {}
    for name, w in WITNESSES:
        toks = w.split()
        predicted = model.fails(toks)
        res = confirm(ctx, rp, model, interp, name, toks) if predicted else None
        n_inv += len(res["records"]) * (res["tries"]) if res else 0
        wit[name] = {"history": w, "model_predicts_stale": predicted,
                     "setup_ok": res["setup_ok"] if res else None, "tries": res["tries"] if res else 0,
                     "implementation_stale": bool(res and res["stale_runs"])}
        if res and res["setup_ok"]:
            confirmed[key_of(toks)] = res
            if res["stale_runs"]:
                report_stale(key_of(toks), res, "witness of refuted_%s" % name.replace("-", "_"))
            else:
                ctx.violation("model-mismatch:witness-" + name, "correspondence",
                              "the model predicts a stale run for witness %s but the implementation is fresh" % name,
                              detail={"records": [strip(x) for x in res["records"]], "model": res["model"]}, failing_input=False)
        elif res:
            ctx.note("witness %s: the intended timing could not be set up in %d tries" % (name, res["tries"]))
        else:
            # the model (scraped policy) says this history is fresh: replay it all the same; for the
            # same-second witness the setup (not the verdict) is retried until the binary of the first
            # run and the C file of the second run carry the same second
            for attempt in range(8):
                wait_second_start()
                recs, obs = rp.replay(interp, vlib.REPO, os.path.join(ctx.work, "wit-%s-%d" % (name, os.getpid())), toks)
                n_inv += len(recs)
                wit[name]["tries"] = attempt + 1
                if name != "same-second" or (len(recs) == 2 and recs[0]["bin_sec"] is not None and recs[0]["bin_sec"] == recs[1]["cfile_sec"]):
                    wit[name]["setup_ok"] = True
                    break
            else:
                wit[name]["setup_ok"] = False
                ctx.note("witness %s: the intended timing could not be set up" % name)
            mres = model.run([obs])[0]
            st = [i for i, r in enumerate(recs) if r["reference"] is not None and r["outcome"] != r["reference"]]
            wit[name]["implementation_stale"] = bool(st)
            if st:
                report_stale(key_of(toks), {"records": recs, "observed": obs, "model": mres, "stale_runs": st},
                             "witness %s (the model predicts a fresh run)" % name)
    cov["witnesses"] = wit

    # 1b. slot file-name aliasing (declared outside the model): a source called <slot>.c.nelua uses <cache>/<slot>.c
    # both as C file and as output; it must never serve another program's artefact (today: gcc refuses)
    adir = os.path.join(ctx.work, "alias-%d" % os.getpid())
    shutil.rmtree(adir, ignore_errors=True)
    os.makedirs(adir)
    with open(os.path.join(adir, "a.nelua"), "w") as f:
        f.write("print('plain a')\n")
    with open(os.path.join(adir, "a.c.nelua"), "w") as f:
        f.write("print('aliased a.c')\n")
    al = []
    for src in ("a.nelua", "a.c.nelua", "a.nelua"):
        rc, out, err = vlib.nelua(["--cache-dir", os.path.join(adir, "c"), src], interp=interp, cwd=adir)
        al.append((src, rc, out.strip(), err.strip()[-120:]))
    shutil.rmtree(adir, ignore_errors=True)
    cov["slot_alias_probe"] = [list(x) for x in al]
    for src, rc, out, err in al:
        want = "plain a" if src == "a.nelua" else "aliased a.c"
        if (rc == 0 and out != want) or (src == "a.nelua" and rc != 0):
            ctx.violation("slot-alias: a.nelua, a.c.nelua, a.nelua in one cache dir", "oracle",
                          "%s printed %r (rc=%s), expected %r or a compile error" % (src, out, rc, want), detail={"runs": [list(x) for x in al]})
    # 2. corpus + generated histories
    hist = []
    cp = os.path.join(vlib.VERIF, "corpus", ID, "histories.txt")
    if os.path.exists(cp):
        for line in vlib.read(cp).split("\n"):
            line = line.split("#")[0].strip()
            if line:
                hist.append(("corpus", line.split()))
    n_rand = ctx.scale(14, 400)
    flav = ["mixed", "tight", "spaced", "opts"]
    for i in range(n_rand):
        f = flav[i % 4] if i % 8 < 4 else "mixed"
        hist.append((f, gen_history(ctx.rng, f)))

    def job(args):
        idx, (stream, toks) = args
        hdir = os.path.join(ctx.work, "h%d-%d" % (os.getpid(), idx))
        recs, obs = rp.replay(interp, vlib.REPO, hdir, toks)
        return idx, stream, toks, recs, obs

    results = []
    with concurrent.futures.ThreadPoolExecutor(max_workers=ctx.scale(8, 14)) as ex:
        for r in ex.map(job, list(enumerate(hist))):
            results.append(r)
    mres_all = model.run([r[4] for r in results])

    dist = {"streams": {}, "decisions": {}, "outcomes": {}, "steps": {"A": 0, "R": 0, "I": 0, "C": 0}}
    nontrivial = set()
    n_dec_mismatch = n_stale = n_unexplained = n_hyp_checked = n_uncovered = 0
    samples = []
    to_shrink = []
    for (idx, stream, toks, recs, obs), mres in zip(results, mres_all):
        dist["streams"][stream] = dist["streams"].get(stream, 0) + 1
        for t in toks:
            dist["steps"][t[0]] += 1
        n_inv += len(recs)
        if len(samples) < 4:
            samples.append({"stream": stream, "history": " ".join(toks), "observed": " ".join(obs),
                            "decisions": ["g%db%d:%s" % (r["g"], r["b"], r["outcome"]) for r in recs]})
        if len(mres) != len(recs):
            ctx.violation("harness-run", "harness", "model/implementation step counts differ on %s" % " ".join(toks), failing_input=False)
            continue
        for r in recs:
            if r.get("cmd_covered") is False:
                n_uncovered += 1
                if n_uncovered <= 2:
                    ctx.violation("heading-does-not-cover-command", "correspondence",
                                  "the command compile_binary executed is not the command compile_code recorded in the heading of the C file (modulo the output path): executed `%s`, heading `%s`; the cache key no longer determines the build" %
                                  (r["executed_cmd"], r["heading_cmd"]),
                                  detail={"history": " ".join(toks), "step": r["step"], "no_longer_checks": "tie fact: executed command = heading command"}, failing_input=False)
        hyp_prefix = True
        stale_here = False
        for j, (r, m) in enumerate(zip(recs, mres)):
            dk = "g%db%d" % (r["g"], r["b"])
            dist["decisions"][dk] = dist["decisions"].get(dk, 0) + 1
            ok = r["outcome"].split(".")[0]
            dist["outcomes"][ok] = dist["outcomes"].get(ok, 0) + 1
            hyp_prefix = hyp_prefix and m["hyp_weak"]
            stale_impl = r["reference"] is not None and r["outcome"] != r["reference"]
            if hyp_prefix:
                n_hyp_checked += 1
            same = (r["g"], r["b"], r["outcome"]) == (m["g"], m["b"], m["outcome"])
            if stale_impl:
                n_stale += 1
                stale_here = True
                if m["fresh"] or not same:
                    n_unexplained += 1
                    ctx.violation(key_of(obs[:]), "oracle",
                                  "stale artefact not predicted by the model: invocation %d ran/served %s, --no-cache gives %s (model: %s)" %
                                  (j + 1, r["outcome"], r["reference"], m["outcome"]),
                                  detail={"history": " ".join(toks), "observed_history": " ".join(obs),
                                          "records": [strip(x) for x in recs], "model": mres})
            elif not same:
                n_dec_mismatch += 1
                if n_dec_mismatch <= 3:
                    ctx.violation("model-mismatch:decisions", "correspondence",
                                  "history %s, invocation %d: implementation %s/%s/%s, model %s/%s/%s (the outcome agrees with --no-cache)" %
                                  (" ".join(obs), j + 1, r["g"], r["b"], r["outcome"], m["g"], m["b"], m["outcome"]),
                                  detail={"history": " ".join(toks), "observed_history": " ".join(obs),
                                          "records": [strip(x) for x in recs], "model": mres,
                                          "no_longer_checks": "correspondence stream C08/decisions"}, failing_input=False)
        if stale_here and all((r["g"], r["b"], r["outcome"]) == (m["g"], m["b"], m["outcome"]) for r, m in zip(recs, mres)):
            to_shrink.append(obs)
        if len({t for t in obs if t[0] != "A"}) >= 2:
            nontrivial.add(" ".join(obs))

    # 3. stale histories the model agrees on: shrink on the model, confirm the shrunk form on the implementation
    shrunk_keys = {}
    for obs in to_shrink:
        sh = shrink(model, obs, rp)
        if sh is None:
            continue
        k = key_of(sh)
        shrunk_keys[k] = shrunk_keys.get(k, 0) + 1
        if k in confirmed:
            continue
        res = confirm(ctx, rp, model, interp, "shrunk%d" % len(confirmed), sh)
        confirmed[k] = res
        if res["setup_ok"] and res["stale_runs"]:
            report_stale(k, res, "shrunk from generated history %s" % " ".join(obs))
        else:
            ctx.violation(key_of(obs), "oracle",
                          "stale artefact in a generated history whose shrunk form %s could not be reproduced (setup_ok=%s)" % (k, res["setup_ok"]),
                          detail={"observed_history": " ".join(obs), "shrunk": k})
    # every confirmed-stale canonical history is reported (known findings match on these keys)
    full_now = bool(genpol) and (not genpol.get("p_le") or genpol.get("p_del_rewrite")) and not genpol.get("p_reuse_out") \
        and not genpol.get("p_nohead_cache") and genpol.get("p_head_hash") and genpol.get("p_size_chk")
    cov.update({
        "main_theorem": ("C08_cache_fresh : cache_fresh GENPOL (FULL strength over the property's step kinds - source/module/-D/-P/--cflags/--release edits, "
                         "source and compiler switches, -o, --no-cache, --code, interrupted builds - every history, every spacing) is the obligation discharged "
                         "for the policy scraped from the current tree; documented limit: edits of headers not found in cincdir directories / extra C files (C08_cache_fresh_all_world_edits_refuted, open known finding)") if full_now else
                        "the scraped policy does NOT satisfy the premises of the full theorem: C08_cache_fresh cannot check (see proof_problems)",
        "full_theorem_premises_hold_for_scraped_policy": bool(full_now),
        "evaluations": n_inv,
        "distinct_nontrivial": len(nontrivial),
        "rule": "evaluation = one compiler invocation of a replayed history (witnesses, corpus, 4 generated streams: mixed/tight/spaced/opts; "
                "lengths 2..12, deltas from {0,0.2,0.9,1.1,3} s); non-trivial = distinct observed history with at least two different invocations",
        "samples": samples,
        "distribution": dist,
        "histories": len(results),
        "stale_invocations_in_generated_histories": n_stale,
        "stale_not_explained_by_model": n_unexplained,
        "shrunk_forms": shrunk_keys,
        "decision_mismatches": n_dec_mismatch,
        "builds_whose_command_is_not_the_heading_command": n_uncovered,
        "invocations_under_partial_theorem_hypotheses": n_hyp_checked,
        "traces_validated_against_impl": len(results),
        "model_evaluations": model.calls,
        "unproved": UNPROVED,
    })
    return cov
