"""C10 - the GC never reclaims reachable memory and finalizes each object exactly once.

(T) flag bit numbers, word size, pause constants scraped into coq/C10/Gen.v;
(C) the extracted model of gc.nelua (coq/C10/Model.v) against the REAL collector driven by
    harness/C10/gcdriver.nelua on the same histories (addresses, realloc placement and the
    conservative part of the stack are taken from the real run and handed to the model as the
    history); property oracle = word-level reachability / finalizer log / byte accounting
    computed in Python, independent of the model."""
import concurrent.futures
import json
import os
import re
import vlib

ID = "C10"
ALLOWED_AXIOMS = []
TRUSTED_BASE = [
    "coqc 8.16.1 kernel (vm_compute used for refutation witnesses and facts about scraped constants; no native_compute)",
    "no axioms: every theorem of coq/C10/Properties.v is 'Closed under the global context'",
    "translator checks/C10.py:gen (regex scrape of the GCFlags / AllocatorFlags bit numbers, the default pause, the '* 100' pause scale, whether GC:register still forces LEAF for size < #@usize, whether GC_markptrs/GC_scanptr test item.size >= #@usize, and whether GC:reregister writes item.size before the branch that may run a cycle)",
    "extraction: Require Extraction + ExtrOcamlBasic only; Z/positive/nat stay Coq inductives; no Extract Constant of our own",
    "ocaml/zutil.ml + coq/C10/driver.ml (text <-> extracted Z; feeds the real run's addresses and conservatively retained blocks to the model as the history)",
    "harness/C10/gcdriver.nelua (mutator + allocator hook below the collector through the supported embedded_general_allocator override; none of the collector is re-implemented), gcc, the real Nelua compiler built from /repo/src",
    "modelled rather than verified: gc.nelua is mirrored by hand in coq/C10/Model.v; hashmap iteration-while-erasing, vector, setjmp/frame-address stack scanning and the coroutine stack switch are outside the model",
]
ASSUMPTIONS = [
    "the words a conservative scan of stack+registers sees are a superset of the mutator's live pointers (supplied by the history in the model; sampled on the real runtime)",
    "gc.items / gc.rootitems behave as finite maps (hashmap.nelua is C12's model); iteration order is irrelevant to every theorem",
    "64-bit target: #@usize = 8",
    "the pointer returned by the system allocator (or the moved/grown block) sits in a scanned register or stack slot while GC:register / GC:reregister may run a cycle (the model passes ptr :: stk; restated as C10_alloc_fresh_survives_if_scanned)",
    "modelled finalizers: observe only / gc:unregister(self) and free the block themselves (coroutine_gc) / gc_allocator:dealloc(self); finalizers that allocate or touch other blocks are outside the model (one such case is replayed as a known finding)",
    "correspondence is differential testing over generated histories, not a proof that model = code",
]

THEOREM_CLASSES = {
    "C10_membytes_exact": "main", "C10_mask_sound": "main", "C10_registered_once": "corollary",
    "C10_mark_complete": "main", "C10_sweep_safe": "main", "C10_quiescent": "corollary",
    "C10_finalize_at_most_once": "main", "C10_finalize_at_most_once_at_exit": "main",
    "C10_finalize_exactly_once_or_unregistered_at_exit": "main", "C10_no_unbounded_garbage": "main",
    "C10_alloc_safe": "main", "C10_alloc_fresh_survives_if_scanned": "definitional",
    "C10_explicit_ops_frame": "corollary", "C10_realloc_grow_safe": "corollary",
    "C10_leaf_flag_sound": "main", "C10_reachable_kept": "main", "C10_no_abort": "main",
    "C10_repaired_code_facts": "tripwire", "C10_every_op_safe": "main",
    "C10_stacktop_discipline": "main", "C10_main_stack_kept": "corollary", "C10_coroutine_stack_kept": "corollary",
    "C10_stacktop_reset_needed": "refutation", "C10_leaf_rule_needed": "refutation",
    "C10_finalize_bit_needed": "refutation", "C10_destroy_sweep_needed": "refutation",
}
UNPROVED = [
    "repair-flag companions: C10_leaf_rule_needed and C10_finalize_bit_needed are stated on policy-parametric copies of the DECISIONS (reg_flags_gen, register_branch_gen, linked to the model by reg_flags_is_gen / register_branch_is_gen), not on a policy-parametric copy of the whole collector; SCAN_SIZE_TEST and RESIZE_BEFORE_STEP have no companion (no theorem is false without them inside this model: over-reads and stale table pointers are outside it); C10_destroy_sweep_needed shows only that at least one sweep is needed - that one is not enough needs finalizers that allocate, which are outside the model",
    "C10_stacktop_discipline is mostly definitional (the one real path is the refused resume from main, which rests on the scraped placement of gc:setstacktop(0): companion C10_stacktop_reset_needed); C10_main_stack_kept and C10_coroutine_stack_kept are corollaries of C10_every_op_safe whose stack/register words and 'the coroutine's frames are words of its registered item' are premises supplied by the history; CORO_REGISTERED_WITH_CORO_SIZE is a tripwire no theorem depends on",
    "stack clause: the collector-side logic is modelled (coq/C10/CoStack.v: gc.stacktop bracket of coroutine.resume incl. refused resumes, main stack frames, coroutine stacks as registered items) and proved (C10_stacktop_discipline, C10_main_stack_kept, C10_coroutine_stack_kept); NOT modelled: that the words of the real machine stack / registers (setjmp, frame address) and of the coroutine's mmap'd block are exactly what the history supplies, and the context switch itself; the CoStack layer is not run against the implementation command by command - its tie is the scraped order of gc:setstacktop(0) vs the error return, and the coroutine stream (harness/C10/gccodriver.nelua: blocks held only in coroutine frames / in deep main frames, refused resumes from main followed by cycles), which is testing",
    "that the pointer being (re)registered sits in a scanned slot while GC:register/GC:reregister may run a cycle: assumed by the model (ptr :: stk), restated as C10_alloc_fresh_survives_if_scanned, observed on the real collector by every history in the 'auto*' modes",
    "a realloc that MOVES its block and triggers a cycle: no frame theorem of its own (C10_every_op_safe excludes it; C10_sweep_safe applies to the intermediate state, which satisfies the invariant)",
    "finalizers that allocate or deallocate OTHER blocks are outside the model; GC:destroy's repeated sweep (2edb035) is therefore tied by one replayed exit witness only",
    "the collector's check(...) calls inside GC_sweep ('gc item not found to finalize/deallocate') are modelled as no-ops: no theorem states they cannot fire (only GC:reregister's check is proved unreachable, ErrCollectorCheck)",
    "hashmap erase-while-iterating, rehash/shrink of gc.items inside GC_sweep/GC_rehash and the validity of *GCItem pointers across them: gc.items is an abstract finite map here (hashmap.nelua is C12's model); tied by the scraped order fact RESIZE_BEFORE_STEP and the burst stream only",
    "contents: fresh and grown bytes are zero in the model and in the harness allocator (alloc0 / zeroing hook); uninitialised contents of plain alloc/realloc are not exercised",
    "wrappers never run against the implementation: realloc(nil), realloc(p,0), new, spanalloc, root reregister, more than one root region; --release and ASan builds only in the thorough tier",
    "'exactly once by normal exit' is proved as: called exactly once OR dropped exactly once by an explicit gc:unregister of the program (C10_finalize_exactly_once_or_unregistered_at_exit), and only when no assert fired",
]
MANIFEST_ENTRY = {
    "text": "proof, partial: theorems (over all mutator histories of an executable model of gc.nelua) for byte accounting, address-mask soundness, mark completeness and soundness, 'a reachable block keeps flags/size/finalizer/contents and is neither freed nor finalized' for every command except a moving realloc (C10_every_op_safe, C10_reachable_kept), finalizers at most once and exactly-once-or-explicitly-unregistered at exit, the stack clause at the collector's level (gc.stacktop discipline across accepted and refused resumes; blocks referenced from any main-stack frame or from a reachable coroutine object's stack memory survive), no garbage after one cycle, LEAF flag soundness, no collector assertion on well-formed histories; resting on differential testing only: that the model is the code (history-by-history correspondence against the real collector with an independent reachability/leak/finalizer oracle), conservative stack/register/coroutine-stack scanning, moving realloc cycles, finalizers that allocate, hashmap internals",
    "note": "trusted: Coq kernel, regex scrapes into Gen.v, ExtrOcamlBasic extraction, coq/C10/driver.ml (feeds real addresses and conservatively retained blocks of alloc/realloc-triggered cycles to the model; explicit cycles must need none), harness/C10/*.nelua, gcc; assumes gc.items/rootitems are finite maps (lib/hashmap.nelua is property C12's model), 64-bit target, the pointer under registration is in a scanned slot",
    "technique": "machine-checked proof in Coq over an executable model + regenerated parameters + extracted-model/implementation correspondence on generated histories with an independent oracle",
}

HARNESS = os.path.join(vlib.VERIF, "harness", ID, "gcdriver.nelua")
M64 = (1 << 64) - 1
CAP = 1024

KEY_LEAF = "regression[9c3dee4]:history:N(4);R(64,inplace);N(32,fin);S(0.1<-1);D(1);C -> pointee freed while reachable [GC:reregister keeps the size<8 LEAF flag]"
KEY_FINROOT = "regression[fe9bb7e]:history:N(32,fin);R(2000,moved) -> abort 'attempt to register a root pointer with finalizer' [GCFlags.FINALIZE == GCFlags.ROOT == 1<<17]"


# ---------------------------------------------------------------------------- gen
def strip_nelua_comments(src):
    """Remove --[[ ]] / --[=[ ]=] block comments and -- line comments (string literals are respected
    for the line comments); preprocessor lines (## ...) are code and stay."""
    src = re.sub(r"--\[(=*)\[.*?\]\1\]", "", src, flags=re.S)
    out = []
    for line in src.split("\n"):
        i, n, q = 0, len(line), None
        while i < n:
            ch = line[i]
            if q:
                if ch == "\\":
                    i += 1
                elif ch == q:
                    q = None
            elif ch in "'\"":
                q = ch
            elif ch == "-" and line.startswith("--", i):
                line = line[:i]
                break
            i += 1
        out.append(line.rstrip())
    return "\n".join(out)


def gen(ctx):
    # a commented-out line must never satisfy a scrape
    gcsrc = strip_nelua_comments(vlib.repo_read("lib/allocators/gc.nelua"))
    alsrc = strip_nelua_comments(vlib.repo_read("lib/allocators/allocator.nelua"))
    out = {}

    def shift(src, name, what):
        m = re.search(r"\b%s\s*=\s*1\s*<<\s*(\d+)" % name, src)
        if not m:
            raise RuntimeError("cannot find %s = 1 << n in %s" % (name, what))
        return int(m.group(1))

    alloc_bits = {n: shift(alsrc, n, "allocator.nelua") for n in ("GCRoot", "GCLeaf", "GCBranch", "GCExtern")}
    for name in ("MARK", "FINALIZE", "ROOT", "LEAF", "BRANCH", "EXTERN"):
        m = re.search(r"\b%s\s*=\s*(1\s*<<\s*(\d+)|AllocatorFlags\.(\w+))" % name, gcsrc)
        if not m:
            raise RuntimeError("cannot find GCFlags.%s" % name)
        out[name] = int(m.group(2)) if m.group(2) else alloc_bits[m.group(3)]
    m = re.search(r"self\.pause\s*=\s*(\d+)", gcsrc)
    if not m:
        raise RuntimeError("cannot find the default pause")
    out["DEFAULT_PAUSE"] = int(m.group(1))
    m = re.search(r"self\.membytes\s*\*\s*(\d+)\s*>=\s*self\.lastmembytes\s*\*\s*self\.pause", gcsrc)
    if not m:
        raise RuntimeError("cannot find the pause rule of GC:step")
    out["PAUSE_SCALE"] = int(m.group(1))
    # where the collector decides that a block is too small to hold a pointer
    out["AUTO_LEAF_ON_REGISTER"] = bool(re.search(
        r"size\s*<\s*#@usize\s*\)\s*then\s*flags\s*=\s*flags\s*\|\s*GCFlags\.LEAF", gcsrc))
    ntests = len(re.findall(r"not\s+hasflag\(item\.flags,\s*GCFlags\.LEAF\)\s+and\s+item\.size\s*>=\s*#@usize\s+then", gcsrc))
    nplain = len(re.findall(r"not\s+hasflag\(item\.flags,\s*GCFlags\.LEAF\)\s+then", gcsrc))
    if ntests + nplain != 2:
        raise RuntimeError("cannot find the two LEAF tests of GC_markptrs / GC_scanptr (%d sized, %d plain)" % (ntests, nplain))
    if ntests not in (0, 2):
        raise RuntimeError("GC_markptrs and GC_scanptr disagree on the size test (%d of 2)" % ntests)
    out["SCAN_SIZE_TEST"] = ntests == 2
    # order of the two statements in the same-address path of GC:reregister
    m1 = re.search(r"item\.size\s*=\s*newsize", gcsrc)
    m2 = re.search(r"if likely\(newsize > oldsize\) then", gcsrc)
    if not m1 or not m2:
        raise RuntimeError("cannot find 'item.size = newsize' / the growth branch of GC:reregister")
    out["RESIZE_BEFORE_STEP"] = m1.start() < m2.start()
    # GC:destroy: how many times it may sweep (1 = the single sweep of the code before 2edb035)
    md = re.search(r"function GC:destroy\(\).*?\nend\n", gcsrc, re.S)
    if not md:
        raise RuntimeError("cannot find GC:destroy")
    ml = re.search(r"for\s+i\s*=\s*1\s*,\s*(\d+)\s+do\s+GC_sweep\(self\)\s+if\s+#self\.items\s*==\s*0\s+then\s+break\s+end\s+end", md.group(0))
    if ml:
        out["DESTROY_SWEEPS"] = int(ml.group(1))
    elif len(re.findall(r"GC_sweep\(self\)", md.group(0))) == 1:
        out["DESTROY_SWEEPS"] = 1
    else:
        raise RuntimeError("cannot recognise the sweep (loop) of GC:destroy")
    # coroutine.resume: the main stack top saved for the collector is reset BEFORE the error return
    cosrc = strip_nelua_comments(vlib.repo_read("lib/coroutine.nelua"))
    mr = re.search(r"function coroutine\.resume\(.*?\n(.*?)\nend\n", cosrc, re.S)
    if not mr:
        raise RuntimeError("cannot find coroutine.resume")
    body = mr.group(1)
    i_set = body.find("gc:setstacktop()")
    i_res = body.find("minicoro.resume(co)")
    i_reset = body.find("gc:setstacktop(0)")
    i_ret = body.find("return false", i_res)
    if min(i_set, i_res, i_reset, i_ret) < 0 or not (i_set < i_res):
        raise RuntimeError("cannot recognise the stack-top bracket of coroutine.resume")
    out["STACKTOP_RESET_BEFORE_ERROR_RETURN"] = i_res < i_reset < i_ret
    # coroutine.create registers the WHOLE coroutine block (header, storage and stack) with the collector
    mreg = re.search(r"gc:register\(co,\s*([^,]+),\s*0,\s*coroutine_gc,\s*nilptr\)", cosrc)
    if not mreg:
        raise RuntimeError("cannot find the gc:register call of coroutine.create")
    out["coroutine_registered_size_expr"] = mreg.group(1).strip()
    out["CORO_REGISTERED_WITH_CORO_SIZE"] = out["coroutine_registered_size_expr"] == "desc.coro_size"
    if not re.search(r"self\.stacktop\s*==\s*0\s+and\s+\(@usize\)\(&regsbuf\)\s+or\s+self\.stacktop", gcsrc):
        raise RuntimeError("cannot find the 'stacktop == 0 and current frame or stacktop' rule of GC_scanstack")
    out["WORD_SIZE"] = 8
    txt = ("(* GENERATED by checks/C10.py from /repo (lib/allocators/gc.nelua, lib/allocators/allocator.nelua) - do not edit *)\n"
           "From Coq Require Import ZArith.\n")
    # BRANCH is scraped for the evidence only: gc.nelua never reads it, so the model has no use for it
    for name in ("MARK", "FINALIZE", "ROOT", "LEAF", "EXTERN"):
        txt += "Definition %s_BIT : Z := %d%%Z.\n" % (name, out[name])
    txt += "Definition WORD_SIZE : Z := %d%%Z.\n" % out["WORD_SIZE"]
    txt += "Definition DEFAULT_PAUSE : Z := %d%%Z.\n" % out["DEFAULT_PAUSE"]
    txt += "Definition PAUSE_SCALE : Z := %d%%Z.\n" % out["PAUSE_SCALE"]
    txt += "Definition DESTROY_SWEEPS : nat := %d.\n" % out["DESTROY_SWEEPS"]
    for name in ("AUTO_LEAF_ON_REGISTER", "SCAN_SIZE_TEST", "RESIZE_BEFORE_STEP", "STACKTOP_RESET_BEFORE_ERROR_RETURN",
                 "CORO_REGISTERED_WITH_CORO_SIZE"):
        txt += "Definition %s : bool := %s.\n" % (name, "true" if out[name] else "false")
    vlib.write_if_changed(os.path.join(vlib.coq_dir(ID), "Gen.v"), txt)
    return out


# ---------------------------------------------------------------------------- histories
SIZES = [4, 8, 16, 24, 32, 48, 64, 128, 256, 1000, 2000]
BIG = 300000   # served by mmap: a different address range, widens the or/and address masks
NH = 12


def canary_word(i, size):
    if size >= 8:
        return (0xC0DE000000000000 + i * 0x10001) & M64
    return (0xC0DE0000 + i) & 0xFFFFFFFF


def nwords(size):
    return (size + 7) // 8


def gen_history(rng, nops, first_id=0):
    """Abstract history over handle slots; only manipulates objects that are reachable from the
    root table, never dereferences a dangling reference, and stays clear of the two known
    defects (they are replayed separately)."""
    ops = []
    handles = [None] * NH
    objs = {}
    nid = first_id
    mode = rng.choice(["manual", "manual", "auto", "auto-tight", "auto-always"])
    if rng.random() < 0.5:
        ops.append("U 1")
    if mode == "manual":
        ops.append("G 0")
    elif mode == "auto-tight":
        ops.append("P %d" % rng.choice([101, 120, 150]))
    elif mode == "auto-always":
        ops.append("P %d" % rng.choice([0, 50, 100]))

    def valid(ref):
        return ref is not None and objs[ref[0]]["alive"] and objs[ref[0]]["epoch"] == ref[1]

    def nslots(o):
        if o["leaf"] or o["size"] < 16:
            return 0
        return o["size"] // 8 - 1

    def live_handles():
        return [h for h in range(NH) if handles[h] is not None]

    def kill_refs(i):
        for h in range(NH):
            if handles[h] == i:
                handles[h] = None

    for _ in range(nops):
        lh = live_handles()
        r = rng.random()
        if r < 0.26 or not lh:
            h = rng.randrange(NH)
            size = rng.choice(SIZES) if rng.random() > 0.01 else BIG
            fl = 0
            leaf = rng.random() < 0.12
            if leaf:
                fl |= 1
            if rng.random() < 0.05:
                fl |= 2
            if rng.random() < 0.05:
                fl |= 4
            fk = rng.choice([0, 0, 0, 0, 0, 1, 1, 1, 2, 3])
            ops.append("N %d %d %d %d %d" % (nid, h, size, fl, fk))
            objs[nid] = {"size": size, "cap": max(size, CAP), "leaf": leaf, "fk": fk, "alive": True, "epoch": 0,
                         "tainted": size < 8, "slots": {}}
            handles[h] = nid
            nid += 1
        elif r < 0.46:
            cand = [h for h in lh if nslots(objs[handles[h]]) > 0]
            if not cand:
                continue
            h = rng.choice(cand)
            o = objs[handles[h]]
            i = rng.randrange(1, nslots(o) + 1)
            if rng.random() < 0.15:
                ops.append("S %d %d -1" % (h, i))
                o["slots"][i] = None
            else:
                g = rng.choice(lh)
                ops.append("S %d %d %d" % (h, i, g))
                o["slots"][i] = (handles[g], objs[handles[g]]["epoch"])
        elif r < 0.54:
            cand = []
            for h in lh:
                o = objs[handles[h]]
                for i, ref in o["slots"].items():
                    if i <= nslots(o) and valid(ref):
                        cand.append((h, i, ref))
            if not cand:
                continue
            h, i, ref = rng.choice(cand)
            k = rng.randrange(NH)
            ops.append("L %d %d %d" % (k, h, i))
            handles[k] = ref[0]
        elif r < 0.58:
            h = rng.choice(lh)
            k = rng.randrange(NH)
            ops.append("M %d %d" % (k, h))
            handles[k] = handles[h]
        elif r < 0.70:
            h = rng.choice(lh)
            ops.append("D %d" % h)
            handles[h] = None
        elif r < 0.80:
            h = rng.choice(lh)
            i = handles[h]
            o = objs[i]
            move = rng.random() < 0.4
            choices = [s for s in SIZES if s != o["size"] and (move or s <= o["cap"])]
            if not choices:
                continue
            ns = rng.choice(choices)
            ops.append("R %d %d %d" % (h, ns, 1 if move else 0))
            moved = move or ns > o["cap"]
            if moved:
                o["epoch"] += 1
                o["cap"] = max(ns, CAP)
                for h2 in range(NH):
                    if handles[h2] == i and h2 != h:
                        handles[h2] = None
                if ns < 8:
                    o["tainted"] = True
            o["size"] = ns
            for s in list(o["slots"]):
                if s >= nwords(ns):
                    del o["slots"][s]
        elif r < 0.85:
            cand = [h for h in lh if objs[handles[h]]["fk"] in (0, 1)]
            if not cand:
                continue
            h = rng.choice(cand)
            i = handles[h]
            ops.append("F %d" % h)
            objs[i]["alive"] = False
            kill_refs(i)
        elif r < 0.86:
            # the program calls gc:unregister(ptr) itself (no finalizer call; a registered finalizer is dropped)
            h = rng.choice(lh)
            i = handles[h]
            ops.append("X %d" % h)
            objs[i]["alive"] = False
            kill_refs(i)
        elif r < 0.94:
            ops.append("C")
        elif r < 0.98:
            ops.append("T")
        else:
            ops.append("P %d" % rng.choice([0, 100, 150, 200, 400]))
    if rng.random() < 0.6:
        for h in range(NH):
            ops.append("D %d" % h)
        ops += ["C", "C"]
    return ops, mode


FORCED_CYCLE_EVERY = 25
ALLOC_CYCLE_RETENTION_BOUND = 16


def with_forced_cycles(ops):
    """Bound what any single history can hold back: an explicit cycle (run from the scrubbed shallow
    frame of the driver loop, where the roots are exact) after every FORCED_CYCLE_EVERY commands and
    two at the end.  Whatever an allocation-triggered cycle kept conservatively - or leaked - must
    be gone there, otherwise the oracle reports garbage-retained."""
    out = []
    for i, o in enumerate(ops):
        out.append(o)
        if (i + 1) % FORCED_CYCLE_EVERY == 0:
            out.append("C")
    return out + ["C", "C"]


def gen_burst_history(rng, first_id=0):
    """Many dead blocks pile up while the collector is stopped; it is restarted with a pause that
    makes the next growth due, and a live block is grown IN PLACE: the cycle runs inside
    GC:reregister, sweeps the dead blocks and lets GC_rehash shrink the collector's own table.
    Afterwards the only reference to a fresh block is stored in the grown tail."""
    ops = []
    nid = first_id
    if rng.random() < 0.5:
        ops.append("U 1")
    ops.append("G 0")
    live = rng.randrange(1, 5)
    sizes = {}
    for h in range(live):
        sz = rng.choice([16, 32, 64, 128, 256])
        ops.append("N %d %d %d 0 %d" % (nid, h, sz, rng.choice([0, 0, 1])))
        sizes[h] = sz
        nid += 1
    for h in range(1, live):
        ops.append("S %d 1 %d" % (h - 1, h))
    if rng.random() < 0.5:
        ops.append("C")
    ndead = rng.choice([12, 40, 80, 150, 300])
    for _ in range(ndead):
        ops.append("N %d %d %d %d %d" % (nid, 10 + rng.randrange(2), rng.choice([8, 16, 32, 64]), rng.choice([0, 0, 0, 1]),
                                       rng.choice([0, 0, 0, 1])))
        nid += 1
    ops += ["D 10", "D 11"]
    ops.append("P %d" % rng.choice([0, 50, 100, 100, 120, 150, 200]))
    ops.append("G 1")
    t = rng.randrange(live)
    ns = rng.choice([s for s in (128, 256, 512, 768, 1024) if s > sizes[t]])
    ops.append("R %d %d 0" % (t, ns))
    slot = rng.randrange(sizes[t] // 8, ns // 8)
    ops.append("G 0")
    ops.append("N %d 9 32 0 %d" % (nid, rng.choice([0, 1])))
    nid += 1
    ops += ["S %d %d 9" % (t, slot), "D 9", "C", "C", "L 8 %d %d" % (t, slot), "C"]
    tail, _ = gen_history(rng, rng.choice([0, 20, 60]), first_id=nid)
    # the random tail starts from its own bookkeeping: drop every handle first so that it never
    # dereferences what it does not know about
    if tail:
        ops += ["D %d" % h for h in range(NH)] + [o for o in tail if not o.startswith(("U ", "G 0")) or o == "G 0"]
    return ops


# ---------------------------------------------------------------------------- real run
def parse_real(out):
    """-> header, list of (events, summary dict) per op, exit events"""
    hdr = {}
    per = []
    ev = []
    exit_seen = False
    exit_ev = []
    for line in out.split("\n"):
        if not line:
            continue
        c = line[0]
        if c == "@":
            if line.startswith("@ roots="):
                m = re.match(r"@ roots=([0-9a-f]+) rootsize=(\d+)", line)
                hdr = {"roots": int(m.group(1), 16), "rootsize": int(m.group(2))}
            elif line.startswith("@ exit"):
                exit_seen = True
        elif c in "FXVA!":
            (exit_ev if exit_seen else ev).append(line.split())
        elif c == "=":
            w = line.split()
            if len(w) >= 3 and w[2] == "quit":
                continue
            d = {"op": int(w[1])}
            for kv in w[2:]:
                k, _, v = kv.partition("=")
                d[k] = v
            reg = {}
            for ent in d.get("reg", "").split(","):
                if ent:
                    i, sz, ok = ent.split(":")
                    reg[int(i)] = (int(sz), ok == "ok")
            d["reg"] = reg
            per.append((ev, d))
            ev = []
    return hdr, per, exit_ev, exit_seen, ev


def run_real(binary, ops, timeout=60):
    rc, out, err = vlib.sh([binary], input="\n".join(ops) + "\n", timeout=timeout,
                           env={"ASAN_OPTIONS": "detect_leaks=0:abort_on_error=1"})
    return rc, out, err


# ---------------------------------------------------------------------------- analysis of one history
class Hist:
    """Replays a history on the real output: builds the model script with the real addresses and
    evaluates the property oracle."""

    exact_roots = True     # False for instrumented builds (ASan), where the stack scrub does not reach every spill slot

    def __init__(self, ops, rc, out, err):
        self.ops = ops
        self.rc = rc
        self.err = err
        self.hdr, self.per, self.exit_ev, self.exit_seen, self.tail_ev = parse_real(out)
        self.problems = []      # (kind, text) property-level failures
        self.completed = 0      # commands replayed (set by analyse; stays 0 when the driver printed no header)
        self.model_lines = []   # model script
        self.expect = []        # per compared model line: dict of real observations
        self.stats = {"collect_ops": 0, "implicit": 0, "objects": 0, "finalized": 0, "freed": 0, "extras": 0,
                      "max_live": 0, "reach_checks": 0}

    def analyse(self):
        P = self.problems
        hdr = self.hdr
        if not hdr:
            P.append(("harness", "no header from the driver: rc=%s %s" % (self.rc, self.err[-300:])))
            return
        rootaddr = hdr["roots"]
        objs = {}             # id -> dict(addr,size,words,leaf,fk,registered,explicit)
        rootw = [0] * (hdr["rootsize"] // 8)
        fin_count = {}
        free_count = {}
        late = []             # blocks with a finalizer that were allocated by a finalizer (kind 4)
        self.late = late
        ml = self.model_lines
        ml.append(("regroot %x %x" % (rootaddr, hdr["rootsize"]), None))

        regids = set()        # ids whose block is registered as far as the oracle knows

        def by_addr():
            return {objs[i]["addr"]: i for i in regids}

        def reach():
            ba = by_addr()
            seen = set()
            work = [w for w in rootw if w in ba]
            while work:
                a = work.pop()
                i = ba[a]
                if i in seen:
                    continue
                seen.add(i)
                o = objs[i]
                if o["leaf"] or o["size"] < 8:
                    continue
                for w in o["words"][:o["size"] // 8]:
                    if w in ba and ba[w] not in seen:
                        work.append(w)
            return seen

        nper = len(self.per)
        for idx, op in enumerate(self.ops):
            if idx >= nper:
                break
            ev, d = self.per[idx]
            w = op.split()
            c = w[0]
            a = [int(x) for x in w[1:]]
            explicit = set()
            collects = False
            line_live = None
            res = int(d.get("r", "0")) & M64

            def live_addrs():
                return " ".join("%x" % objs[i]["addr"] for i in sorted(d["reg"]) if i in objs)

            if c == "N":
                i, h, size, fl, fk = a
                addr = res
                objs[i] = {"addr": addr, "size": size, "words": [0] * nwords(size), "leaf": bool(fl & 1), "fk": fk,
                           "registered": True, "dropped": False, "extern": bool(fl & 2)}
                regids.add(i)
                self.stats["objects"] += 1
                collects = True
                # registered set as the real collector reports it, with the new block's address
                ml.append(("alloc %x %x %d %d %x %x ; live %s" % (addr, size, fl & 1, (fl >> 1) & 1, fk, i, live_addrs()), None))
                cw = canary_word(i, size)
                objs[i]["words"][0] = cw
                ml.append(("store %x 0 %x" % (addr, cw), None))
                rootw[h] = addr
                ml.append(("rootstore %x %x %x" % (rootaddr, h, addr), d))
            elif c == "S":
                h, i, g = a
                ba = by_addr()
                tgt = ba.get(rootw[h])
                val = rootw[g] if g >= 0 else 0
                if tgt is None:
                    P.append(("harness", "op %d %s: handle does not name a registered block" % (idx, op)))
                    break
                objs[tgt]["words"][i] = val
                ml.append(("store %x %x %x" % (rootw[h], i, val), d))
            elif c == "L":
                k, h, i = a
                ba = by_addr()
                tgt = ba.get(rootw[h])
                if tgt is None:
                    P.append(("harness", "op %d %s: handle does not name a registered block" % (idx, op)))
                    break
                val = objs[tgt]["words"][i]
                if val != res:
                    P.append(("contents", "op %d %s: word read back from a reachable block is %x, stored %x" % (idx, op, res, val)))
                rootw[k] = val
                ml.append(("rootstore %x %x %x" % (rootaddr, k, val), d))
            elif c == "M":
                k, h = a
                rootw[k] = rootw[h]
                ml.append(("rootstore %x %x %x" % (rootaddr, k, rootw[k]), d))
            elif c == "D":
                rootw[a[0]] = 0
                ml.append(("rootstore %x %x 0" % (rootaddr, a[0]), d))
            elif c == "R":
                h, ns, mv = a
                ba = by_addr()
                tgt = ba.get(rootw[h])
                if tgt is None:
                    P.append(("harness", "op %d %s: handle does not name a registered block" % (idx, op)))
                    break
                o = objs[tgt]
                old = o["addr"]
                new = res
                collects = True
                if new == 0:
                    # the driver died inside realloc (abort): nothing more to replay
                    ml.append(("realloc %x %x %x" % (old, old if not mv else 0, ns), d))
                    break
                o["addr"] = new
                o["words"] = (o["words"] + [0] * nwords(ns))[:nwords(ns)]
                o["size"] = ns
                ml.append(("realloc %x %x %x ; live %s" % (old, new, ns, live_addrs()), None))
                cw = canary_word(tgt, ns)
                o["words"][0] = cw
                ml.append(("store %x 0 %x" % (new, cw), None))
                rootw[h] = new
                ml.append(("rootstore %x %x %x" % (rootaddr, h, new), d))
            elif c == "F":
                h = a[0]
                ba = by_addr()
                tgt = ba.get(rootw[h])
                if tgt is None:
                    P.append(("harness", "op %d %s: handle does not name a registered block" % (idx, op)))
                    break
                explicit.add(tgt)
                ml.append(("rootstore %x %x 0" % (rootaddr, h), None))
                ml.append(("dealloc %x" % rootw[h], d))
                rootw[h] = 0
            elif c == "X":
                h = a[0]
                ba = by_addr()
                tgt = ba.get(rootw[h])
                if tgt is None:
                    P.append(("harness", "op %d %s: handle does not name a registered block" % (idx, op)))
                    break
                explicit.add(tgt)
                objs[tgt]["dropped"] = True
                ml.append(("rootstore %x %x 0" % (rootaddr, h), None))
                ml.append(("unregister %x" % rootw[h], d))
                rootw[h] = 0
            elif c == "C":
                collects = True
                self.stats["collect_ops"] += 1
                ml.append(("collect ; live %s" % live_addrs(), d))
            elif c == "T":
                collects = True
                ml.append(("step ; live %s" % live_addrs(), d))
            elif c == "P":
                ml.append(("setpause %x" % a[0], d))
            elif c == "G":
                ml.append(("restart" if a[0] else "stop", d))
            elif c in ("U", "K", "A"):
                pass
            else:
                P.append(("harness", "unknown op %s" % op))
                break

            # reachability after the command's own effect on roots and contents, before the collector's
            # effects of this command are applied: what is in here must survive the command
            r_before = reach()
            # ---- events of this op
            for e in ev:
                if e[0] == "F":
                    i = int(e[1])
                    fin_count[i] = fin_count.get(i, 0) + 1
                    self.stats["finalized"] += 1
                    if e[3] != "ok":
                        P.append(("finalizer-after-free", "op %d %s: finalizer of object %d ran on memory that was already released or overwritten" % (idx, op, i)))
                    if fin_count[i] > 1:
                        P.append(("finalized-twice", "op %d %s: finalizer of object %d ran %d times" % (idx, op, i, fin_count[i])))
                    if i in r_before and i not in explicit:
                        P.append(("reachable-finalized", "op %d %s: object %d is reachable from the root table and was finalized" % (idx, op, i)))
                elif e[0] == "X":
                    i = int(e[1])
                    free_count[i] = free_count.get(i, 0) + 1
                    self.stats["freed"] += 1
                    if i in objs:
                        objs[i]["registered"] = False
                        regids.discard(i)
                        d.setdefault("free_addr", []).append("%x" % objs[i]["addr"])
                    if free_count[i] > 1:
                        P.append(("double-free", "op %d %s: block %d was released twice" % (idx, op, i)))
                    if i in r_before and i not in explicit:
                        P.append(("reachable-freed", "op %d %s: object %d is reachable from the root table and was freed" % (idx, op, i)))
                elif e[0] == "!":
                    P.append(("allocator", "op %d %s: %s" % (idx, op, " ".join(e))))
                elif e[0] == "A":
                    late.append(int(e[1]))
            # registered set according to the collector itself
            reg = d["reg"]
            d["live_hex"] = sorted("%x" % objs[i]["addr"] for i in reg if i in objs)
            d["ev_f"] = sorted(int(e[1]) for e in ev if e[0] == "F")
            d["ev_x"] = sorted(d.get("free_addr", []))
            for i in [i for i in regids if i not in reg]:
                o = objs[i]
                if True:
                    o["registered"] = False   # unregistered (finalizer kind 2/3 already produced X) or collected
                    regids.discard(i)
                    # a block the collector drops must go back to the system allocator (EXTERN blocks and
                    # blocks the program unregistered itself are not the collector's to free)
                    if not o.get("extern") and not o.get("dropped") and free_count.get(i, 0) == 0:
                        P.append(("leaked", "op %d %s: block %d is no longer registered but was never given back to the system allocator" % (idx, op, i)))
            # ---- oracle: reachable => registered, canary intact
            r_after = reach()
            self.stats["reach_checks"] += len(r_after)
            self.stats["max_live"] = max(self.stats["max_live"], len(reg))
            for i in sorted(r_after):
                if i not in reg:
                    P.append(("reachable-lost", "op %d %s: object %d is reachable from the root table but is no longer registered" % (idx, op, i)))
                elif not reg[i][1]:
                    P.append(("canary", "op %d %s: object %d is reachable but its canary word changed" % (idx, op, i)))
                elif reg[i][0] != objs[i]["size"]:
                    P.append(("size", "op %d %s: object %d registered with size %d, expected %d" % (idx, op, i, reg[i][0], objs[i]["size"])))
            # ---- oracle: garbage does not survive an explicit cycle.  The mutator's handles live in the
            # static root table only and the stack below the driver loop is scrubbed before an explicit
            # collect/step, so the roots are exact there: whatever is still registered after the cycle
            # must be reachable (conservative retention is tolerated only for cycles run from inside
            # alloc/realloc, and must be gone at the next explicit cycle)
            if c == "C" or (c == "T" and res == 1):
                kept = sorted(i for i in reg if i in objs and i not in r_after)
                if kept and not self.exact_roots:
                    self.stats["retained_after_explicit_cycle_instrumented_build"] = self.stats.get("retained_after_explicit_cycle_instrumented_build", 0) + len(kept)
                elif kept:
                    self.stats["retained_after_explicit_cycle"] = self.stats.get("retained_after_explicit_cycle", 0) + len(kept)
                    P.append(("garbage-retained", "op %d %s: blocks %s are unreachable from the root table and still registered after an explicit collection cycle" % (idx, op, kept[:8])))
            # ---- oracle: tracked bytes exact
            mem = int(d["mem"])
            if mem != int(d["sum"]) or int(d["n"]) != len(reg) or mem != sum(s for s, _ in reg.values()):
                P.append(("membytes", "op %d %s: gc.membytes=%d but the registered sizes add up to %s (items %s, ours %d)" %
                          (idx, op, mem, d["sum"], d["n"], len(reg))))
            if P:
                break
        if self.rc != 0 and nper < len(self.ops) and not [p for p in P if p[0] == "harness"]:
            w = self.ops[nper].split()
            vs = [e for e in self.tail_ev if e[0] == "V"]
            if w[0] == "R" and vs:
                ml.append(("realloc %s %s %x" % (vs[-1][2], vs[-1][3], int(w[2])), {"abort": True}))
        self.objs = objs
        self.fin_count = fin_count
        self.free_count = free_count
        self.completed = min(len(self.ops), nper)
        # ---- exit
        if self.rc == 0 and self.exit_seen and not P:
            ml.append(("destroy", {"exit": True}))
            for e in self.exit_ev:
                if e[0] == "F":
                    i = int(e[1])
                    fin_count[i] = fin_count.get(i, 0) + 1
                    self.stats["finalized"] += 1
                    if e[3] != "ok":
                        P.append(("finalizer-after-free", "exit: finalizer of object %d ran on released memory" % i))
                    if fin_count[i] > 1:
                        P.append(("finalized-twice", "exit: finalizer of object %d ran %d times" % (i, fin_count[i])))
                elif e[0] == "X":
                    i = int(e[1])
                    free_count[i] = free_count.get(i, 0) + 1
                    if free_count[i] > 1:
                        P.append(("double-free", "exit: block %d released twice" % i))
                elif e[0] == "!":
                    P.append(("allocator", "exit: %s" % " ".join(e)))
                elif e[0] == "A":
                    late.append(int(e[1]))
            for i in late:
                if fin_count.get(i, 0) != 1:
                    P.append(("finalize-exactly-once", "block %d was registered with a finalizer by a finalizer running inside GC:destroy; its finalizer ran %d times by normal exit and the block was never freed" % (i, fin_count.get(i, 0))))
            for i, o in objs.items():
                if o.get("dropped"):
                    if fin_count.get(i, 0) != 0:
                        P.append(("finalized-after-unregister", "object %d was taken out of the collector by gc:unregister, yet its finalizer ran %d times" % (i, fin_count.get(i, 0))))
                    continue
                if o["fk"] != 0 and fin_count.get(i, 0) != 1:
                    P.append(("finalize-exactly-once", "object %d has a finalizer which ran %d times by normal exit" % (i, fin_count.get(i, 0))))
        elif not P and (self.rc != 0 or not self.exit_seen):
            # what the program printed between the last completed command and its death
            opname = self.ops[nper] if nper < len(self.ops) else "exit"
            for e in self.tail_ev + self.exit_ev:
                if e[0] == "F":
                    i = int(e[1])
                    fin_count[i] = fin_count.get(i, 0) + 1
                    if e[3] != "ok":
                        P.append(("finalizer-after-free", "op %d %s: finalizer of object %d ran on memory that was already released or overwritten (the program then died: %s)" % (nper, opname, i, self.err.strip()[-120:])))
                    if fin_count[i] > 1:
                        P.append(("finalized-twice", "op %d %s: finalizer of object %d ran %d times (the program then died: %s)" % (nper, opname, i, fin_count[i], self.err.strip()[-120:])))
                elif e[0] == "!":
                    P.append(("allocator", "op %d %s: %s" % (nper, opname, " ".join(e))))
            P.append(("abort", "the program stopped with status %s after %d of %d commands: %s" %
                      (self.rc, self.completed, len(self.ops), self.err.strip()[-200:])))


def compare_model(h, mout_lines):
    """h.model_lines[i] <-> mout_lines[i]; returns list of mismatch strings."""
    mism = []
    acc_f, acc_x = [], []
    for (line, d), m in zip(h.model_lines, mout_lines):
        kv = {}
        for part in m.split():
            k, _, v = part.partition("=")
            kv[k] = v
        for x in kv.get("ev", "").split(","):
            if x.startswith("F"):
                acc_f.append(int(x[1:], 16))
            elif x.startswith("X") or x.startswith("E"):
                acc_x.append(x[1:])
        if m.startswith("!exn"):
            mism.append("model driver exception on '%s': %s" % (line, m))
            break
        if kv.get("xs", "0") != "0":
            h.stats["extras"] += int(kv["xs"])
            h.stats["max_alloc_cycle_retention"] = max(h.stats.get("max_alloc_cycle_retention", 0), int(kv["xs"]))
            if int(kv["xs"]) > ALLOC_CYCLE_RETENTION_BOUND and h.exact_roots and not h.problems:
                h.problems.append(("garbage-retained-at-allocation-cycle",
                                   "the cycle run from inside '%s' kept %s blocks that are unreachable from the root table and from the block being registered (measured conservative retention is at most 3 per cycle; bound %d)" % (line[:50], kv["xs"], ALLOC_CYCLE_RETENTION_BOUND)))
            if line.startswith(("collect", "step")) and h.exact_roots:
                mism.append("explicit cycle '%s': the implementation kept %s block(s) that the model frees (roots are exact there)" % (line[:40], kv["xs"]))
        if d is None:
            continue
        mf, mx = sorted(acc_f), sorted(acc_x)
        acc_f, acc_x = [], []
        if d.get("abort"):
            if kv.get("err") == "none":
                mism.append("implementation aborted in '%s', the model went on" % line)
            continue
        if d.get("exit"):
            # at exit compare the finalizer set
            rf = sorted(int(e[1]) for e in h.exit_ev if e[0] == "F")
            if mf != rf:
                mism.append("exit: model finalizes %s, implementation %s" % (mf, rf))
            continue
        exp = {"mem": "%x" % int(d["mem"]), "last": "%x" % int(d["last"]), "n": d["n"], "or": d["or"], "and": d["and"],
               "live": ",".join(d.get("live_hex", []))}
        if mf != d.get("ev_f", []):
            mism.append("after '%s' (op %s): model runs finalizers %s, implementation %s" % (line, d["op"], mf, d.get("ev_f")))
        if mx != d.get("ev_x", []):
            mism.append("after '%s' (op %s): model frees %s, implementation %s" % (line, d["op"], mx, d.get("ev_x")))
        for k, v in exp.items():
            if kv.get(k) != v:
                mism.append("after '%s' (op %s): %s model %s, implementation %s" % (line, d["op"], k, kv.get(k), v))
        if kv.get("err") != "none":
            mism.append("after '%s' (op %s): model stopped with %s, implementation went on" % (line, d["op"], kv.get("err")))
        if mism:
            break
    return mism


# ---------------------------------------------------------------------------- builds
def build_driver(ctx, tag, extra, src=None, name="gcdriver"):
    src = src or HARNESS
    out = os.path.join(ctx.work, name + "-" + tag)
    stamp = out + ".stamp"
    key = vlib.sha_files([src] + vlib.walk_files(os.path.join(vlib.REPO, "lib"), (".nelua",)) +
                         vlib.walk_files(os.path.join(vlib.REPO, "lualib"), (".lua",))) + repr(extra)
    if os.path.exists(out) and os.path.exists(stamp) and vlib.read(stamp) == key:
        return out
    rc, o, e = vlib.nelua_build(src, out, extra=list(extra))
    if rc != 0 or not os.path.exists(out):
        raise RuntimeError("cannot build the GC driver (%s): %s" % (tag, (o + e)[-1500:]))
    with open(stamp, "w") as f:
        f.write(key)
    return out


def run_histories(ctx, binary, model, hists, label):
    """hists: list of (name, ops). Returns list of Hist, model mismatch list."""
    def one(item):
        name, ops = item
        rc, out, err = run_real(binary, ops)
        h = Hist(ops, rc, out, err)
        if not h.hdr:
            # the driver did not even print its header (before the first command): the process could not start or was
            # killed by the time limit on an overloaded machine.  Run it once more; a second failure is reported.
            rc, out, err = run_real(binary, ops)
            h = Hist(ops, rc, out, err)
        h.name = name
        h.exact_roots = label != "asan"
        h.analyse()
        return h
    with concurrent.futures.ThreadPoolExecutor(max_workers=4) as ex:
        res = list(ex.map(one, hists))
    # the model driver runs the histories in batches (its output is large: one state line per command)
    BATCH = 400
    for b in range(0, len(res), BATCH):
        chunk = res[b:b + BATCH]
        script = []
        for h in chunk:
            script.append("reset")
            script += [l for l, _ in h.model_lines]
        rc, mout, merr = vlib.sh([model], input="\n".join(script) + "\n", timeout=3000)
        ml = mout.split("\n")
        if rc != 0:
            raise RuntimeError("model driver failed: %s" % merr[-500:])
        pos = 0
        for h in chunk:
            pos += 1  # reset line
            n = len(h.model_lines)
            h.model_out = ml[pos:pos + n]
            pos += n
            h.mismatch = compare_model(h, h.model_out) if not [p for p in h.problems if p[0] == "harness"] else []
    return res



# ---------------------------------------------------------------------------- coroutine stream (runtime, sampled)
COHARNESS = os.path.join(vlib.VERIF, "harness", ID, "gccodriver.nelua")
NCO = 6
KEY_CODESTROY = "regression[1075c3a]:coroutine-history:c 0;r 0 6 0;r 0 2 0;C;C;r 0 1 0 -> blocks held only by the suspended coroutine's frame are finalized and freed [coroutine.destroy unregisters the coroutine from the GC before minicoro.destroy refuses]"
WITNESS_CODESTROY = ["c 0", "r 0 6 0", "r 0 2 0", "C", "C", "r 0 1 0"]


def gen_coscript(rng, nops):
    ops = []
    st = {}          # k -> "suspended" | "dead" | "gone"
    held = set()     # coroutines main still has a handle to
    for _ in range(nops):
        r = rng.random()
        alive = [k for k in held if st.get(k) == "suspended"]
        if r < 0.15 or not alive:
            free = [k for k in range(NCO) if k not in held]
            if not free:
                continue
            k = rng.choice(free)
            ops.append("c %d" % k)
            st[k] = "suspended"
            held.add(k)
        elif r < 0.70:
            k = rng.choice(alive)
            op = rng.choice([1, 2, 2, 2, 3, 3, 5, 6, 4 if rng.random() < 0.3 else 1])
            a = rng.randrange(NCO)
            if op == 5 and (a == k or a not in alive):
                op = 1
            ops.append("r %d %d %d" % (k, op, a))
            if op == 4:
                st[k] = "dead"
        elif r < 0.76:
            # a resume from the main program that fails (dead or never created coroutine) ...
            dead = [k for k in held if st.get(k) == "dead"] + [k for k in range(NCO) if k not in st]
            if dead and rng.random() < 0.7:
                ops.append("f %d" % rng.choice(dead))
            # ... and blocks referenced only from frames deep in the main stack while a cycle runs
            ops.append("w %d" % rng.choice([0, 1, 3, 8, 20]))
        elif r < 0.88:
            ops.append("C")
        elif r < 0.94:
            k = rng.choice(sorted(held))
            ops.append("d %d" % k)
            held.discard(k)
            st[k] = "gone"
        else:
            k = rng.choice(alive)
            ops.append("x %d" % k)
            held.discard(k)
            st[k] = "gone"
    ops += ["C", "C"]
    return ops


def check_coscript(ops, rc, out, err):
    """Oracle for the coroutine stream; returns (problems, stats)."""
    P = []
    frames = {}       # k -> [id|None]*3 blocks held in coroutine k's frame
    protected = {}    # k -> True while main holds the handle and the coroutine is suspended
    nid = 0
    fin = {}
    freed = {}
    lines = out.split("\n")
    # split output per command on the "=" lines
    chunks, cur, exit_ev, seen_exit = [], [], [], False
    for ln in lines:
        if not ln:
            continue
        if ln.startswith("@ exit"):
            seen_exit = True
        elif seen_exit:
            exit_ev.append(ln.split())
        elif ln.startswith("="):
            chunks.append((cur, ln))
            cur = []
        else:
            cur.append(ln.split())
    stats = {"commands": len(chunks), "blocks": 0, "observations": 0, "collects": 0}
    for idx, op in enumerate(ops):
        if idx >= len(chunks):
            P.append(("abort", "the program stopped with status %s after %d of %d commands: %s" % (rc, len(chunks), len(ops), err.strip()[-200:])))
            break
        ev, summ = chunks[idx]
        w = op.split()
        guarded = set()
        for k, fr in frames.items():
            if protected.get(k):
                guarded |= {i for i in fr if i is not None}
        news = [int(e[1]) for e in ev if e[0] == "N"]
        if w[0] == "c":
            k = int(w[1])
            frames[k] = [news[0] if news else None, news[1] if len(news) > 1 else None, None]
            protected[k] = True
        elif w[0] == "r":
            k, o, a = int(w[1]), int(w[2]), int(w[3])
            if o == 2 and news:
                frames[k][a % 3] = news[0]
            if o == 4:
                protected[k] = False
            if o == 6:
                pass
        elif w[0] == "d" or w[0] == "x":
            protected[int(w[1])] = False
        elif w[0] == "C":
            stats["collects"] += 1
        stats["blocks"] += len(news)
        if " st=1 " in summ:
            P.append(("stacktop-stale", "command %d '%s': gc.stacktop is not zero while the main program runs (the collector would scan the main stack only above a stale address)" % (idx, op)))
        now_guarded = set()
        for k, fr in frames.items():
            if protected.get(k):
                now_guarded |= {i for i in fr if i is not None}
        for e in ev:
            if e[0] == "F":
                i = int(e[1])
                fin[i] = fin.get(i, 0) + 1
                if e[2] != "ok":
                    P.append(("finalizer-after-free", "command %d '%s': finalizer of block %d ran on released memory" % (idx, op, i)))
                if fin[i] > 1:
                    P.append(("finalized-twice", "command %d '%s': finalizer of block %d ran %d times" % (idx, op, i, fin[i])))
                if i in guarded and i in now_guarded:
                    P.append(("coroutine-frame-finalized", "command %d '%s': block %d is held by the frame of a live coroutine and was finalized" % (idx, op, i)))
            elif e[0] == "X":
                i = int(e[1])
                freed[i] = freed.get(i, 0) + 1
                if i in guarded and i in now_guarded:
                    P.append(("coroutine-frame-freed", "command %d '%s': block %d is held by the frame of a live coroutine and was freed" % (idx, op, i)))
            elif e[0] == "O":
                stats["observations"] += 1
                k, i, ok = int(e[1]), int(e[2]), e[3]
                if ok != "ok":
                    who = "a frame deep in the MAIN stack" if k == 99 else "coroutine %d" % k
                    P.append(("coroutine-frame-corrupt", "command %d '%s': %s found a block referenced only from its own locals released or overwritten" % (idx, op, who)))
                elif k != 99 and k in frames and i not in frames[k]:
                    P.append(("coroutine-frame-mixup", "command %d '%s': coroutine %d sees block %d, its frame holds %s" % (idx, op, k, i, frames[k])))
        if P:
            break
    if not P:
        if rc != 0 or not seen_exit:
            P.append(("abort", "the program stopped with status %s: %s" % (rc, err.strip()[-200:])))
        else:
            for e in exit_ev:
                if e[0] == "F":
                    i = int(e[1])
                    fin[i] = fin.get(i, 0) + 1
                    if e[2] != "ok":
                        P.append(("finalizer-after-free", "exit: finalizer of block %d ran on released memory" % i))
            for i in range(stats["blocks"]):
                if fin.get(i, 0) != 1:
                    P.append(("finalize-exactly-once", "block %d: finalizer ran %d times by normal exit" % (i, fin.get(i, 0))))
                    break
    return P, stats


def coroutine_stream(ctx, tag, extra):
    binary = build_driver(ctx, tag, extra, src=COHARNESS, name="gccodriver")
    rng = ctx.rng
    scripts = [gen_coscript(rng, rng.choice([10, 25, 60])) for _ in range(ctx.scale(40, 800))]

    def one(ops):
        rc, out, err = vlib.sh([binary], input="\n".join(ops) + "\n", timeout=120)
        return ops, check_coscript(ops, rc, out, err)
    with concurrent.futures.ThreadPoolExecutor(max_workers=4) as ex:
        res = list(ex.map(one, scripts))
    tot = {"scripts": len(scripts), "commands": 0, "blocks": 0, "observations": 0, "collects": 0, "failures": 0}
    for ops, (P, st) in res:
        for k in ("commands", "blocks", "observations", "collects"):
            tot[k] += st[k]
        if P:
            tot["failures"] += 1
            if tot["failures"] <= 3:
                ctx.violation("coroutine-history:%s:%s" % (tag, ";".join(ops)[:300]), "oracle",
                              "%s build, coroutine stream: %s" % (tag, P[0][1]),
                              detail={"script": ops, "problems": P[:5],
                                      "replay": "nelua -b harness/C10/gccodriver.nelua -o gcco && printf '%s\\n' | ./gcco" % "\\n".join(ops)})
    # repaired in /repo (1075c3a): a refused coroutine.destroy must leave the coroutine registered; regression witness
    ops, (P, st) = one(WITNESS_CODESTROY)
    if P:
        ctx.violation(KEY_CODESTROY, "oracle", "%s build: %s" % (tag, P[0][1]),
                      detail={"script": WITNESS_CODESTROY, "problems": P[:3],
                              "replay": "printf '%s\\n' | ./gccodriver" % "\\n".join(WITNESS_CODESTROY)})
    return tot

KEY_FINALLOC = "regression[2edb035]:history:N(32,finalizer that allocates a block with a finalizer);exit -> the block registered during GC:destroy is never finalized nor freed [GC:destroy sweeps once]"
WITNESS_FINALLOC = ["G 0", "N 0 0 32 0 4"]


def shrink_history(binary, ops, kind, budget=400):
    """Greedy one-command-at-a-time minimisation of a failing history: a candidate is kept when the
    real collector still fails the oracle with the same kind of problem (and the history is still
    well formed for the driver)."""
    best = list(ops)
    runs = 0
    changed = True
    while changed and runs < budget:
        changed = False
        i = len(best) - 1
        while i >= 0 and runs < budget:
            cand = best[:i] + best[i + 1:]
            rc, out, err = run_real(binary, cand, timeout=30)
            runs += 1
            h = Hist(cand, rc, out, err)
            try:
                h.analyse()
            except Exception:
                h.problems = [("harness", "analysis failed")]
            if h.problems and h.problems[0][0] == kind:
                best = cand[:h.completed + 1]
                changed = True
                i = min(i, len(best)) - 1
            else:
                i -= 1
    return best
WITNESS_LEAF = ["G 0", "N 0 0 4 0 0", "R 0 64 0", "N 1 1 32 0 1", "S 0 1 1", "D 1", "C", "C", "L 2 0 1"]
WITNESS_FINROOT = ["G 0", "N 0 0 32 0 1", "R 0 2000 1", "C"]


def correspond(ctx):
    model = vlib.ocaml_build(ID)
    # (tag, compiler flags, fraction of the histories run on this build)
    builds = [("default", [], 1.0)]
    if ctx.thorough:
        builds.append(("release", ["--release"], 1.0))
        builds.append(("asan", ["--cflags=-fsanitize=address -fno-omit-frame-pointer"], 0.125))
    rng = ctx.rng
    nh = ctx.scale(160, 3500)
    hists = []
    corpus_dir = os.path.join(vlib.VERIF, "corpus", ID)
    if os.path.isdir(corpus_dir):
        for f in sorted(os.listdir(corpus_dir)):
            if f.endswith(".txt"):
                ops = [l.strip() for l in vlib.read(os.path.join(corpus_dir, f)).split("\n") if l.strip() and not l.startswith("#")]
                hists.append(("corpus/" + f, ops))
    dist = {"modes": {}, "ops": {}}
    for k in range(nh):
        nops = rng.choice([30, 60, 120, 250]) if not ctx.thorough else rng.choice([30, 60, 120, 250, 600])
        ops, mode = gen_history(rng, nops)
        dist["modes"][mode] = dist["modes"].get(mode, 0) + 1
        for o in ops:
            dist["ops"][o[0]] = dist["ops"].get(o[0], 0) + 1
        ops = with_forced_cycles(ops)
        hists.append(("rand-%d" % k, ops))
    for k in range(ctx.scale(30, 400)):
        ops = gen_burst_history(rng)
        dist["modes"]["burst-inplace-growth"] = dist["modes"].get("burst-inplace-growth", 0) + 1
        for o in ops:
            dist["ops"][o[0]] = dist["ops"].get(o[0], 0) + 1
        ops = with_forced_cycles(ops)
        hists.append(("burst-%d" % k, ops))
    total = {"collect_ops": 0, "objects": 0, "finalized": 0, "freed": 0, "extras": 0, "reach_checks": 0, "max_live": 0,
             "max_alloc_cycle_retention": 0}
    evaluations = 0
    nontrivial = 0
    n_oracle = n_mismatch = 0
    samples = []
    for tag, extra, frac in builds:
        binary = build_driver(ctx, tag, extra)
        sub = hists if frac >= 1.0 else [h for i, h in enumerate(hists) if h[0].startswith("corpus") or i % int(1 / frac) == 0]
        res = run_histories(ctx, binary, model, sub, tag)
        for h in res:
            evaluations += h.completed
            for k in total:
                total[k] = max(total[k], h.stats.get(k, 0)) if k.startswith("max_") else total[k] + h.stats[k]
            if h.stats["freed"] > 0 and h.stats["objects"] > 3:
                nontrivial += 1
            if len(samples) < 4 and h.name.startswith("rand"):
                samples.append("%s/%s: %s ..." % (tag, h.name, "; ".join(h.ops[:8])))
            if h.problems:
                n_oracle += 1
                if n_oracle <= 4:
                    kind, text = h.problems[0]
                    small = h.ops[:h.completed + 1]
                    if kind not in ("harness", "garbage-retained-at-allocation-cycle"):
                        try:
                            small = shrink_history(binary, small, kind)
                        except Exception as ex:
                            ctx.note("shrinking failed: %s" % ex)
                    path = os.path.join(ctx.work, "fail-%s-%s.txt" % (tag, h.name.replace("/", "_")))
                    with open(path, "w") as f:
                        f.write("\n".join(small) + "\n")
                    ctx.violation("history:%s:%s:%s" % (tag, h.name, kind), "oracle",
                                  "%s build, history %s: %s" % (tag, h.name, text),
                                  detail={"history": small, "unshrunk_length": h.completed + 1, "problems": h.problems[:5], "history_file": path,
                                          "replay": "nelua -b harness/C10/gcdriver.nelua -o gcd && ./gcd < %s" % path})
            elif h.mismatch:
                n_mismatch += 1
                if n_mismatch <= 3:
                    ctx.violation("model-mismatch:gc-history", "correspondence",
                                  "%s build, history %s: model of gc.nelua no longer corresponds to the code: %s (the property oracle passed on this history)" % (tag, h.name, h.mismatch[0]),
                                  detail={"history": h.ops, "mismatch": h.mismatch[:5], "no_longer_checks": "correspondence stream C10/gc-history"},
                                  failing_input=False)
        # ---- witnesses of defects repaired in /repo (fe9bb7e, 9c3dee4) and of the one still open: replayed every run
        wres = run_histories(ctx, binary, model, [("witness-leaf", WITNESS_LEAF), ("witness-finroot", WITNESS_FINROOT),
                                                   ("witness-finalloc", WITNESS_FINALLOC)], tag)
        hl, hf, ha = wres
        for hw in (hl, hf):
            if not hw.problems and hw.mismatch:
                ctx.violation("model-mismatch:witness:%s" % hw.name, "correspondence",
                              "%s build, %s: %s" % (tag, hw.name, hw.mismatch[0]),
                              detail={"history": hw.ops, "mismatch": hw.mismatch[:5]}, failing_input=False)
        if ha.problems:
            ctx.violation(KEY_FINALLOC, "oracle", "%s build: %s" % (tag, ha.problems[0][1]),
                          detail={"history": WITNESS_FINALLOC, "problems": ha.problems[:3], "outside_the_coq_model": True,
                                  "replay": "printf '%s\\n' | ./gcdriver" % "\\n".join(WITNESS_FINALLOC)})
        if hl.problems:
            ctx.violation(KEY_LEAF, "oracle", "%s build: %s" % (tag, hl.problems[0][1]),
                          detail={"history": WITNESS_LEAF, "problems": hl.problems[:3],
                                  "model_agrees": not hl.mismatch,
                                  "replay": "printf '%s\\n' | ./gcdriver" % "\\n".join(WITNESS_LEAF)})
        if hf.problems:
            ctx.violation(KEY_FINROOT, "oracle", "%s build: %s" % (tag, hf.problems[0][1]),
                          detail={"history": WITNESS_FINROOT, "problems": hf.problems[:3],
                                  "model_last_line": hf.model_out[-1:] if hf.model_out else None,
                                  "replay": "printf '%s\\n' | ./gcdriver" % "\\n".join(WITNESS_FINROOT)})
    costats = {}
    for tag, extra, frac in builds:
        if tag == "asan":
            continue   # the stack switch needs sanitizer fiber annotations the library only has for its own frames
        costats[tag] = coroutine_stream(ctx, tag, extra)
        evaluations += costats[tag]["commands"]
    if "release" not in costats:   # quick: the coroutine stream is cheap, run it on the optimised build as well
        costats["release"] = coroutine_stream(ctx, "release", ["--release"])
        evaluations += costats["release"]["commands"]
    return {
        "coroutine_stream_runtime_sampled": costats,
        "evaluations": evaluations,
        "distinct_nontrivial": nontrivial,
        "rule": "one evaluation = one mutator command executed on the real collector, compared with the model and checked by the oracle; non-trivial = histories with more than 3 objects in which the collector freed at least one block",
        "samples": samples,
        "distribution": {"histories": len(hists), "builds": [b[0] for b in builds], **dist, **total},
        "oracle_failures": n_oracle,
        "model_mismatches": n_mismatch,
        "unproved": list(UNPROVED),
        "traces_validated_against_impl": int(sum(len(hists) * b[2] for b in builds)),
    }
