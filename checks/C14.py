"""C14 - numbers survive every text <-> binary conversion without unintended loss.

(T) harness/C14/c14gen.py scrapes typedefs.lua (integral types, literal suffix table), the big-number
    width, the todecsci digit ladder, int2str's buffer, print's formats into coq/C14/Gen.v.
(C) compiler half: harness/C14/ops.lua calls the real bn.from / visitors.Number / CEmitter:add_scalar_literal /
    bn.todecsci under the interpreter rebuilt from /repo/src; the extracted model (coq/C14/driver) runs the
    same cases; run-time half: harness/C14/driver.nelua (tostring/tointeger/tonumber/string.format/print)
    compiled by the real compiler; end-to-end: generated probe programs whose literals are printed by the
    compiled program and located in the generated C.
    Property oracle: exact integers / correctly rounded binary64 and binary32 computed with Python
    integers and fractions, ISO C11 6.4.4.1 typing of the emitted constant."""
import os
import re
import struct
import sys
from fractions import Fraction
from decimal import Decimal

import vlib

sys.path.insert(0, os.path.join(vlib.VERIF, "harness", "C14"))
import c14gen  # noqa: E402
import str2num_model  # noqa: E402

ID = "C14"
ALLOWED_AXIOMS = []
TRUSTED_BASE = [
    "coqc 8.16.1 kernel (vm_compute for finite type tables; no native_compute)",
    "no axioms: every theorem of coq/C14/Properties.v is 'Closed under the global context' (the float theorems are stated inside a Section whose hypotheses appear as premises of the closed theorems)",
    "CROSS-PROPERTY DEPENDENCY: coq/C14/ProofsBn.v imports sub-project coq/C17 (owner: property C17) through '-Q ../C17 C17' in coq/C14/_CoqProject - its Model/Model2/Model3/ProofsText/Properties (C17_literal_exact); checks/C14.py builds coq/C17 before coq/C14 (vlib.coq_build('C17')); in a scratch-repository run the copied coq/C17/Gen.v is the one generated from the live /repo (C14 does not run C17's translator), the agreement BN_BITS = BINT_BITS is re-proved by reflexivity on every build",
    "translator harness/C14/c14gen.py (regex scrape of typedefs.lua, bn.lua, strconv.nelua, string.nelua, cbuiltins.lua; LP64 widths assumed and re-checked against the compiler's primtypes on every run)",
    "C semantics of integer constants: coq/C14/Model.v c_candidates/c_const_type/c_eval transcribe ISO C11 6.4.4.1 and 6.5.3.3 (the Python oracle c_eval_text is a second transcription by the same author); conversion to the target type is modular (gcc/clang)",
    "extraction: Require Extraction + ExtrOcamlBasic only; ocaml/zutil.ml + coq/C14/driver.ml; OCaml 4.13.1",
    "harness/C14/ops.lua (fake emitter context around the real CEmitter), harness/C14/driver.nelua, harness/C14/numeral_oracle.lua (Lua's own tonumber as the oracle of the malformed-numeral stream), probe program generator in checks/C14.py, gcc; Python fractions as the correctly-rounded reference",
    "harness/C14/str2num_model.py: an executable (Python, exact rationals) model of strconv.str2num's decimal branch in x87 extended precision, compared bit for bit with the compiled library on every decimal tonumber case of the normal range; it is what decides that a not-correctly-rounded result is the known double-rounding defect",
    "modelled rather than verified: bn.lua (through C17), analyzer.lua visitors.Number, cemitter.lua add_scalar_literal, strconv.nelua int2str/str2int mirrored by hand in coq/C14/Model.v; strconv.num2str and the C compiler's strtod are NOT modelled: oracle only",
]
ASSUMPTIONS = [
    "LP64: int 32 bits, long and long long 64 bits (C_INT_BITS / C_LONG_BITS / C_LLONG_BITS in Gen.v); x86-64 long double = x87 extended (64-bit significand) for the str2num model",
    "float side, assumed and not proved (hypotheses of C14_todecsci_reads_back_partial): on the finite binary64 values, printing with 17 significant digits and reading the text back gives a number == to the original (Lua's ==: the two zeros are identified); that the code's test tonumber(s) ~= v decides that ==",
    "the host printf('%.Ng') and strtod used by the interpreter and by gcc are correctly rounded",
    "correspondence is differential testing, not a proof that model = code",
]
THEOREM_CLASSES = {
    # arithmetic facts about the three-line recurrence (hold for any digit list, valid or not)
    "C14_reader_value_mod": "definitional", "C14_reader_eq_lua_mod64": "definitional",
    "C14_reader_exact_partial": "corollary", "C14_reader_dec_complete": "corollary", "C14_reader_dec_float": "corollary",
    "C14_reader_is_bn_from": "main",
    "C14_literal_roundtrip_partial": "main",
    "C14_int2str_str2int_roundtrip": "main",
    "C14_str2int_sound": "main", "C14_str2int_complete": "main", "C14_str2int_shape_separates": "corollary",
    "C14_todecsci_reads_back_partial": "main", "C14_todecsci_first_partial": "main",
    "C14_emit_inf_guard": "tripwire", "C14_emit_f32_rounded_first": "tripwire",
    "C14_emit_f32_block_iff_policy": "tripwire", "C14_emit_f32_block_correct": "corollary",
    "C14_print_dot0_eq_lua": "main", "C14_force_fract_not_int_like": "main",
}
MANIFEST_ENTRY = {
    "text": "proof, partial: theorems for the INTEGER half only - the literal reader (a recurrence in wrapped big-number arithmetic, "
            "shown equal to C17's verified limb-level model of bn.lua on valid digit strings, decimal overflow handed to the float "
            "reader), the C literal printer against ISO C11 6.4.4.1 for every integral type up to 64 bits (128-bit types excluded), the "
            "int2str/str2int round trip for int64 base 10, the shape and value of every string str2int accepts, the "
            "'.0' rules of print and of emitted float literals, and the decision ladder of bn.todecsci with the 17-digit fact as a "
            "PREMISE; every FLOAT clause (correct rounding of decimal and hexadecimal float literals, run-time tonumber / tostring / "
            "%.14g, float32, the 17-digit round trip itself) rests on differential testing against exact rational arithmetic only",
    "note": "imports sub-project coq/C17 (C17_literal_exact) via -Q ../C17 C17; LP64 and x87 long double assumed; Lua's own tonumber is "
            "the oracle of the malformed-numeral stream; harness/C14/str2num_model.py is an executable model of the defective "
            "str2num algorithm used to tell the known double rounding from any other divergence",
    "technique": "machine-checked proof in Coq over executable models + extracted-model / compiler / compiled-library correspondence "
                 "with exact-arithmetic oracles",
}
UNPROVED = [
    "float literals at the rounding boundaries of binary32 / binary64 (largest finite, the overflow threshold max + half ulp, smallest normal and subnormal, half the smallest subnormal; decimal and hexadecimal spellings, both signs; routes: type suffix, typed local, float64 compile-time constant converted) are sampled on every run and compared bit for bit with the correctly rounded value of the type computed in exact rational arithmetic - testing, no theorem; the only proved facts about the float printer are the scraped trip-wires C14_emit_inf_guard and C14_emit_f32_rounded_first (the float32 constant is rounded to float32, overflow threshold FLT_MAX + half ulp, before its 9 digits are printed)",
    "DOCUMENTED LIMITATION, not a finding: a float32 literal is a binary64 at compile time, so a literal with more than 17 significant digits whose double is exactly a float32 tie is rounded twice by construction (counted per run under 'documented:float32-literal-is-binary64-at-compile-time'); integer literals above the int64 range without a suffix (print(0x8000000000000000), print(0xffffffffffffffff)) are REJECTED with a diagnostic where Lua wraps them - stricter than Lua, never a silently different value; cdefs.lua derives ldbl_decimal_dig from __DBL_DECIMAL_DIG__ (17): harmless for literals, whose compile-time value is a binary64 anyway",
    "every float clause: correctly rounded reading of decimal float literals (fraction, exponent, suffix) and of hexadecimal float literals (from(16,2,int,frac,exp) is now only a fall-back behind Lua's tonumber), float emission, run-time tonumber / tostring / print of floats: oracle only (Python Fractions); the planned verified 'nearest_ok' checker (Flocq) and 'hexfloat_exact' do not exist - Flocq 4.1.0 is installed but a decimal->binary64 checker needs the half-ulp argument or Fdiv_core + binary_round_aux, not attempted",
    "strconv.str2num: NOT correctly rounded (known finding); its algorithm is modelled only executably (harness/C14/str2num_model.py, bit-exact against the library on the normal range), with no theorem; strconv.num2str: oracle only",
    "'17 digits and back is the identity' is a PREMISE of C14_todecsci_reads_back_partial, not a theorem; the exponent clean-up gsub('([Ee][+-])0+','%1') and the forced '.0' applied after the ladder are not covered by it (C14_force_fract_not_int_like covers the shape of the '.0' only); the float32 ladder (decimaldigits < 16, 9 digits) is not modelled",
    "printing integers: only the int64 base-10 round trip through the model's own str2int is proved (it would also hold for a printer of x + 2^64); no theorem that the digits are the decimal expansion, none for uint2str, other bases, or print's cast chain %lli / %llu for the narrower types (tested)",
    "literal typing (nl_literal_type mirrors visitors.Number): no theorem, tested against the real analyzer; no end-to-end theorem composing read, type, emit and c_eval; C14_literal_roundtrip_partial excludes int128 / uint128 and assumes LP64",
    "str2int: prefix handling and wrap-around are modelled and tested, C14_str2int_sound and C14_str2int_complete characterise exactly what is accepted and with which value (numeral_shape); that this shape is Lua's own (l_str2int / luaB_tonumber) is not a theorem - the 620-case numeral stream with Lua's tonumber as oracle covers it; the '0b' prefix is a documented extension; decimal strings beyond int64 wrap where Lua gives a float: tested, documented, no theorem",
    "C14_reader_value_mod / _eq_lua_mod64 are identities of modular arithmetic (classified definitional); Lua's own reader is not modelled - 'the value Lua's reader assigns' is the comment 'wrap64 of the mathematical value' checked by the read stream against Python integers",
    "hard-coded in Model.v although it comes from the source: PRINT_BUF (sizeof(buff) in cbuiltins), the default literal type int64, the suffix table (scraped to Python only), the control flow of add_scalar_literal; the type of the emitted C constant is never probed with a C compiler (_Generic), only its value",
]

MININT = -2**63
MAXINT = 2**63 - 1


def gen(ctx):
    txt, info = c14gen.generate(vlib.repo_read)
    vlib.write_if_changed(os.path.join(vlib.coq_dir(ID), "Gen.v"), txt)
    # coq/C14/ProofsBn.v imports sub-project C17 (-Q ../C17 C17 in _CoqProject): its compiled files must exist next to
    # coq/C14 in the build root in use (vlib.coq_dir copies them for a scratch-repository run; a no-op when up to date)
    ok, log = vlib.coq_build("C17")
    if not ok:
        raise RuntimeError("cannot build coq/C17, which coq/C14/ProofsBn.v imports: " + log[-800:])
    # a rebuilt C17 invalidates what was compiled against it (make does not always see it across sub-projects)
    d14, d17 = vlib.coq_dir(ID), vlib.coq_dir("C17")
    mine = [os.path.join(d14, f) for f in ("ProofsBn.vo", "Properties.vo")]
    newest17 = max([os.path.getmtime(os.path.join(d17, f)) for f in os.listdir(d17) if f.endswith(".vo")] or [0])
    for f in mine:
        if os.path.exists(f) and os.path.getmtime(f) < newest17:
            for g in (f, f[:-3] + ".vos", f[:-3] + ".vok", f[:-3] + ".glob"):
                try:
                    os.remove(g)
                except OSError:
                    pass
    ctx.c14info = info
    slim = dict(info)
    slim.pop("suffix_table", None)
    return slim


# --------------------------------------------------------------------------------------------
# references
# --------------------------------------------------------------------------------------------

def wrap_T(bits, signed, v):
    v %= 1 << bits
    if signed and v >= 1 << (bits - 1):
        v -= 1 << bits
    return v


def tmin(bits, signed):
    return -(1 << (bits - 1)) if signed else 0


def tmax(bits, signed):
    return (1 << (bits - 1)) - 1 if signed else (1 << bits) - 1


CW = {"int": 32, "long": 64, "llong": 64}


def c_eval_text(text):
    """ISO C11 typing and value of the emitted token `[(][-](0xHEX|DEC)[U][L|LL][-1)]`.
    -> (bits, signed, value) or None when the constant has no type / signed overflow."""
    m = re.match(r"^(\()?(-)?(0x[0-9a-f]+|[0-9]+)(U)?(LL|L)?(-1\))?$", text)
    if not m:
        raise ValueError("unexpected literal syntax: %r" % text)
    paren, neg, body, u, l, tail = m.groups()
    if bool(paren) != bool(tail):
        raise ValueError("unbalanced literal: %r" % text)
    hexa = body.startswith("0x")
    mag = int(body, 16) if hexa else int(body)
    I, L, LL = CW["int"], CW["long"], CW["llong"]
    if not u:
        if not l: cands = [(I, True), (I, False), (L, True), (L, False), (LL, True), (LL, False)] if hexa else [(I, True), (L, True), (LL, True)]
        elif l == "L": cands = [(L, True), (L, False), (LL, True), (LL, False)] if hexa else [(L, True), (LL, True)]
        else: cands = [(LL, True), (LL, False)] if hexa else [(LL, True)]
    else:
        cands = [(I, False), (L, False), (LL, False)] if not l else [(L, False), (LL, False)] if l == "L" else [(LL, False)]
    ty = None
    for b, s in cands:
        if mag <= tmax(b, s):
            ty = (b, s)
            break
    if ty is None:
        return None
    b, s = ty
    v = mag
    if neg:
        v = -mag if s else (-mag) % (1 << b)
    if paren:
        if s:
            if v - 1 < tmin(b, s):
                return None
            v -= 1
        else:
            v = (v - 1) % (1 << b)
    return b, s, v


def round_binary(fr, pbits, emin, emax):
    """correctly rounded (nearest-even) value of a Fraction in a binary format; returns a Fraction
    (overflow -> None)."""
    if fr == 0:
        return Fraction(0)
    sign = -1 if fr < 0 else 1
    fr = abs(fr)
    # exponent e with 2^e <= fr < 2^(e+1)
    e = fr.numerator.bit_length() - fr.denominator.bit_length()
    if Fraction(2) ** e > fr:
        e -= 1
    if Fraction(2) ** (e + 1) <= fr:
        e += 1
    e = max(e, emin)
    q = Fraction(2) ** (e - (pbits - 1))       # ulp
    n = fr / q
    k = n.numerator // n.denominator
    rem = n - k
    if rem > Fraction(1, 2) or (rem == Fraction(1, 2) and k % 2 == 1):
        k += 1
    r = k * q
    if r >= Fraction(2) ** (emax + 1):
        return None
    return sign * r


def f64_bits(x):
    return struct.unpack("<Q", struct.pack("<d", x))[0]


def f64_from_bits(b):
    return struct.unpack("<d", struct.pack("<Q", b))[0]


def dec_text_to_fraction(s):
    m = re.match(r"^([+-])?(\d*)(?:\.(\d*))?(?:[eE]([+-]?\d+))?$", s)
    if not m or (not m.group(2) and not m.group(3)):
        return None
    sign, ip, fp, ex = m.groups()
    fp = fp or ""
    n = int((ip or "0") + fp) if (ip or fp) else 0
    fr = Fraction(n, 10 ** len(fp)) * Fraction(10) ** int(ex or 0)
    return -fr if sign == "-" else fr


def F(v):
    return "f%016x" % f64_bits(v)


def X(s):
    return "x" + s.encode("latin1").hex()


# --------------------------------------------------------------------------------------------
# case generation
# --------------------------------------------------------------------------------------------

def spell(v, base, rng):
    """a source spelling of the non-negative integer v"""
    if base == 16:
        s = "%x" % v
        if rng.random() < .3: s = s.upper()
        return ("0X" if rng.random() < .1 else "0x") + ("0" * rng.choice([0, 0, 1, 3])) + s
    if base == 2:
        return "0b" + ("0" * rng.choice([0, 0, 2])) + bin(v)[2:]
    return ("0" * rng.choice([0, 0, 0, 1])) + str(v)


def int_lattice(bits):
    L = {0, 1, 2, 7, 10}
    for k in (7, 8, 15, 16, 31, 32, 53, 63, 64, 65, 127, 128, 159):
        if k <= bits + 1:
            L |= {2**k - 1, 2**k, 2**k + 1}
    return sorted(L)


FLOAT_SPECIALS = [0.0, 1.0, 0.1, 0.5, 1.1, 2.5, 1e22, 1e23, 9007199254740993.0, 5e-324, 2.2250738585072014e-308, 2.225073858507201e-308,
                  1.7976931348623157e308, 123456789012345680.0, 0.3, 1 / 3, 2 / 3, 1e-7, 1e-5, 1e15, 1e16, 1e17, 4.35, 0.000001, 8.41e21,
                  2.0**63, 2.0**53, 2.0**-1074 * 3, 1.0000000000000002, 0.9999999999999999, 5e-5, 100.0, 1e100, 1e-100, 3.141592653589793,
                  9.5367431640625e-07, 1.4012984643248171e-45, 3.4028234663852886e38, 1.17549435e-38, 16777216.0, 16777217.0, 0.1 + 0.2]


def rand_float(rng):
    r = rng.random()
    if r < .3:
        return rng.choice(FLOAT_SPECIALS) * rng.choice([1, -1])
    if r < .6:
        return f64_from_bits((rng.getrandbits(1) << 63) | (rng.randrange(1, 2046) << 52) | rng.getrandbits(52))
    if r < .7:
        return f64_from_bits((rng.getrandbits(1) << 63) | rng.getrandbits(52))        # subnormal
    if r < .85:
        return float("%d.%de%d" % (rng.randrange(10), rng.randrange(10**16), rng.randrange(-300, 300)))
    return float(rng.randrange(-10**6, 10**6)) / rng.choice([1, 2, 4, 10, 100, 1000])


def correspond(ctx):
    rng = ctx.rng
    info = getattr(ctx, "c14info", None) or c14gen.generate(vlib.repo_read)[1]
    types = info["int_types"]           # name -> [bits, signed, longkind]
    aliases = info["aliases"]
    tids = info["type_ids"]
    suffixes = info["suffix_table"]     # suffix -> type name

    def tinfo(name):
        return types[aliases.get(name, name)]

    model = vlib.ocaml_build(ID)
    interp = vlib.ensure_interp()
    opslua = os.path.join(vlib.VERIF, "harness", ID, "ops.lua")
    problems = {"oracle": 0, "model": 0}
    dist = {}
    samples = []
    nontrivial = set()
    evals = 0

    allv = []

    capped = {"oracle": 0, "model": 0}

    def viol(key, summary, detail, failing=True, kind="oracle"):
        allv.append("%s | %s" % (key, summary[:200]))
        problems["oracle" if failing else "model"] += 1
        if key in STR2NUM_WITNESSES or key in STR2INT_WITNESSES:
            ctx.violation(key, kind, summary, detail=detail, failing_input=failing)      # designated witnesses: always reported
            return
        capped["oracle" if failing else "model"] += 1
        if capped["oracle" if failing else "model"] <= 8:
            ctx.violation(key, kind, summary, detail=detail, failing_input=failing)

    # ---------------------------------------------------------------- 0. platform table (LP64 tie)
    names = sorted(tids, key=lambda n: tids[n])
    rc, out, err = vlib.run_lua(opslua, input="\n".join("typeinfo " + n for n in names) + "\n", interp=interp)
    got = out.split("\n")
    for n, g in zip(names, got):
        b, sg, lk = tinfo(n)
        want = "%d %s %d" % (b, "true" if sg else "false", lk)
        if g != want:
            viol("typeinfo:" + n, "the compiler's primtypes.%s is '%s' but the translator derived '%s' (LP64 table of harness/C14/c14gen.py)" % (n, g, want),
                 {"type": n, "compiler": g, "translator": want}, failing=False, kind="correspondence")
    evals += len(names)

    # ---------------------------------------------------------------- 1. compiler half: read / type / emit
    impl_lines, model_lines, meta = [], [], []

    def add(stream, impl, mod, m):
        impl_lines.append(impl); model_lines.append(mod); meta.append((stream, m))
        dist[stream] = dist.get(stream, 0) + 1

    corpus = []
    cp = os.path.join(vlib.VERIF, "corpus", ID, "cases.txt")
    if os.path.exists(cp):
        corpus = [l.strip() for l in vlib.read(cp).split("\n") if l.strip() and not l.startswith("#")]
    WITNESS_READ = "1461501637330902918203684832716283019655932542976"      # 2^160 in decimal
    # (a) reader, integer spellings
    vals = set(int_lattice(160)) | {2**160, 2**160 + 1, 2**159, 2**159 - 1, 2**161 + 5, 10**48, 10**49}
    for _ in range(ctx.scale(300, 4000)):
        vals.add(rng.getrandbits(rng.choice([8, 16, 31, 32, 53, 63, 64, 65, 100, 128, 158])))
    add("read", "read " + WITNESS_READ, "read 10 " + WITNESS_READ, ("read", 2**160, 10, WITNESS_READ))
    for v in sorted(vals):
        for base in (10, 16, 2):
            s = spell(v, base, rng)
            digits = re.sub(r"^0[xXbB]", "", s)
            add("read", "read " + s, "read %d %s" % (base, digits), ("read", v, base, s))
    # (b) reader, float spellings (oracle only)
    add("read-float", "read " + WITNESS_HEXEXP, "?", ("readf", Fraction(1, 2 ** 1030), WITNESS_HEXEXP))
    add("read-float", "read " + WITNESS_HEXFLOAT, "?", ("readf", Fraction(float.fromhex("0x1.4b7726200377363c577p-8").hex() and int("14b7726200377363c577", 16), 16 ** 19) * Fraction(1, 2 ** 8), WITNESS_HEXFLOAT))
    for _ in range(ctx.scale(300, 4000)):
        x = abs(rand_float(rng))
        r = rng.random()
        if r < .5:
            s = repr(x)
            if "e" not in s and "." not in s: s += ".0"
            fr = dec_text_to_fraction(s)
        elif r < .75:
            s = "%.*e" % (rng.randrange(0, 25), x)
            fr = dec_text_to_fraction(s)
        else:
            nd = rng.randrange(1, 20)
            ip, fp = rng.getrandbits(rng.choice([1, 4, 30, 60])), rng.getrandbits(4 * nd)
            ex = rng.randrange(-1080, 1000) if rng.random() < .5 else rng.randrange(-10, 10)
            s = "0x%x.%0*xp%d" % (ip, nd, fp, ex)
            fr = (Fraction(ip) + Fraction(fp, 16 ** nd)) * Fraction(2) ** ex
        add("read-float", "read " + s, "?", ("readf", fr, s))
    # (c) typing
    sfx_int = [k for k, t in suffixes.items() if aliases.get(t, t) in types]
    for _ in range(ctx.scale(1500, 20000)):
        sfx = rng.choice(sfx_int + ["-"] * 8) if rng.random() < .6 else "-"
        des = rng.choice(names + ["-"] * 6) if sfx == "-" else "-"
        base = rng.choice([10, 10, 16, 2])
        if sfx != "-":
            b, sg, _ = tinfo(suffixes[sfx])
            v = rng.choice([tmax(b, sg), tmax(b, sg) + 1, tmax(b, sg) - 1, 0, 1, rng.randrange(0, tmax(b, sg) + 2), 2**b, 2**(b - 1)])
        else:
            v = rng.choice(int_lattice(160) + [rng.getrandbits(rng.choice([7, 31, 63, 64, 65, 100]))])
        s = spell(v, base, rng)
        add("type", "type %s %s %s" % (s, sfx, des),
            "type %d %d %s %s" % (v, base, tids[suffixes[sfx]] if sfx != "-" else "-", tids[des] if des != "-" else "-"),
            ("type", v, base, sfx, des))
    # (d) emission: every type x lattice around its limits and beyond (folded values may be out of range)
    add("emit", EMIT_WITNESS, "emit %d 18446744073709551621 16" % tids["int64"], ("emit", "int64", 2**64 + 5, 16))
    for n in names:
        b, sg, lk = tinfo(n)
        L = {0, 1, -1, 2, tmax(b, sg), tmax(b, sg) - 1, tmax(b, sg) + 1, tmin(b, sg), tmin(b, sg) + 1, tmin(b, sg) - 1,
             2**31 - 1, 2**31, -2**31, -2**31 - 1, -2**31 + 1, 2**32 - 1, 2**32, 2**63 - 1, 2**63, -2**63, -2**63 + 1, -2**63 - 1, 2**64 - 1, 2**64, 2**64 + 5,
             2**b, 2**b + 1, 2**(b + 1) + 3, -(2**b), -(2**b) - 1, 3 * 2**b + 7, -(2**(b + 1)) - 9, 2**128, -2**128, 2**158, -2**158}
        for _ in range(ctx.scale(6, 60)):
            L.add(rng.randrange(tmin(b, sg), tmax(b, sg) + 1))
            L.add(rng.randrange(-2**(b + 2), 2**(b + 2)))
        for v in sorted(L):
            for base in ((0, 10, 16) if ctx.thorough else (rng.choice([0, 10, 16, 2]), rng.choice([0, 10, 16]))):
                add("emit", "emit %s %d %d" % (n, v, base), "emit %d %d %d" % (tids[n], v, base), ("emit", n, v, base))
    # (e) float literal printer
    fvals = [x * s for x in FLOAT_SPECIALS for s in (1, -1)] + [rand_float(rng) for _ in range(ctx.scale(1500, 40000))]
    for x in fvals:
        if x != x or x in (float("inf"), -float("inf")):
            continue
        add("emitf", "emitf float64 %016x" % f64_bits(x), "?", ("emitf", 64, x))
        x32 = struct.unpack("<f", struct.pack("<f", max(min(x, 3.4e38), -3.4e38)))[0]
        add("emitf", "emitf float32 %016x" % f64_bits(x32), "?", ("emitf", 32, x32))
    # float32 constants whose compile-time value is a double that is NOT a float32 value (a float32 literal is read as a double,
    # a float64 constant may be converted): the doubles next to every float32 rounding boundary, and random float32 ties +- a bit
    bdoubles = set()
    for text, fr in boundary_literals(32):
        dd = rnd_w(64, fr)
        if dd is not None:
            bdoubles.add(float(dd))
    for _ in range(ctx.scale(200, 3000)):
        f32 = struct.unpack("<f", struct.pack("<I", rng.randrange(0x00800000, 0x7f7fffff)))[0]
        nxt = struct.unpack("<f", struct.pack("<I", struct.unpack("<I", struct.pack("<f", f32))[0] + 1))[0]
        tie = (f32 + nxt) / 2                                   # exact in double
        bdoubles.add(tie)
        bdoubles.add(f64_from_bits(f64_bits(tie) + rng.choice([1, 2, 1 << 20])))
        bdoubles.add(f64_from_bits(f64_bits(tie) - rng.choice([1, 2, 1 << 20])))
    bdoubles.add(16777217.000001)
    for x in sorted(bdoubles):
        for sg in (1, -1):
            add("emitf-boundary", "emitf float32 %016x" % f64_bits(sg * x), "?", ("emitf", 32, sg * x))
    for line in corpus:
        w = line.split()
        if w[0] == "emit" and w[1] in tids:
            add("corpus", line, "emit %d %s %s" % (tids[w[1]], w[2], w[3]), ("emit", w[1], int(w[2]), int(w[3])))

    rc1, iout, ierr = vlib.run_lua(opslua, input="\n".join(impl_lines) + "\n", interp=interp, timeout=3000)
    rc2, mout, merr = vlib.sh([model], input="\n".join(model_lines) + "\n", timeout=3000)
    il, ml = iout.split("\n"), mout.split("\n")
    if rc1 != 0 or rc2 != 0 or len(il) < len(impl_lines) or len(ml) < len(model_lines):
        raise RuntimeError("compiler-half harness failed: lua rc=%s model rc=%s %s %s" % (rc1, rc2, ierr[-400:], merr[-400:]))
    evals += len(impl_lines)
    samples += impl_lines[:2] + impl_lines[len(impl_lines) // 2: len(impl_lines) // 2 + 2]
    for line, mline, (stream, m), got, mod in zip(impl_lines, model_lines, meta, il, ml):
        kind = m[0]
        if kind == "read":
            _, v, base, s = m
            if base == 10 and v >= 2**159:
                # like Lua: a decimal integer literal too large for an integer is the correctly rounded float
                r = round_binary(Fraction(v), 53, -1022, 1023)
                want = None if r is None else "%016x %d" % (f64_bits(float(r)), base)
                mm = re.match(r"^float:\S+:([0-9a-f]{16}) (\d+)$", got)
                gotn = None if not mm else "%s %s" % (mm.group(1), mm.group(2))
                modwant = "float"
            else:
                want = "%d %d" % (wrap_T(160, True, v) if base != 10 else v, base)
                gotn = got
                modwant = got.split(" ")[0]
            if want is not None and gotn != want:
                viol(line, "literal reader: %s reads as %s, expected %s" % (s, got, want), {"case": line, "implementation": got, "oracle": want, "model": mod})
            elif mod != modwant:
                viol("model-mismatch:read", "model of the literal reader differs on %s: model %s, implementation %s" % (line, mod, got),
                     {"case": line, "model": mod, "implementation": got, "no_longer_checks": "correspondence stream C14/read"}, failing=False, kind="correspondence")
            elif v > 255:
                nontrivial.add(line)
        elif kind == "readf":
            _, fr, s = m
            r = round_binary(fr, 53, -1022, 1023)
            mm = re.match(r"^float:\S+:([0-9a-f]{16}) (\d+)$", got)
            if r is None:
                continue
            want = f64_bits(float(r))
            if not mm or int(mm.group(1), 16) != want:
                viol(line, "float literal reader: %s reads as %s, the correctly rounded binary64 is %016x" % (s, got, want),
                     {"case": line, "implementation": got, "oracle": "%016x" % want})
            else:
                nontrivial.add(line)
        elif kind == "type":
            _, v, base, sfx, des = m
            # property oracle: an accepted integer literal keeps its mathematical value and lies in the range of its type
            if got.startswith("int "):
                _, tname, val = got.split(" ")
                b, sg, lk = tinfo(tname)
                inr = tmin(b, sg) <= v <= tmax(b, sg) or (base != 10 and sfx == "-")
                vexp = wrap_T(160, True, v) if base != 10 else v      # hex/binary spellings wrap modulo 2^160 (and, once accepted, agree with Lua modulo 2^64)
                if int(val) != vexp or (not inr and base == 10):
                    viol(line, "literal typing: value %d typed %s with value %s" % (v, tname, val), {"case": line, "implementation": got})
                modwant = "int %d %s %d" % (b, "true" if sg else "false", lk)
            elif got.startswith("float "):
                modwant = "float"
                if base == 10 and v >= 2**159 and mod == "float":
                    pass
                if base == 10 and MININT <= v <= MAXINT and sfx == "-" and des == "-":
                    viol(line, "literal typing: integer literal %d in int64 range became a float" % v, {"case": line, "implementation": got})
            else:
                modwant = got
            if mod != modwant:
                viol("model-mismatch:type", "model of visitors.Number differs on '%s': model %s, implementation %s" % (line, mod, got),
                     {"case": line, "model": mod, "implementation": got, "no_longer_checks": "correspondence stream C14/type"}, failing=False, kind="correspondence")
            else:
                nontrivial.add(line)
        elif kind == "emit":
            _, n, v, base = m
            b, sg, lk = tinfo(n)
            try:
                ce = c_eval_text(got)
            except ValueError as ex:
                viol(line, "emitted literal has unexpected syntax: %s" % got, {"case": line, "implementation": got})
                continue
            want = wrap_T(b, sg, v)
            if b <= 64:
                if ce is None:
                    bad = "has no C type (ISO C11 6.4.4.1: too large for its candidate types)"
                elif wrap_T(b, sg, ce[2]) != want:
                    bad = "denotes %d, which converts to %d" % (ce[2], wrap_T(b, sg, ce[2]))
                elif ce[1] != sg:
                    bad = "has a C type of the wrong signedness (%s)" % ("signed" if ce[1] else "unsigned")
                else:
                    bad = None
                if bad:
                    key = "emit %s %d %d" % (n, v, base)
                    viol(key, "C literal for %s value %d (base %s): '%s' %s; expected %d" % (n, v, base or "none", got, bad, want),
                         {"case": line, "implementation": got, "c_semantics": ce, "oracle": want, "model": mod})
            if mod != got:
                viol("model-mismatch:emit", "model of add_scalar_literal differs on '%s': model %s, implementation %s" % (line, mod, got),
                     {"case": line, "model": mod, "implementation": got, "no_longer_checks": "correspondence stream C14/emit"}, failing=False, kind="correspondence")
            elif abs(v) > 1:
                nontrivial.add(line)
        elif kind == "emitf":
            _, width, x = m
            txt = got[:-1] if got.endswith("f") else got
            neg = str(x)[0] == "-"
            want = fbits(width, rnd_w(width, abs(Fraction(x))), neg)       # the constant converted to the type
            if re.search(r"INF", got):
                gotbits = fbits(width, None, got.lstrip("(").startswith("-"))
            else:
                fr = dec_text_to_fraction(txt)
                if fr is None:
                    viol(line, "float literal printer produced '%s'" % got, {"case": line, "implementation": got})
                    continue
                gotbits = fbits(width, rnd_w(width, abs(fr)), txt.startswith("-"))
            if gotbits != want:
                viol(line, "float%d constant %r is emitted as '%s', which a C compiler reads as %s; the value converted to the type is %s" % (width, x, got, gotbits, want),
                     {"case": line, "implementation": got, "oracle": want})
            elif not re.search(r"[.eE]|inf|nan", txt):
                viol(line, "float literal emitted without fraction or exponent: '%s' (an integer constant in C)" % got, {"case": line, "implementation": got})
            else:
                nontrivial.add(line)

    # ---------------------------------------------------------------- 2. run-time half
    drv = build_driver(ctx)
    rt_lines, rt_meta = [], []

    def addrt(stream, line, m):
        rt_lines.append(line); rt_meta.append(m)
        dist[stream] = dist.get(stream, 0) + 1

    ints = set(int_lattice(64)) | {-x for x in int_lattice(64)} | {MININT, MAXINT, MININT + 1}
    for _ in range(ctx.scale(300, 5000)):
        ints.add(rng.randrange(MININT, MAXINT + 1))
        ints.add(rng.randrange(-10**rng.randrange(1, 19), 10**rng.randrange(1, 19)))
    for v in sorted(ints):
        if MININT <= v <= MAXINT:
            addrt("rt-int", "tostring_i64 %d" % v, ("tostring", str(v)))
            addrt("rt-int", "print_i64 %d" % v, ("print", str(v)))
            addrt("rt-int", "tointeger %s" % X(str(v)), ("tointeger", v))
            addrt("rt-int", "fmtd %d" % v, ("tostring", str(v)))
        if 0 <= v < 2**64:
            addrt("rt-int", "tostring_u64 %d" % v, ("tostring", str(v)))
            addrt("rt-int", "print_u64 %d" % v, ("print", str(v)))
        for bits, sg, nm in ((8, True, "i8"), (16, True, "i16"), (32, True, "i32"), (8, False, "u8"), (32, False, "u32")):
            w = wrap_T(bits, sg, v)
            addrt("rt-int", "tostring_%s %d" % (nm, v), ("tostring", str(w)))
            if nm in ("i8", "u8", "i32"):
                addrt("rt-int", "print_%s %d" % (nm, v), ("print", str(w)))
    for w in STR2NUM_WITNESSES:
        wt = bytes.fromhex(w.split()[1][1:]).decode()
        addrt("rt-float", w, ("bits", f64_bits(float(Fraction(wt)))))
    for line in corpus:
        w = line.split()
        if w[0] == "tostring_i64":
            addrt("corpus", line, ("tostring", str(int(w[1]))))
    for s in [" 12", "12 ", "+7", "-0", "0x10", "0b101", "0X1f", "  -9223372036854775808  ", "9223372036854775807"]:
        addrt("rt-int", "tointeger %s" % X(s), ("tointeger", int(s.strip(), 0)))
    fl = [x * s for x in FLOAT_SPECIALS for s in (1, -1)] + [rand_float(rng) for _ in range(ctx.scale(1200, 30000))]
    for x in fl:
        if x != x or abs(x) == float("inf"):
            continue
        addrt("rt-float", "rt17 " + F(x), ("bits", f64_bits(x)))
        addrt("rt-float", "fmt17 " + F(x), ("text", "%.17g" % x))
        addrt("rt-float", "fmt14 " + F(x), ("text", "%.14g" % x))
        addrt("rt-float", "print_f64 " + F(x), ("printf", x))
        addrt("rt-float", "tostring_f64 " + F(x), ("tostringf", x))
        s = rng.choice([repr(x), "%.17g" % x, "%.*e" % (rng.randrange(0, 22), x), "%.20g" % x])
        fr = dec_text_to_fraction(s)
        if fr is not None:
            r = round_binary(fr, 53, -1022, 1023)
            if r is not None:
                addrt("rt-float", "tonumber " + X(s), ("bits", f64_bits(-0.0 if (r == 0 and s.startswith("-")) else float(r))))
    # malformed and borderline numerals: Lua itself is the oracle (harness/C14/numeral_oracle.lua)
    numeral_cases = []
    alpha = [" ", "\t", "+", "-", "0", "x", "X", "b", "B", "1", "9", "a", "f", "g", "z", ".", "e"]
    fixed = ["", " ", "-", "+", "0x", "0X", "0b", " - ", "  +  ", "-0x", "+0b", "- 1", "1 2", "0x ", " 0x1 ", "0b2", "0xg", "--1", "+-1", "1-", "0x-1",
             "12", " 12 ", "-12", "+12", "0x10", "-0x10", "0b101", "1e1", "1.0", "9223372036854775807", "-9223372036854775808",
             "0xffffffffffffffff", "0x10000000000000000", "007", "0x", "x", "\t7\n", "7\0", "\0"]
    for t in fixed:
        numeral_cases.append((t, None))
    for _ in range(ctx.scale(500, 6000)):
        numeral_cases.append(("".join(rng.choice(alpha) for _ in range(rng.randrange(0, 6))), None))
    for t in ["", "-", "+", " ", "z", "Z", "10", "-10", "ff", "0x10", "1 ", " -1", "g", "7fffffffffffffff", "ffffffffffffffff", "1.0"]:
        for b in (2, 8, 10, 16, 36):
            numeral_cases.append((t, b))
    olines = ["%s %s%s" % ("s" if b is None else "b", X(t), "" if b is None else " %d" % b) for t, b in numeral_cases]
    rcn, on, en = vlib.run_lua(os.path.join(vlib.VERIF, "harness", ID, "numeral_oracle.lua"), input="\n".join(olines) + "\n", timeout=600)
    onl = on.split("\n")
    if rcn != 0 or len(onl) < len(olines):
        raise RuntimeError("numeral oracle failed rc=%s: %s" % (rcn, en[-300:]))
    for (t, b), lua_v in zip(numeral_cases, onl):
        line = ("tointeger %s" % X(t)) if b is None else ("tointeger_b %s %d" % (X(t), b))
        addrt("rt-numeral", line, ("numeral", lua_v, t, b))
    rc, out, err = vlib.sh([drv], input="\n".join(rt_lines) + "\n", timeout=3000)
    ol = out.split("\n")
    if rc != 0 or len(ol) < len(rt_lines):
        raise RuntimeError("run-time driver failed rc=%s lines %d of %d: %s" % (rc, len(ol), len(rt_lines), err[-400:]))
    evals += len(rt_lines)
    samples += rt_lines[:2] + rt_lines[-2:]
    # the model voice for the integer ops
    mlines = []
    for line, m in zip(rt_lines, rt_meta):
        a = line.split()
        if a[0] == "tostring_i64": mlines.append("int2str " + a[1])
        elif a[0] == "tostring_u64": mlines.append("uint2str " + a[1])
        elif a[0] == "tointeger": mlines.append("str2int 0 " + (a[1][1:] or "e"))
        elif a[0] == "tointeger_b": mlines.append("str2int %s %s" % (a[2], a[1][1:] or "e"))
        else: mlines.append("skip")
    rc, mo, me = vlib.sh([model], input="\n".join(mlines) + "\n", timeout=3000)
    mol = mo.split("\n")
    for line, m, got, mod, ml_ in zip(rt_lines, rt_meta, ol, mol, mlines):
        k = m[0]
        ok = True
        if k == "numeral":
            _, lua_v, t, b = m
            ext = b is None and re.match(r"^[+-]?0[bB][01]+$", t.strip(" \t\n\v\f\r"))
            if ext:
                want = str(wrap_T(64, True, int(t.strip(" \t\n\v\f\r"), 2)))       # documented extension: binary prefix
            elif lua_v == "nil":
                want = "!sig6"                                           # Lua has no integer for it: the port must stop
            else:
                want = lua_v
            mwant = "fail" if got == "!sig6" else got
            if got != want:
                if got == "!sig6":
                    dist["numeral:port-stops-where-lua-has-an-integer"] = dist.get("numeral:port-stops-where-lua-has-an-integer", 0) + 1
                else:
                    viol(line, "run time: tointeger(%r%s) gives %s where Lua gives %s" % (t, "" if b is None else ", %d" % b, got, lua_v),
                         {"case": line, "implementation": got, "oracle": lua_v, "model": mod})
            else:
                nontrivial.add(line)
            if mod != mwant:
                viol("model-mismatch:str2int", "model of strconv.str2int differs on '%s': model %s, implementation %s" % (line, mod, got),
                     {"case": line, "model": mod, "implementation": got, "no_longer_checks": "correspondence stream C14/str2int"}, failing=False, kind="correspondence")
            continue
        if k == "tostring":
            want = X(m[1])
        elif k == "print":
            want = m[1]
        elif k == "tointeger":
            want = str(m[1])
        elif k == "bits":
            want = "f%016x" % m[1]
        elif k == "text":
            want = X(m[1])
        elif k == "printf":
            x = m[1]
            t = "%.14g" % x
            if re.match(r"^-?\d+$", t): t += ".0"
            want = t
        elif k == "tostringf":
            # documented rule: %.14g with a trailing .0 for integral values (Lua's tostring)
            t = "%.14g" % m[1]
            if re.match(r"^-?\d+$", t): t += ".0"
            want = X(t)
        pred = None
        if k == "bits" and line.startswith("tonumber "):
            # model voice of str2num (harness/C14/str2num_model.py: the algorithm of the code in x87 arithmetic), normal range only
            txt = bytes.fromhex(line.split()[1][1:]).decode()
            if (m[1] & 0x7fffffffffffffff) < 0x7ff0000000000000 and re.match(r"^\s*[-+]?[0-9.]+([eE][-+]?[0-9]+)?\s*$", txt):
                pv = str2num_model.str2num_x87(txt)
                if pv is None:
                    pv = float("-inf") if txt.strip().startswith("-") else float("inf")
                elif pv == 0 and txt.strip().startswith("-"):
                    pv = -0.0
                pred = "f%016x" % f64_bits(float(pv))
                dist["str2num-model-voice"] = dist.get("str2num-model-voice", 0) + 1
                if pred != got:
                    viol("model-mismatch:str2num", "model of strconv.str2num (x87 long double) differs on '%s' (%s): model %s, implementation %s" % (line, txt, pred, got),
                         {"case": line, "model": pred, "implementation": got, "no_longer_checks": "correspondence stream C14/str2num"}, failing=False, kind="correspondence")
        if got != want:
            if pred is not None and pred == got and line not in STR2NUM_WITNESSES and str2num_witness_fails(rt_lines, ol):
                # not correctly rounded, and exactly the value the model of the UNCHANGED code computes: the known double rounding
                # of strconv.str2num (site: decimal scale loop, operands: long double digits x powers of ten).  The designated
                # witnesses are reported under their exact keys; these are counted, anything the model does not predict is a VIOLATION
                dist["predicted-by-model:strconv.str2num:decimal-scale(long double)"] = dist.get("predicted-by-model:strconv.str2num:decimal-scale(long double)", 0) + 1
                continue
            viol(line, "run time: %s gives %s, expected %s" % (line, got, want), {"case": line, "implementation": got, "oracle": want})
        else:
            nontrivial.add(line)
            if ml_ != "skip":
                mwant = bytes.fromhex(got[1:]).decode() if got.startswith("x") else got
                if mod != mwant:
                    viol("model-mismatch:" + ml_.split()[0], "model of strconv differs on '%s': model %s, implementation %s" % (line, mod, mwant),
                         {"case": line, "model": mod, "implementation": got, "no_longer_checks": "correspondence stream C14/" + ml_.split()[0]}, failing=False, kind="correspondence")

    # ---------------------------------------------------------------- 3. end to end: probe programs
    ncase = probe_programs(ctx, rng, info, model, viol, nontrivial, dist, reader_witness=WITNESS_READ)
    evals += ncase
    evals += boundary_probe(ctx, viol, nontrivial, dist)
    evals += hexfloat_int_probe(ctx, viol, nontrivial, dist)

    with open(os.path.join(ctx.work, "failures.txt"), "w") as f:
        f.write("\n".join(allv) + "\n")
    return {
        "evaluations": evals,
        "distinct_nontrivial": len(nontrivial),
        "rule": "compiler half: every integral type x lattice around its limits and beyond (emit), spellings in bases 2/10/16 of the lattice 2^k-1,2^k,2^k+1 up to 2^161 and random widths (read), suffix x value x desired type (type), special + random floats incl. subnormals (emitf, read-float); run-time half: int64 lattice and random ints, float specials and random mantissa x exponent; end to end: probe programs with literals in every spelling/suffix; non-trivial = distinct cases on which implementation, oracle and (where modelled) model agree and the value is not 0/1",
        "samples": samples,
        "distribution": {"streams": dist},
        "oracle_failures": problems["oracle"],
        "model_mismatches": problems["model"],
        "traces_validated_against_impl": evals,
        "unproved": UNPROVED,
    }


EMIT_WITNESS = "emit int64 18446744073709551621 16"          # repaired (59c538f): replayed, must pass
WITNESS_HEXFLOAT = "0x1.4b7726200377363c577p-8"               # repaired (1cb4f5b): replayed, must pass
WITNESS_HEXEXP = "0x1p-1030"                                  # repaired: replayed, must pass
# OPEN finding, strconv.str2num double rounding: designated exact witnesses (known_findings/C14.json keys)
STR2NUM_WITNESSES = ["tonumber " + X(t) for t in ("1e+126", "32e+126", "10e+125", "3828199250360920e-128")]
WITNESS_STR2NUM = STR2NUM_WITNESSES[0]
# REPAIRED (4928697) strconv.str2int accepted numerals without a digit: the six witnesses are replayed on every run (they are
# part of the fixed list of the numeral stream) and must stop like Lua's nil
STR2INT_WITNESSES = ["tointeger x2d", "tointeger x2b", "tointeger x3078", "tointeger x3062", "tointeger x202d20", "tointeger_b x2d 16"]


def str2num_witness_fails(rt_lines, ol):
    for l, g in zip(rt_lines, ol):
        if l == WITNESS_STR2NUM:
            return g != "f%016x" % f64_bits(1e126)
    return False


def build_driver(ctx):
    src = os.path.join(vlib.VERIF, "harness", ID, "driver.nelua")
    libfiles = vlib.walk_files(os.path.join(vlib.REPO, "lib"), (".nelua",)) + vlib.walk_files(os.path.join(vlib.REPO, "lualib"), (".lua",))
    key = vlib.sha_files([src] + libfiles)[:16]
    out = os.path.join(ctx.work, "driver-" + key)
    if os.path.exists(out):
        return out
    prune_work(ctx)
    tmp = "%s.tmp%d" % (out, os.getpid())
    rc, o, e = vlib.nelua_build(src, tmp, cache_dir=os.path.join(ctx.work, "nelua-cache-%s-%d" % (key, os.getpid())))
    if rc != 0 or not os.path.exists(tmp):
        raise RuntimeError("cannot compile the C14 run-time driver: " + (o + e)[-1500:])
    os.rename(tmp, out)
    return out


def prune_work(ctx, max_age=7200):
    """drivers and compile caches of other source states (another run may be using them: only remove
    what has not been touched for two hours)"""
    import shutil
    import time
    now = time.time()
    for f in os.listdir(ctx.work):
        if f.startswith(("driver-", "nelua-cache-", "probe-cache-")):
            p = os.path.join(ctx.work, f)
            try:
                if now - os.path.getmtime(p) > max_age:
                    shutil.rmtree(p) if os.path.isdir(p) else os.remove(p)
            except OSError:
                pass


# --------------------------------------------------------------------------------------------
# float literals at the rounding boundaries of binary32 / binary64
# --------------------------------------------------------------------------------------------
FMT = {32: (24, -126, 127), 64: (53, -1022, 1023)}
# REPAIRED (2e78fcf): a float32 constant was printed with 9 significant digits of the DOUBLE it was read as; the constant is
# now rounded to float32 first.  Regression cases (part of the boundary streams): they must be correct
F32_TEXT_WITNESSES = ["lit32 A 16777217.000001", "lit32 A 0x1.fffffefffffffp+127", "emitf float32 417000001000010c"]


def fbits(width, r, neg=False):
    """bit pattern (hex) of a correctly rounded result: Fraction, or None for infinity"""
    if width == 32:
        v = float("inf") if r is None else float(r)
        b = struct.unpack("<I", struct.pack("<f", v))[0]
        if neg or (r is not None and r < 0):
            b |= 0x80000000
        return "%08x" % b
    v = float("inf") if r is None else float(r)
    b = f64_bits(v)
    if neg or (r is not None and r < 0):
        b |= 1 << 63
    return "%016x" % b


def rnd_w(width, fr):
    """correct rounding of a non-negative Fraction to the format: Fraction or None (infinity)"""
    pb, emin, emax = FMT[width]
    return round_binary(fr, pb, emin, emax)


def dec_down_up(fr, nd):
    """the two decimal numerals with nd significant digits that bracket the positive Fraction fr (scientific notation)"""
    e = 0
    while fr >= Fraction(10) ** (e + 1):
        e += 1
    while fr < Fraction(10) ** e:
        e -= 1
    scaled = fr / Fraction(10) ** (e - nd + 1)
    lo = scaled.numerator // scaled.denominator
    out = []
    for m in (lo, lo + 1):
        ds = str(m)
        out.append("%s.%se%d" % (ds[0], ds[1:] or "0", e + (len(ds) - nd)))
    return out


def boundary_literals(width):
    """(spelling, exact value) of positive literals aimed at the rounding boundaries of the format, decimal and hexadecimal"""
    pb, emin, emax = FMT[width]
    two = Fraction(2)
    M = (two - two ** (1 - pb)) * two ** emax                # largest finite
    mid = (two - two ** (-pb)) * two ** emax                 # M + half ulp: the first value that rounds to infinity
    minn = two ** emin                                       # smallest normal
    mins = two ** (emin - pb + 1)                            # smallest subnormal
    pts = [M, mid, (M + mid) / 2, mid + (mid - M) / 2, M - (mid - M), minn, minn - mins / 2, mins, mins / 2, mins * 3 / 2, mins / 4, mins * 3 / 4]
    lits = []
    for fr in pts:
        for nd in ((9, 12, 20) if width == 32 else (17, 20, 25)):
            for t in dec_down_up(fr, nd):
                lits.append((t, Fraction(Decimal(t))))
    # hexadecimal spellings (exact)
    def hx(fr):
        e = 0
        while fr >= two ** (e + 1): e += 1
        while fr < two ** e: e -= 1
        m = fr / two ** e                                    # in [1, 2)
        frac = m - 1
        digs = ""
        for _ in range(16):
            frac *= 16
            d = frac.numerator // frac.denominator
            digs += "%x" % d
            frac -= d
        assert frac == 0
        return "0x1.%sp%+d" % (digs.rstrip("0") or "0", e)
    tiny = two ** (emax - 52) if width == 32 else None       # one double ulp at the top binade, for float32 only
    hpts = [M, mid, minn, mins, mins / 2, mins * 3 / 2, mins * 3 / 4]
    if width == 32:
        hpts += [mid - tiny, mid + tiny, M + tiny, mins / 2 + two ** (emin - pb - 40), mins * 3 / 2 - two ** (emin - pb - 40)]
    for fr in hpts:
        lits.append((hx(fr), fr))
    if width == 32:
        lits += [("16777217.000001", Fraction(Decimal("16777217.000001"))), ("16777217.0", Fraction(16777217)),
                 ("3.40282347e+38", Fraction(Decimal("3.40282347e+38"))), ("3.4028235e38", Fraction(Decimal("3.4028235e38")))]
    else:
        lits += [("1.7976931348623157e308", Fraction(Decimal("1.7976931348623157e308"))), ("4.9406564584124654e-324", Fraction(Decimal("4.9406564584124654e-324"))),
                 ("2.4703282292062327e-324", Fraction(Decimal("2.4703282292062327e-324"))), ("2.4703282292062328e-324", Fraction(Decimal("2.4703282292062328e-324")))]
    seen, out = set(), []
    for t, fr in lits:
        if t not in seen:
            seen.add(t); out.append((t, fr))
    return out


# REPAIRED (98daa0d): regression cases, must compile and print the value
HEXFLOAT_INT_WITNESSES = ["compile local a: int32 = 0x1p4", "compile local a: int32 = 0x1.8p1"]


def hexfloat_int_probe(ctx, viol, nontrivial, dist):
    """an integral constant spelled as a hexadecimal float: must behave like its decimal spelling (16.0 -> 16)"""
    n = 0
    for lit, want in (("0x1p4", "16"), ("16.0", "16"), ("0x1.8p1", "3"), ("-0x1p4", "-16")):
        path = os.path.join(ctx.work, "hfi-%d.nelua" % os.getpid())
        with open(path, "w") as f:
            f.write("local a: int32 = %s print(a)\n" % lit)
        cdir = os.path.join(ctx.work, "probe-cache-h-%d" % os.getpid())
        rc, o, e = vlib.nelua(["--cache-dir", cdir, path], timeout=300)
        import shutil
        shutil.rmtree(cdir, ignore_errors=True)
        try:
            os.remove(path)
        except OSError:
            pass
        n += 1
        dist["hexfloat-int-probe"] = dist.get("hexfloat-int-probe", 0) + 1
        got = o.strip() if rc == 0 else "!compiler: " + (e.strip().split("\n") or [""])[0][-120:]
        if got != want:
            viol("compile local a: int32 = %s" % lit, "`local a: int32 = %s print(a)` gives %s, expected %s (what the decimal spelling gives)" % (lit, got, want),
                 {"case": lit, "implementation": got, "oracle": want})
        else:
            nontrivial.add("hfi " + lit)
    return n


def boundary_probe(ctx, viol, nontrivial, dist):
    """end to end: every boundary literal of both widths, with both signs, through three routes - A: literal with the type
    suffix, B: literal with the type as desired type (typed local), C: float64 compile-time constant converted to the type -
    compiled by the real compiler; the program prints the BITS of each value.  Oracle: the correctly rounded value of the
    type (route C: of the double the constant holds)."""
    cases = []          # (key, width, route, neg, text, want_bits, pred_bits)
    via64 = {}          # key -> bits of the double constant converted to the type
    src = ["require 'string'",
           "local function b32(x: float32) local u: union{f: float32, i: uint32}; u.f = x; print(string.format('%08x', u.i)) end",
           "local function b64(x: float64) local u: union{f: float64, i: uint64}; u.f = x; print(string.format('%016x', u.i)) end"]
    n = 0
    for width in (32, 64):
        T = "float%d" % width
        for text, fr in boundary_literals(width):
            d = rnd_w(64, fr)                                   # the double the compiler's reader holds (None: infinity)
            for neg in (False, True):
                lit = ("-" if neg else "") + text
                for route in "ABC":
                    if width == 64 and route == "C":
                        continue
                    # what the type must hold: A, B - the literal correctly rounded to the type; C - the double constant converted
                    if route == "C":
                        want = None if d is None else rnd_w(width, d)
                    else:
                        want = rnd_w(width, fr)
                    pred = want
                    n += 1
                    if route == "A":
                        src.append("b%d(%s_f%d)" % (width, lit, width))
                    elif route == "B":
                        src.append("local v%d: %s = %s b%d(v%d)" % (n, T, lit, width, n))
                    else:
                        src.append("local c%d <comptime> = %s local v%d: %s = c%d b%d(v%d)" % (n, lit, n, T, n, width, n))
                    cases.append(("lit%d %s %s" % (width, route, lit), width, route, neg, lit, fbits(width, want, neg), fbits(width, pred, neg)))
                    via64["lit%d %s %s" % (width, route, lit)] = fbits(width, None if d is None else rnd_w(width, d), neg)
    path = os.path.join(ctx.work, "boundary-%d.nelua" % os.getpid())
    with open(path, "w") as f:
        f.write("\n".join(src) + "\n")
    exe = os.path.join(ctx.work, "boundary-%d" % os.getpid())
    cdir = os.path.join(ctx.work, "probe-cache-b-%d" % os.getpid())
    rc, o, e = vlib.nelua(["--cache-dir", cdir, "-b", "-o", exe, path], timeout=900)
    import shutil
    shutil.rmtree(cdir, ignore_errors=True)
    if rc != 0:
        viol("boundary-probe", "the boundary probe program does not compile: %s" % (o + e)[-600:], {"program": path, "stderr": (o + e)[-1500:]})
        return 0
    rc, o, e = vlib.sh([exe], timeout=120)
    outs = o.split("\n")
    for junk in (exe, path):
        try:
            os.remove(junk)
        except OSError:
            pass
    if rc != 0 or len(outs) < len(cases):
        viol("boundary-probe", "the boundary probe program printed %d lines for %d literals (rc %s)" % (len(outs), len(cases), rc), {"stderr": e[-500:]}, failing=False, kind="harness")
        return 0
    for (key, width, route, neg, lit, want, pred), got in zip(cases, outs):
        dist["boundary-probe"] = dist.get("boundary-probe", 0) + 1
        if got == want:
            nontrivial.add(key)
        elif width == 32 and route in "AB" and got == via64[key] and got != want:
            # documented limitation, not a finding: a float32 literal is a binary64 at compile time, so a literal with more than
            # 17 digits whose double is exactly a float32 tie is rounded twice by construction
            k = "documented:float32-literal-is-binary64-at-compile-time(two roundings)"
            dist[k] = dist.get(k, 0) + 1
        else:
            viol(key, "%s literal %s (route %s) reaches the program as %s, the correctly rounded value of the type is %s" % ("float%d" % width, lit, route, got, want),
                 {"case": key, "implementation": got, "oracle": want})
    return len(cases)


def probe_programs(ctx, rng, info, model, viol, nontrivial, dist, reader_witness):
    """literals in source text -> generated C (located in the print call) -> value printed by the
    compiled program.  Each program prints rows of ten literals."""
    types = info["int_types"]; aliases = info["aliases"]; suffixes = info["suffix_table"]; tids = info["type_ids"]
    sfx_int = sorted(k for k, t in suffixes.items() if aliases.get(t, t) in types and types[aliases.get(t, t)][0] <= 64)
    nprog = ctx.scale(2, 12)
    total = 0
    for p in range(nprog):
        rows = []
        for _ in range(ctx.scale(40, 80)):
            row = []
            for _k in range(10):
                r = rng.random()
                if r < .7:
                    sfx = rng.choice(sfx_int)
                    b, sg, lk = types[aliases.get(suffixes[sfx], suffixes[sfx])]
                    v = rng.choice([tmax(b, sg), tmax(b, sg) - 1, 0, 1, 2**(b - 1) - 1, rng.randrange(0, tmax(b, sg) + 1), rng.randrange(0, min(tmax(b, sg), 1000) + 1)])
                    base = rng.choice([10, 10, 16, 2])
                    row.append((spell(v, base, rng) + sfx, "int", (suffixes[sfx], b, sg, v, base)))
                elif r < .85:
                    v = rng.choice([0, 1, 2**31 - 1, 2**31, 2**32, 2**63 - 1, rng.getrandbits(rng.choice([8, 31, 32, 62, 63]))])
                    base = rng.choice([10, 16, 2])
                    row.append((spell(v, base, rng), "int", ("integer", 64, True, v, base)))
                else:
                    x = abs(rand_float(rng))
                    if x == float("inf") or x != x:
                        x = 1.5
                    s = repr(x)
                    if "e" not in s and "." not in s and "inf" not in s: s += ".0"
                    row.append((s, "float", x))
            rows.append(row)
        if p == 0:
            rows.append([(reader_witness, "witness", 2**160)])
        src = "\n".join("print(%s)" % ", ".join(c[0] for c in row) for row in rows) + "\n"
        path = os.path.join(ctx.work, "probe%d-%d.nelua" % (p, os.getpid()))
        with open(path, "w") as f:
            f.write(src)
        exe = os.path.join(ctx.work, "probe%d-%d" % (p, os.getpid()))
        cdir = os.path.join(ctx.work, "probe-cache-%d-%d" % (p, os.getpid()))
        rc, o, e = vlib.nelua(["--cache-dir", cdir, "--print-code", path], timeout=600)
        ccode = o
        rc2, o2, e2 = vlib.nelua(["--cache-dir", cdir, "-b", "-o", exe, path], timeout=600)
        import shutil
        shutil.rmtree(cdir, ignore_errors=True)
        if rc2 == 0:
            rc2, o2, e2 = vlib.sh([exe], timeout=120)
        for junk in (exe, path):
            try:
                if rc == 0 and rc2 == 0:
                    os.remove(junk)
            except OSError:
                pass
        if rc != 0 or rc2 != 0:
            viol("probe-program-%d" % p, "probe program with in-range literals does not compile: %s" % (e + e2)[-400:],
                 {"program": path, "stderr": (e + e2)[-1500:]})
            continue
        calls = re.findall(r"^\s*nelua_print_\d+\((.*)\);$", ccode, re.M)
        outs = o2.rstrip("\n").split("\n")
        if len(calls) != len(rows) or len(outs) != len(rows):
            viol("probe-program-%d" % p, "cannot align the probe program with its generated C / output (%d rows, %d calls, %d lines)" % (len(rows), len(calls), len(outs)),
                 {"program": path}, failing=False, kind="harness")
            continue
        mlines, mmeta = [], []
        for row, call, outl in zip(rows, calls, outs):
            texts = call.split(", ")
            vals = outl.split("\t")
            if len(texts) != len(row) or len(vals) != len(row):
                viol("probe-program-%d" % p, "row misaligned: %s / %s" % (call[:80], outl[:80]), {"program": path}, failing=False, kind="harness")
                continue
            for (lit, kind, m), text, val in zip(row, texts, vals):
                total += 1
                dist["probe"] = dist.get("probe", 0) + 1
                if kind == "int":
                    tname, b, sg, v, base = m
                    if val != str(v):
                        viol("literal " + lit, "literal %s reaches the program as %s (C text %s), its value is %d" % (lit, val, text, v),
                             {"literal": lit, "printed": val, "c_text": text, "oracle": v, "program": path})
                    else:
                        nontrivial.add("probe " + lit)
                    mlines.append("emit %d %d %d" % (tids[tname], v, base)); mmeta.append((lit, text))
                elif kind == "float":
                    t = "%.14g" % m
                    if re.match(r"^-?\d+$", t): t += ".0"
                    fr = dec_text_to_fraction(text)
                    r = None if fr is None else round_binary(fr, 53, -1022, 1023)
                    if val != t or r is None or float(r) != m:
                        viol("literal " + lit, "float literal %s: C text %s, printed %s (expected %s)" % (lit, text, val, t),
                             {"literal": lit, "printed": val, "c_text": text, "program": path})
                    else:
                        nontrivial.add("probe " + lit)
                else:   # the reader witness: 2^160 in decimal
                    if val != "1.4615016373309e+48":
                        viol("read " + reader_witness, "decimal literal %s (2^160) reaches the program as %s; Lua reads it as the float 1.4615016373309e+48: integer literals from 2^159 on wrap modulo 2^160 in the compiler's reader" % (reader_witness, val),
                             {"literal": lit, "printed": val, "c_text": text, "program": path,
                              "replay": "echo 'print(%s)' > t.nelua && nelua t.nelua" % reader_witness})
        rc, mo, me = vlib.sh([model], input="\n".join(mlines) + "\n", timeout=600)
        for (lit, text), mod in zip(mmeta, mo.split("\n")):
            if mod != text:
                viol("model-mismatch:probe-emit", "the C text of literal %s is %s, the model of typing+emission gives %s" % (lit, text, mod),
                     {"literal": lit, "implementation": text, "model": mod, "no_longer_checks": "correspondence stream C14/probe"}, failing=False, kind="correspondence")
    return total
