"""C03 - accepted programs yield C that compiles cleanly and runs without C-level UB.

(T) the primitive size/align tables (the compiler's and the C compiler's, from a probe program built by
    the real compiler), ptrsize/maxalign/emptysize and the sizeof expression of the array-field branch
    of nelua_eq_ (text scrape of cbuiltins.lua) are regenerated into coq/C03/Gen.v on every run;
(C) random type trees: a generated Nelua program prints the compiler's size/align/offsets next to the
    C compiler's sizeof/_Alignof/offsetof and uses every type (so the static assertions are emitted),
    gcc and clang; helper probes (harness/C03/ubdrv.nelua) run under --sanitize."""
import os
import re
import sys
import json

import concurrent.futures as cf

import vlib

sys.path.insert(0, os.path.join(vlib.VERIF, "harness", "C01"))
sys.path.insert(0, os.path.join(vlib.VERIF, "harness", "C03"))
import scrape  # noqa: E402

ID = "C03"
ALLOWED_AXIOMS = []
TRUSTED_BASE = [
    "coqc 8.16.1 kernel (vm_compute used for table facts and refutation witnesses; no native_compute)",
    "no axioms: every theorem of coq/C03/Properties.v is 'Closed under the global context'",
    "translator checks/C03.py:gen: harness/C03/prims.nelua compiled by the real compiler prints the primitive tables and typedefs constants; regex scrape of the memcmp size of the array-field branch of cbuiltins.nelua_eq_; harness/C01/scrape.py (owned by C01, shared): scrape_div_guard, scrape_shift_fast_path, scrape_cflags (cflags_base of gcc and clang contain -fwrapv)",
    "cross-property files: coq/C03/{CSem,Helpers,ProofsBase,ProofsDiv}.v are the SOURCE of the copies in coq/C01 and coq/C09 (checks/C01.py:sync_shared): an edit here changes those checks; checks/C03.py imports harness/C01/{scrape,progs}.py and checks/C01.py (write_modules) for the sanitized whole-program stream; harness/C03/ubdrv.nelua is also run by checks/C09.py",
    "extraction: Require Extraction + ExtrOcamlBasic only; ocaml/zutil.ml + coq/C03/driver.ml",
    "harnesses: harness/C03/typegen.py (type-tree generator, probe program printer), harness/C03/ubdrv.nelua (helper probes), gcc 12 and clang 14 with -fsanitize=address,undefined,float-cast-overflow",
    "modelled rather than verified: coq/C03/CSem.v (C integer semantics with UB = None, three dialects), Helpers.v (cbuiltins helper bodies transcribed by hand), Model.v (types.lua layout functions transcribed by hand, System V layout rules as c_layout)",
]
ASSUMPTIONS = [
    "System V x86-64 / GNU C struct, union and array layout rules as written in coq/C03/Model.v (cl): field offset rounded up to the field alignment, size rounded up to the alignment, packed => field alignment 1, aligned(N) raises the alignment, empty struct has size 0",
    "every supported build passes -fwrapv: discharged from the scraped cflags_base of gcc and clang (C03_supported_builds_no_ub; that the base flags reach the command line in every configuration is checked by C09's cflags stream); user --cflags that undo it are outside the statement",
    "gcc/clang treatment of implementation-defined integer behaviour (modular conversion to signed, arithmetic >> on signed) and their documented wrapping of signed << (m_gnushl, used by nelua_asr_ and the shl fast path): assumptions about the two compilers, not scraped",
    "declaration order/forward typedefs, lifetime of temporaries and statement expressions, zero initialisers, string literals, containers: exercised by compiling and running generated programs under sanitizers only (testing)",
]
# clauses of the statement that no theorem covers (testing only, or nothing)
UNPROVED = [
    "`the emitted C compiles cleanly for every accepted program`: no theorem; 13 fixed witness programs, the layout probes and 8 (quick) / 60 (thorough) generated whole programs built with --sanitize (the open findings are programs the analyzer accepts and a C compiler rejects or UBSan flags)",
    "`runs without C-level undefined behaviour` for whole programs: only per-helper/per-operator theorems (division, shifts, + - * unary-, comparisons, narrowing) and the memcmp bounds of nelua_eq_; temporaries, lifetimes, aliasing casts, zero initialisers, declaration order, use after scope: sanitized runs only",
    "`///` `%%%` and unsigned `//` `%`: undefined for a zero divisor and MIN / -1 (C03_tdiv_no_ub_refuted, C03_udiv_no_ub_refuted; 6 open findings); only same-type operands are modelled: the mixed-signedness forms (`((T)((T)l / (T)r))` since /repo 8eb30df) are C02's subject",
    "float -> integer narrowing outside the target range (C03_narrow_float_defined_refuted; 2 open findings); float arithmetic, float -> float narrowing, libm calls: not modelled",
    "integer narrowing h_narrow_int and the bitwise operators have no theorem (they cannot be undefined by the shape of their C)",
    "eq_accesses (the modelled memcmp calls of nelua_eq_<type>) is proved in bounds but its list is not compared with the memcmp calls in the emitted C (only the scraped sizeof argument and the sanitized eqprobe runs tie it)",
    "layout: types outside wfb (128-bit integers as record fields are in the generator but not in ity_ok, enums, spans, strings, function types): layout stream only; the alignment domain of wfb is the analyzer's (scraped aligned_pow2_max)",
    "the GNU treatment of signed << is an assumption, not derived from anything scraped",
]
THEOREM_CLASSES = {
    "C03_idiv_no_ub": "main",
    "C03_imod_no_ub": "main",
    "C03_emitted_div_helpers_no_ub": "main",
    "C03_shl_no_ub": "main",
    "C03_shr_no_ub": "main",
    "C03_asr_no_ub_gnu": "main",
    "C03_asr_needs_gnu_shl": "corollary",          # a remark about the dialects (was `_refuted`): no supported compiler behaves like FWRAPV
    "C03_emitted_shifts_no_ub": "main",
    "C03_cmp_helpers_no_ub": "definitional",       # the helpers' C cannot be undefined by its shape
    "C03_arith_no_ub": "definitional",             # restates what -fwrapv means in CSem.v
    "C03_supported_builds_no_ub": "main",          # the mode hypotheses discharged from the scraped flags
    "C03_tdiv_no_ub_refuted": "refutation",
    "C03_udiv_no_ub_refuted": "refutation",
    "C03_tdiv_no_ub_partial": "main",
    "C03_udiv_no_ub_partial": "corollary",
    "C03_narrow_float_defined_refuted": "refutation",
    "C03_narrow_float_defined_partial": "definitional",
    "C03_prims_agree": "tripwire",                 # vm_compute on the tables printed by the real compiler
    "C03_layout_agrees": "main",
    "C03_eq_in_bounds": "main",
}
MANIFEST_ENTRY = {
    "text": "proof, partial: theorems cover (a) layout - for every well-formed type tree (records packed/aligned, unions, arrays incl. zero length, nested) the compiler's size, alignment and field offsets are the C compiler's, so the emitted static assertion holds; (b) UB-freedom of the emitted integer helpers and operators in the dialect of every supported build (-fwrapv from the scraped base flags of gcc and clang): floor division / modulo checked and unchecked, the three shifts with helper and constant-count fast path, + - * unary-, mixed-sign comparisons; `///` `%%%` and unsigned `//` `%` REFUTED (bare C division: zero divisor, MIN / -1), float -> integer narrowing REFUTED outside the range; (c) the memcmp calls of record equality stay inside the object.  Rest on testing only: `compiles cleanly` and `no UB` for whole programs (witness programs, layout probes, generated programs under ASan/UBSan with gcc and clang).",
    "note": "no axioms; tie: primitive tables printed by the real compiler, scraped cbuiltins.lua/cdefs.lua facts, extracted model run against gcc and clang builds under sanitizers (helpers with checks on and off, literal shift counts, layout probes); 12 open findings replayed on every run; coq/C03/{CSem,Helpers,ProofsBase,ProofsDiv}.v are copied into coq/C01 and coq/C09; uses harness/C01/{scrape,progs}.py",
    "technique": "Coq theorems about an executable Gallina model + generated parameters + behavioural correspondence of the extracted model under sanitizers",
}


def read_prims(ctx_work):
    src = os.path.join(vlib.VERIF, "harness", ID, "prims.nelua")
    out = {}
    for cc in ("gcc", "clang"):
        rc, o, e = vlib.nelua(["--cache-dir", os.path.join(ctx_work, "cache-prims-" + cc), "--cc", cc, src], timeout=300)
        if rc != 0:
            raise RuntimeError("prims.nelua failed with %s: %s" % (cc, (o + e)[-800:]))
        n, c, k = {}, {}, {}
        order = []
        for line in o.split("\n"):
            w = line.split()
            if not w:
                continue
            if w[0] == "n":
                n[w[1]] = (int(w[2]), int(w[3]))
                order.append(w[1])
            elif w[0] == "c":
                c[w[1]] = (int(w[2]), int(w[3]))
            elif w[0] == "k":
                k[w[1]] = int(w[2])
        if not order or set(n) != set(c) or len(k) != 3:
            raise RuntimeError("prims.nelua output not understood (%s)" % cc)
        out[cc] = {"order": order, "nelua": n, "c": c, "consts": k}
    return out


def gen(ctx):
    work = getattr(ctx, "work", os.path.join(vlib.CACHE, "work", ID))
    os.makedirs(work, exist_ok=True)
    pr = read_prims(work)
    g = pr["gcc"]
    if pr["clang"]["nelua"] != g["nelua"] or pr["clang"]["c"] != g["c"] or pr["clang"]["consts"] != g["consts"]:
        raise RuntimeError("gcc and clang disagree on the primitive tables: %s vs %s" % (pr["gcc"], pr["clang"]))
    names = [x for x in g["order"] if x != "pointer"]
    cb = vlib.repo_read("lualib/nelua/cbuiltins.lua")
    m = re.search(r"elseif fieldtype\.is_array then\s*\n\s*defemitter:add_builtin\('memcmp'\)\s*\n\s*defemitter:add\((.*?)\)\s*\n", cb)
    if not m:
        raise RuntimeError("cbuiltins.lua: array-field branch of nelua_eq_ not found")
    arg = m.group(1)
    if re.search(r"sizeof\(a\.',\s*fieldname", arg):
        is_field = True
    elif re.search(r"sizeof\(',\s*type\b", arg):
        is_field = False
    else:
        raise RuntimeError("cbuiltins.lua: cannot classify the memcmp size of nelua_eq_: %s" % arg)
    guard = scrape.scrape_div_guard(cb)
    fastw = scrape.scrape_shift_fast_path(cb)
    fl = scrape.scrape_cflags(vlib.repo_read("lualib/nelua/cdefs.lua"))
    wrapv = {cc: "-fwrapv" in fl[cc]["cflags_base"].split() for cc in ("gcc", "clang")}
    adom = scrape.scrape_aligned_domain(vlib.repo_read("lualib/nelua/analyzer.lua"))
    pl = lambda t: "[" + "; ".join("(%d, %d)" % t[x] for x in names) + "]"
    txt = "\n".join([
        "(* GENERATED by checks/C03.py from /repo (harness/C03/prims.nelua through the real compiler with gcc and clang; cbuiltins.lua) - do not edit *)",
        "From Coq Require Import ZArith List.",
        "Import ListNotations.",
        "Local Open Scope Z_scope.",
        "(* primitives, in this order: %s *)" % " ".join(names),
        "(* (size, align) as lualib/nelua/typedefs.lua computes them *)",
        "Definition nelua_prims : list (Z * Z) := %s." % pl(g["nelua"]),
        "(* (sizeof, _Alignof) of the C type each primitive is emitted as *)",
        "Definition c_prims : list (Z * Z) := %s." % pl(g["c"]),
        "Definition c_pointer : Z * Z := (%d, %d)." % g["c"]["pointer"],
        "Definition ptrsize : Z := %d." % g["consts"]["ptrsize"],
        "Definition maxalign : Z := %d." % g["consts"]["maxalign"],
        "Definition emptysize : Z := %d." % g["consts"]["emptysize"],
        "(* cbuiltins.nelua_eq_, array field: memcmp(a.f, b.f, sizeof(a.f)) [true] or sizeof(<record>) [false] *)",
        "Definition eq_array_memcmp_size_is_field : bool := %s." % ("true" if is_field else "false"),
        "(* cbuiltins.nelua_idiv_/nelua_imod_: the `b == -1` line is emitted before `if checked then` *)",
        "From Coq Require Import Bool.",
        "Definition idiv_guard_first : bool := %s." % ("true" if guard["idiv"] else "false"),
        "Definition imod_guard_first : bool := %s." % ("true" if guard["imod"] else "false"),
        "(* operators.shl/shr/asr: the constant count of the plain-C fast path is compared with the width of the shifted operand *)",
        "Definition shl_fast_width_left : bool := %s." % ("true" if fastw["shl"] else "false"),
        "Definition shr_fast_width_left : bool := %s." % ("true" if fastw["shr"] else "false"),
        "Definition asr_fast_width_left : bool := %s." % ("true" if fastw["asr"] else "false"),
        "(* cdefs.lua compilers_flags.<cc>.cflags_base (passed in every build configuration) contains -fwrapv *)",
        "Definition gcc_base_has_fwrapv : bool := %s." % ("true" if wrapv["gcc"] else "false"),
        "Definition clang_base_has_fwrapv : bool := %s." % ("true" if wrapv["clang"] else "false"),
        "(* analyzer visitors.Annotation: <aligned(N)> must be a power of two in 1 .. aligned_pow2_max (0 = not validated) *)",
        "Definition aligned_pow2_max : Z := %d." % adom["max"],
        "",
    ])
    vlib.write_if_changed(os.path.join(vlib.coq_dir(ID), "Gen.v"), txt)
    return {"primitives": names, "nelua_prims": [g["nelua"][x] for x in names], "c_prims": [g["c"][x] for x in names],
            "consts": g["consts"], "eq_array_memcmp_size_is_field": is_field, "eq_array_memcmp_arg": arg, "div_guard_first": guard, "shift_fast_path_compares_left_width": fastw,
            "cflags_base_has_fwrapv": wrapv, "aligned_domain": adom}


# ---------------------------------------------------------------------------
# correspondence
# ---------------------------------------------------------------------------
import struct
import typegen  # noqa: E402

M64 = 1 << 64
SAN = ["--sanitize", "--cflags=-fsanitize=float-cast-overflow"]
TYPES = ["i8", "i16", "i32", "i64", "u8", "u16", "u32", "u64"]
BITS = [8, 16, 32, 64, 8, 16, 32, 64]
OPS = {1: "add", 2: "sub", 3: "mul", 4: "idiv", 5: "imod", 6: "shl", 7: "shr", 8: "asr", 9: "unm", 10: "bnot", 11: "cmp", 12: "tdiv", 13: "tmod"}

W_ZERO_ALIGNED = "layout: record{a: record{z: [0]int64}, b: byte} (zero-size record forgets its alignment)"
W_ZERO_UNION = "layout: record{a: union{z: [0]int64}, b: byte} (zero-size union forgets its alignment)"
W_ALIGNED_EMPTY = "layout: record{e: <aligned(16)> record{}, b: byte} (aligned record without fields forgets its alignment)"
W_EMPTY_VAR = "cgen: local a: E, b: E of empty record E inside a function, `a == b` (variables not declared)"
W_CONST_STEP = "cgen: for i=1,5,s with local s: integer <const> = 2 (_step not declared)"
W_ZERO_LIT = "cgen: zero initialiser `{0}` of record{a: record{e: record{}, x: integer}, y: integer} [clang]"
W_ZERO_LIT2 = "cgen: zero initialiser `{0}` of record{a: record{z: [0]record{x: integer}, f: float32}, y: integer} [gcc]"
W_NARROW = "narrow: implicit float64 -> int64 conversion of 1e30 (the check `(int64_t)(x) != x` converts first)"

WITNESS_PROGRAMS = [
    (W_ZERO_ALIGNED, "local Z = @record{z: [0]int64}\nlocal R = @record{a: Z, b: byte}\nlocal r: R\nr.b = 1\nprint(r.b)\n", "1\n"),
    (W_ZERO_UNION, "local Z = @union{z: [0]int64}\nlocal R = @record{a: Z, b: byte}\nlocal r: R\nr.b = 1\nprint(r.b)\n", "1\n"),
    (W_ALIGNED_EMPTY, "local E <aligned(16)> = @record{}\nlocal R = @record{e: E, b: byte}\nlocal r: R\nr.b = 1\nprint(r.b)\n", "1\n"),
    (W_EMPTY_VAR, "local E = @record{}\nlocal function f() local a: E, b: E return a == b end\nprint(f())\n", "true\n"),
    (W_CONST_STEP, "local s: integer <const> = 2\nfor i=1,5,s do print(i) end\n", "1\n3\n5\n"),
    (W_ZERO_LIT, "local E = @record{}\nlocal A = @record{e: E, x: integer}\nlocal B = @record{a: A, y: integer}\n"
                 "local function f(): integer local v: B return v.y end\nprint(f())\n", "0\n", "clang"),
    ('cgen: record fields named like C keywords (int, register, default)', 'local R = @record{int: integer, register: integer, default: integer, x: integer}\nlocal r: R = {int = 1, register = 2, default = 3, x = 4}\nprint(r.int + r.register + r.default + r.x)\n', "10\n"),
    ('cgen: f().arr with f returning a record by value (address of an rvalue)', 'local R = @record{arr: [3]integer, n: integer}\nlocal function f(): R\n  local r: R\n  r.arr[1] = 7\n  r.n = 2\n  return r\nend\nlocal a = f().arr\nprint(a[1], f().arr[1], f().n)\n', "7\t7\t2\n"),
    ('cgen: array field of a <packed> record read through a misaligned _cast union', 'local P <packed> = @record{b: byte, arr: [2]int64, c: byte}\nlocal p: P\np.arr[1] = 5\nlocal function get(q: *P, i: integer): int64 return q.arr[i] end\nlocal arrcopy = p.arr\nprint(get(&p, 1), arrcopy[1], p.arr[0] + p.arr[1])\n', "5\t5\t5\n", "gcc", SAN),
    ('cgen: defer block holding a loop with `break` inside a switch, emitted at two exits (duplicate C label)', "local function f(x: integer): integer\n  for i = 1, 3 do\n    defer\n      for j = 1, 2 do\n        switch j do\n        case 1 then\n          break\n        else\n          print('other', j)\n        end\n      end\n      print('deferred', i)\n    end\n    if i == 2 then return i end\n  end\n  return 0\nend\nprint(f(1))\n", "deferred\t1\ndeferred\t2\n2\n"),
    # repaired in /repo 42ec760: <aligned(3)> is rejected by the analyzer with a located error (6th field: that, or a
    # clean build, is the expected outcome; before, the emitted C was rejected by gcc and clang)
    ("cgen: local R <aligned(3)> = @record{a: byte}, r.a = 1 (alignment not a power of two)",
     "local R <aligned(3)> = @record{a: byte}\nlocal r: R\nr.a = 1\nprint(r.a)\n", "1\n", "gcc", (), "reject_ok"),
    (W_ZERO_LIT2, "local In = @record{x: integer}\nlocal A = @record{z: [0]In, f: float32}\nlocal B = @record{a: A, y: integer}\n"
                  "local function f(): integer local v: B return v.y end\nprint(f())\n", "0\n", "gcc"),
]


def hexs(v):
    return ("-%x" % -v) if v < 0 else "%x" % v


def double_parts(x):
    bits = struct.unpack("<Q", struct.pack("<d", x))[0]
    sign, exp, frac = bits >> 63, (bits >> 52) & 0x7FF, bits & ((1 << 52) - 1)
    if exp == 0x7FF:
        return "nan" if frac else ("-inf" if sign else "+inf")
    m, e = (frac, -1074) if exp == 0 else (frac | (1 << 52), exp - 1075)
    return "fin:%s:%s" % (hexs(-m if sign else m), hexs(e))


def build(ctx, src, tag, extra=(), cc="gcc"):
    key = vlib.sha_files([src] + vlib.walk_files(os.path.join(vlib.REPO, "lualib"), (".lua",)))[:14]
    out = os.path.join(ctx.work, "%s-%s-%s" % (tag, cc, key))
    if os.path.exists(out):
        return out, ""
    rc, o, e = vlib.nelua_build(src, out, extra=list(extra) + ["--cc", cc],
                                cache_dir=os.path.join(ctx.work, "cache-%s-%s-%s" % (tag, cc, key)))
    if rc != 0:
        raise RuntimeError("%s does not build with %s: %s" % (src, cc, (o + e)[-1200:]))
    return out, e


def parse_layout_out(text):
    n, c = {}, {}
    for line in text.split("\n"):
        w = line.split("\t")
        if len(w) >= 4 and w[0] == "n":
            n[int(w[1])] = (int(w[2]), int(w[3]), w[4], [int(x) for x in w[5:]])
        elif len(w) >= 4 and w[0] == "c":
            c[int(w[1])] = (int(w[2]), int(w[3]), [int(x) for x in w[4:]])
    return n, c


def run_layout_program(ctx, types, prim_names, tag, cc="gcc", extra=()):
    P = typegen.Program(prim_names)
    for i, t in enumerate(types):
        P.add_case(i, t)
    d = os.path.join(ctx.work, "layout")
    os.makedirs(d, exist_ok=True)
    f = os.path.join(d, "lay-%s.nelua" % tag)
    open(f, "w").write(P.text())
    rc, o, e = vlib.nelua(["--no-cache", "--cache-dir", os.path.join(d, "cache-" + tag), "--cc", cc] + list(extra) + [f], timeout=600)
    return rc, o, e, f


def stream_layout(ctx, driver, scraped, cov):
    rng = ctx.rng
    prim_names = scraped["primitives"]
    nprims = len(prim_names)
    cases = []
    cp = os.path.join(vlib.VERIF, "corpus", ID, "types.txt")
    if os.path.exists(cp):
        for line in vlib.read(cp).split("\n"):
            if line.strip() and not line.startswith("#"):
                cases.append(eval(line))
    # hand-picked shapes aimed at the proof's case splits
    p = lambda name: ("p", prim_names.index(name))
    cases += [
        ("rec", False, 0, [p("uint8"), p("int64")]), ("rec", False, 0, [p("int64"), p("uint8")]),
        ("rec", True, 0, [p("uint8"), p("int64"), p("uint8")]), ("rec", True, 16, [p("uint8"), p("int64")]),
        ("rec", False, 32, [p("uint8")]), ("rec", False, 1, [p("int64")]), ("rec", False, 0, []),
        ("uni", [("arr", 5, p("uint8")), p("int32")]), ("uni", [("arr", 3, p("int16")), p("float128")]),
        ("rec", False, 0, [("rec", False, 0, []), p("uint8")]), ("arr", 3, ("rec", False, 0, [p("uint8"), p("int16")])),
        ("rec", False, 0, [p("int32"), ("arr", 3, p("int64"))]), ("rec", False, 0, [p("clongdouble"), p("uint8")]),
        ("rec", False, 0, [p("uint8"), ("rec", True, 0, [p("int64")]), p("uint8")]),
        ("uni", [("rec", False, 0, [])]), ("rec", False, 0, [("uni", [p("uint8"), p("int128")]), p("boolean")]),
        # zero-size records keep the alignment of their fields (repaired in 61ca8bb)
        ("rec", False, 0, [("rec", False, 0, [("arr", 0, p("int64"))]), p("uint8")]),
        ("rec", False, 0, [p("uint8"), ("rec", False, 8, [("arr", 0, p("int16"))]), p("uint8")]),
        ("arr", 2, ("rec", False, 0, [("rec", False, 0, [("arr", 0, p("clongdouble"))]), p("int32")])),
        ("rec", True, 0, [p("uint8"), ("rec", False, 0, [("arr", 0, p("int64")), ("rec", False, 0, [])])]),
    ]
    for _ in range(ctx.scale(80, 3000)):
        cases.append(typegen.gen_type(rng, rng.choice([1, 2, 3, 4]), nprims, allow_zero=rng.random() < 0.5))
    # every subtree is a case of its own
    allc, seen = [], set()
    for t in cases:
        for s in typegen.subtrees(t):
            if repr(s) not in seen and s[0] not in ("p", "ptr"):
                seen.add(repr(s))
                allc.append(s)
    rc, mout, merr = vlib.sh([driver], input="\n".join("layout " + typegen.model_syntax(t) for t in allc) + "\n", timeout=900)
    ml = mout.split("\n")
    model = []
    for t, line in zip(allc, ml):
        m = re.match(r"nl=(-?\d+),(-?\d+) cl=(-?\d+),(-?\d+) noffs=(\S*) coffs=(\S*) assert=(\d) wf=(\d) acc=(\S*) inb=(\d)", line)
        if not m:
            ctx.violation("harness-run:layout-model", "harness", "model driver output not understood: %r" % line[:200], failing_input=False)
            return 0, 0, []
        li = lambda s: [int(x) for x in s.split(",")] if s else []
        model.append({"nl": (int(m.group(1)), int(m.group(2))), "cl": (int(m.group(3)), int(m.group(4))),
                      "noffs": li(m.group(5)), "coffs": li(m.group(6)), "assert": m.group(7) == "1", "wf": m.group(8) == "1",
                      "inb": m.group(10) == "1"})
    wf_cases = [(t, m) for t, m in zip(allc, model) if m["wf"]]
    n_oracle = n_mm = n_ok = 0
    n_eq_false = [0]
    batch = 60
    compilers = ["gcc", "clang"] if ctx.thorough else ["gcc"]
    jobs = []
    for bi in range(0, len(wf_cases), batch):
        for cc in compilers:
            jobs.append((bi, cc, ()))
    # one batch also under the sanitizers (record/array equality reads) and one with clang in quick
    if wf_cases:
        jobs.append((0, "gcc", tuple(SAN)))
        if not ctx.thorough:
            jobs.append((0, "clang", ()))
    if ctx.thorough:
        for bi in range(0, len(wf_cases), batch * 4):
            jobs.append((bi, "clang", tuple(SAN)))

    def check_batch(bi, cc, extra, chunk, depth=0):
        nonlocal n_oracle, n_mm, n_ok
        tag = "%d-%s-%s-%d" % (bi, cc, "san" if extra else "plain", depth)
        rc, o, e, f = run_layout_program(ctx, [t for t, _ in chunk], prim_names, tag, cc, extra)
        san_err = "runtime error" in e or "AddressSanitizer" in e
        if rc != 0 or san_err:
            if len(chunk) > 1:
                h = len(chunk) // 2
                check_batch(bi, cc, extra, chunk[:h], depth * 2 + 1)
                check_batch(bi, cc, extra, chunk[h:], depth * 2 + 2)
                return
            t, m = chunk[0]
            n_oracle += 1
            if n_oracle <= 5:
                ctx.violation("layout:%s:%s" % (cc, typegen.model_syntax(t)), "oracle",
                              "program using type %s is accepted by the compiler but %s (%s%s)" %
                              (typegen.model_syntax(t), "the emitted C is rejected / fails" if rc else "the sanitizer reports an error", cc, " sanitized" if extra else ""),
                              detail={"type": typegen.model_syntax(t), "model": m, "stderr": e[-1500:], "program": vlib.read(f)[:3000],
                                      "replay": "nelua --cc %s %s <program>" % (cc, " ".join(extra))})
            return
        nn, cc_ = parse_layout_out(o)
        for i, (t, m) in enumerate(chunk):
            if i not in nn or i not in cc_:
                ctx.violation("harness-run:layout-output", "harness", "probe output incomplete for case %d" % i, failing_input=False)
                return
            ns, na, same, noffs = nn[i]
            cs, ca, coffs = cc_[i]
            # (the value of v == w is not part of this property: a union compared by memcmp over padding bytes
            #  may legitimately differ; the comparison is executed for the sanitizers only)
            n_eq_false[0] += same != "true"
            impl_agree = (ns == cs) and (ns == 0 or na == ca) and noffs == coffs
            if not impl_agree:
                n_oracle += 1
                if n_oracle <= 5:
                    ctx.violation("layout:%s:%s" % (cc, typegen.model_syntax(t)), "oracle",
                                  "type %s: compiler says size %d align %d offsets %s, %s says %d/%d %s (v==w: %s)" %
                                  (typegen.model_syntax(t), ns, na, noffs, cc, cs, ca, coffs, same),
                                  detail={"type": typegen.model_syntax(t), "model": m})
            elif (ns, na) != m["nl"] or (cs, ca) != m["cl"] or noffs != m["noffs"] or coffs != m["coffs"]:
                n_mm += 1
                if n_mm <= 3:
                    ctx.violation("model-mismatch:layout", "correspondence",
                                  "type %s: compiler %s/%s, C %s/%s, model nl %s %s cl %s %s" %
                                  (typegen.model_syntax(t), (ns, na), noffs, (cs, ca), coffs, m["nl"], m["noffs"], m["cl"], m["coffs"]),
                                  detail={"no_longer_checks": "correspondence stream C03/layout"}, failing_input=False)
            else:
                n_ok += 1

    for bi, cc, extra in jobs:
        check_batch(bi, cc, extra, wf_cases[bi:bi + batch])
    # outside the domain of C03_layout_agrees (wfb = false): the model must still predict both sides exactly
    out_cases = [(t, m) for t, m in zip(allc, model) if not m["wf"]]
    zt = []
    for _ in range(ctx.scale(25, 400)):
        t = typegen.gen_type(rng, rng.choice([1, 2, 3]), nprims, allow_zero=True)
        zt += [s for s in typegen.subtrees(t) if s[0] not in ("p", "ptr")]
    rc, mout, merr = vlib.sh([driver], input="\n".join("layout " + typegen.model_syntax(t) for t in zt) + "\n", timeout=900)
    n_pred = 0
    for t, line in zip(zt, mout.split("\n")):
        m = re.match(r"nl=(-?\d+),(-?\d+) cl=(-?\d+),(-?\d+) noffs=(\S*) coffs=(\S*) assert=(\d) wf=(\d)", line)
        if m and m.group(8) == "0":
            li = lambda s: [int(x) for x in s.split(",")] if s else []
            out_cases.append((t, {"nl": (int(m.group(1)), int(m.group(2))), "cl": (int(m.group(3)), int(m.group(4))),
                                  "noffs": li(m.group(5)), "coffs": li(m.group(6)), "assert": m.group(7) == "1"}))
    out_cases = out_cases[:ctx.scale(60, 600)]
    if out_cases:
        rc, o, e, f = run_layout_program(ctx, [t for t, _ in out_cases], prim_names, "outside", "gcc", ("-P", "nocstaticassert"))
        if rc == 0:
            nn, cc_ = parse_layout_out(o)
            for i, (t, m) in enumerate(out_cases):
                if i in nn and i in cc_:
                    ns, na, same, noffs = nn[i]
                    cs, ca, coffs = cc_[i]
                    if (ns, na) != m["nl"] or (cs, ca) != m["cl"] or noffs != m["noffs"] or coffs != m["coffs"]:
                        n_mm += 1
                        if n_mm <= 3:
                            ctx.violation("model-mismatch:layout-outside", "correspondence",
                                          "type %s (outside the partial theorem's domain): compiler %s/%s, C %s/%s, model nl %s %s cl %s %s" %
                                          (typegen.model_syntax(t), (ns, na), noffs, (cs, ca), coffs, m["nl"], m["noffs"], m["cl"], m["coffs"]),
                                          detail={"no_longer_checks": "correspondence stream C03/layout-outside"}, failing_input=False)
                    elif not m["assert"]:
                        n_pred += 1
        else:
            ctx.note("outside-domain layout batch did not build: %s" % e[-300:])
    cov["layout"] = {"type_trees": len(allc), "well_formed": len(wf_cases), "outside_domain": len(out_cases),
                     "programs": len(jobs), "agree": n_ok, "oracle_failures": n_oracle, "model_mismatches": n_mm,
                     "static_assert_failures_predicted_outside_domain": n_pred, "equal_zero_values_compare_false": n_eq_false[0],
                     "zero_literal_through_empty_member": sum(1 for t, _ in wf_cases if typegen.zero_literal_bad(t)),
                     "kinds": {k: sum(1 for t in allc if t[0] == k) for k in ("rec", "uni", "arr")}}
    return len(allc) + len(out_cases), len(seen), [typegen.model_syntax(t) for t in allc[:2]]


def lattice(bits, signed):
    lo, hi = (-(1 << (bits - 1)), (1 << (bits - 1)) - 1) if signed else (0, (1 << bits) - 1)
    L = {lo, lo + 1, hi, hi - 1, 0, 1, 2, 3, 7, hi // 2, hi // 2 + 1}
    if signed:
        L |= {-1, -2, -3, -7, lo // 2}
    return sorted(x for x in L if lo <= x <= hi)


# exact operands on which the emitted C executes undefined behaviour in the DEFAULT build (known_findings/C03.json):
# `///`, `%%%` on any integers and `//`, `%` on operands that cannot be negative are bare C `/` and `%`
# (cbuiltins.operators.tdiv / tmod / idiv / mod -> operator_binary_op); (type index, op, a, b)
W_TDIV = [
    ("ub: operators.tdiv int64: -9223372036854775808 /// -1 (run-time operands, default build)", (3, 12, -(1 << 63), -1)),
    ("ub: operators.tmod int64: -9223372036854775808 %%% -1 (run-time operands, default build)", (3, 13, -(1 << 63), -1)),
    ("ub: operators.tdiv int64: 5 /// 0 (run-time operands, default build)", (3, 12, 5, 0)),
    ("ub: operators.tmod int64: 5 %%% 0 (run-time operands, default build)", (3, 13, 5, 0)),
    ("ub: operators.idiv uint64: 5 // 0 (run-time operands, default build)", (7, 4, 5, 0)),
    ("ub: operators.mod uint64: 5 % 0 (run-time operands, default build)", (7, 5, 5, 0)),
]


def stream_helpers(ctx, driver, cov):
    rng = ctx.rng
    src = os.path.join(vlib.VERIF, "harness", ID, "ubdrv.nelua")
    cases = []
    for ti, (tn, bits) in enumerate(zip(TYPES, BITS)):
        signed = tn[0] == "i"
        L = lattice(bits, signed)
        counts = sorted({0, 1, bits - 1, bits, bits + 1, -1, -(bits - 1), -bits, -(bits + 1), 2 * bits, -(1 << (bits - 1)), (1 << (bits - 1)) - 1, 5, -5,
                         256, 257, -257, 1 << 32, (1 << 32) + 1, -(1 << 32), (1 << 63) - 1, -(1 << 63)})
        for op, name in OPS.items():
            if name in ("shl", "shr", "asr"):
                for a in L:
                    for c in counts:
                        cases.append((ti, op, a, c))
            elif name in ("unm", "bnot"):
                for a in L:
                    cases.append((ti, op, a, 0))
            else:
                for a in L:
                    for b in L:             # zero divisors included: the checked helpers stop, the bare operators are undefined
                        cases.append((ti, op, a, b))
        for _ in range(ctx.scale(150, 4000)):
            lo, hi = (-(1 << (bits - 1)), (1 << (bits - 1)) - 1) if signed else (0, (1 << bits) - 1)
            op = rng.choice(list(OPS))
            a, b = rng.randint(lo, hi), rng.randint(lo, hi)
            if OPS[op] in ("shl", "shr", "asr"):
                b = rng.choice([rng.randint(-bits - 3, bits + 3), rng.randint(-300, 300), rng.randint(-(1 << 63), (1 << 63) - 1)])
            if OPS[op] in ("idiv", "imod", "tdiv", "tmod") and rng.random() < .3:
                b = rng.choice([0, -1, 1, 2, -2]) if signed else rng.choice([0, 1, 2, 3])
            cases.append((ti, op, a, b))
    for _, w in W_TDIV:
        if w not in cases:
            cases.append(w)
    # mixed signedness comparisons (nelua_lt_/nelua_eq_ helpers): int64 against uint64, type index 9 of the probe
    S64, U64L = lattice(64, True), lattice(64, False)
    mixed = [(8, 1, a, b) for a in S64 for b in U64L] + [(8, 2, a, b) for a in S64 for b in U64L]
    mixed += [(8, rng.choice([1, 2]), rng.randint(-(1 << 63), (1 << 63) - 1), rng.getrandbits(64)) for _ in range(ctx.scale(100, 2000))]

    def to64(v):
        return v - M64 if v >= (1 << 63) else v

    def mlines(c):
        ti, op, a, b = c
        if ti == 8:
            return ["helper %s fwrapv i64 %s %s" % (n, hexs(a), hexs(b)) for n in ("ltsu", "ltus", "eqsu")]
        tn, name = TYPES[ti], OPS[op]
        signed = tn[0] == "i"
        mode = "gnu" if name == "asr" else "fwrapv"
        if name == "cmp":
            return ["helper %s fwrapv %s %s %s" % (n, tn, hexs(a), hexs(b)) for n in ("lt", "le", "eq")]
        if name in ("idiv", "imod") and not signed:
            name = {"idiv": "cdiv", "imod": "crem"}[name]
        # (shift counts travel as int64: the helpers take the count as int64 since /repo 2cffa35)
        return ["helper %s %s %s %s %s" % (name, mode, tn, hexs(a), hexs(b))]

    def iline(c):
        return "%d %d %d %d" % (c[0] + 1, c[1], to64(c[2]), to64(c[3]))

    def expected(c, ms):
        """text the probe prints, from the model outcomes (all values)"""
        def val(m):
            return -int(m[3:], 16) if m[2] == "-" else int(m[2:], 16)
        ti, op, a, b = c
        tf = lambda x: "true" if x else "false"
        if ti == 8:
            lt_su, lt_us, eq_su = [val(m) == 1 for m in ms]
            # the three modelled helpers; the other comparisons are derived from them by the generator (b < a etc.) and
            # are checked against the mathematical order of the two operands
            if op == 1:     # a: int64, b: uint64
                return "\t".join(tf(x) for x in (lt_su, a <= b, eq_su, a > b, a >= b, a != b)), (lt_su == (a < b) and eq_su == (a == b))
            return "\t".join(tf(x) for x in (lt_us, b <= a, eq_su, b > a, b >= a, b != a)), (lt_us == (b < a) and eq_su == (a == b))
        if OPS[op] == "cmp":
            return "\t".join(tf(val(m) == 1) for m in ms), True
        return str(val(ms[0])), True

    allc = cases + mixed
    flat = []
    for c in allc:
        flat += mlines(c)
    rc, mout, merr = vlib.sh([driver], input="\n".join(flat) + "\n", timeout=900)
    mall = mout.split("\n")
    ml, k = [], 0
    for c in allc:
        n = len(mlines(c))
        ml.append(mall[k:k + n])
        k += n
    n_oracle = n_mm = 0
    runs = {}
    stat = {"values": 0, "checked_stops": 0, "undefined_predicted_by_refuted_theorems": 0, "undefined_not_run": 0}
    defined = [(c, m) for c, m in zip(allc, ml) if all(x.startswith("v:") for x in m)]
    stops = [(c, m) for c, m in zip(allc, ml) if m == ["panic"]]
    undefined = [(c, m) for c, m in zip(allc, ml) if m == ["ub"]]
    other = [(c, m) for c, m in zip(allc, ml) if (c, m) not in defined and m not in (["panic"], ["ub"])]
    for c, m in other[:3]:
        ctx.violation("harness-run:helpers-model", "harness", "model output for %s: %r" % (c, m), failing_input=False)
    wit = dict((w, key) for key, w in W_TDIV)
    # undefined cases are run one per process: the designated witnesses always, a sample of the others
    und_sel = [x for x in undefined if x[0] in wit]
    rest = [x for x in undefined if x[0] not in wit]
    und_sel += rest if ctx.thorough else rng.sample(rest, min(len(rest), 60))
    stat["undefined_not_run"] = len(undefined) - len(und_sel)
    itext = "\n".join(iline(c) for c, _ in defined) + "\n"
    env = {"UBSAN_OPTIONS": "print_stacktrace=0", "ASAN_OPTIONS": "detect_leaks=0"}
    for cc in ["gcc", "clang"]:
        try:
            exe, _ = build(ctx, src, "ubdrv", SAN, cc)
        except RuntimeError as ex:
            ctx.violation("harness-run:ubdrv:%s" % cc, "harness", str(ex)[:600], failing_input=False)
            continue
        rc, o, e = vlib.sh([exe], input=itext, timeout=900, env=env)
        ol = o.split("\n")
        runs[cc] = {"rc": rc, "ubsan_reports": e.count("runtime error")}
        if "runtime error" in e or "AddressSanitizer" in e or rc != 0:
            # attribute: rerun the cases one type/op group at a time
            groups = {}
            for c, m in defined:
                groups.setdefault((c[0], c[1]), []).append(c)
            for (ti, op), g in sorted(groups.items()):
                rcg, og, eg = vlib.sh([exe], input="\n".join(iline(c) for c in g) + "\n", timeout=300, env=env)
                if "runtime error" in eg or rcg != 0:
                    bad = None
                    for c in g:
                        r1 = vlib.sh([exe], input=iline(c) + "\n", timeout=60, env=env)
                        if "runtime error" in r1[2] or r1[0] != 0:
                            bad = (c, r1[2])
                            break
                    if bad:
                        n_oracle += 1
                        c, msg = bad
                        tn = TYPES[c[0]] if c[0] < 8 else "i64/u64"
                        on = OPS[c[1]] if c[0] < 8 else "mixed-compare-%d" % c[1]
                        ctx.violation("ub:%s:%s %s %d %d" % (cc, tn, on, c[2], c[3]), "oracle",
                                      "%s %s on %s operands %d, %d executes C undefined behaviour under %s (the model says it is defined): %s" %
                                      (on, "helper/operator", tn, c[2], c[3], cc, msg.strip().split("\n")[0][:300]),
                                      detail={"model": ml[allc.index(c)], "stderr": msg[-800:],
                                              "replay": "echo '%s' | <harness/C03/ubdrv.nelua built with --cc %s --sanitize>" % (iline(c), cc)})
            continue
        for (c, m), line in zip(defined, ol):
            stat["values"] += 1
            exp, model_is_math = expected(c, m)
            if line.strip() != exp or not model_is_math:
                n_mm += 1
                if n_mm <= 3:
                    ctx.violation("model-mismatch:helper-%s" % (OPS.get(c[1]) if c[0] < 8 else "mixed-compare"), "correspondence",
                                  "probe line `%s`: model %s (expected output %r), implementation (%s) %r" % (iline(c), m, exp, cc, line.strip()),
                                  detail={"no_longer_checks": "correspondence stream C03/helpers"}, failing_input=False)

        def run1(cm):
            return vlib.sh([exe], input=iline(cm[0]) + "\n", timeout=60, env=env)
        with cf.ThreadPoolExecutor(max_workers=4) as ex:
            # the model says the check stops the program: a Nelua run-time error, no sanitizer report
            sel = stops if ctx.thorough else rng.sample(stops, min(len(stops), 80))
            for (c, m), r in zip(sel, ex.map(run1, sel)):
                stat["checked_stops"] += 1
                # (a --sanitize build reports nelua_abort's deliberate `unreachable` after the message: not a defect)
                noise = [x for x in r[2].split("\n") if "runtime error" in x and "unreachable program point" not in x]
                if r[0] == 0 or not r[2].startswith("division by zero") or noise:
                    n_mm += 1
                    if n_mm <= 3:
                        ctx.violation("model-mismatch:helper-%s" % OPS[c[1]], "correspondence",
                                      "probe line `%s` (%s): the model says the checked helper stops the program; rc %s stderr %r" % (iline(c), cc, r[0], r[2][-200:]),
                                      detail={"no_longer_checks": "correspondence stream C03/helpers"}, failing_input=False)
            # the model says the emitted C is undefined: the sanitizer must report it (known findings: the designated
            # witnesses by exact key; the others are the same defect as predicted by the model of the unchanged code:
            # theorems C03_tdiv_no_ub_refuted / C03_udiv_no_ub_refuted)
            for (c, m), r in zip(und_sel, ex.map(run1, und_sel)):
                reported = "runtime error" in r[2]
                if not reported:
                    n_mm += 1
                    if n_mm <= 3:
                        ctx.violation("model-mismatch:helper-%s" % OPS[c[1]], "correspondence",
                                      "probe line `%s` (%s): the model says undefined behaviour, the sanitizers are silent (rc %s, stdout %r, stderr %r)" % (iline(c), cc, r[0], r[1][:60], r[2][-200:]),
                                      detail={"no_longer_checks": "correspondence stream C03/helpers"}, failing_input=False)
                elif c in wit:
                    if cc == "gcc":
                        ctx.violation(wit[c], "oracle", "%s: %s" % (wit[c], r[2].strip().split("\n")[0][:300]),
                                      detail={"replay": "echo '%s' | <harness/C03/ubdrv.nelua built with --sanitize>" % iline(c), "model": m})
                else:
                    stat["undefined_predicted_by_refuted_theorems"] += 1
    # the unchecked variants (-P nochecks): signed floor division / modulo with a non-zero divisor, under the sanitizers
    nc = [c for c in cases if c[0] < 4 and OPS[c[1]] in ("idiv", "imod") and c[3] != 0]
    try:
        exe, _ = build(ctx, src, "ubdrv-nochecks", SAN + ["-P", "nochecks"], "gcc")
        rc, mo, me = vlib.sh([driver], input="\n".join("helper %s_nc fwrapv %s %s %s" % (OPS[c[1]], TYPES[c[0]], hexs(c[2]), hexs(c[3])) for c in nc) + "\n", timeout=600)
        rc, o, e = vlib.sh([exe], input="\n".join(iline(c) for c in nc) + "\n", timeout=600, env=env)
        runs["gcc -P nochecks"] = {"rc": rc, "ubsan_reports": e.count("runtime error"), "cases": len(nc)}
        if rc != 0 or "runtime error" in e or "AddressSanitizer" in e:
            n_oracle += 1
            ctx.violation("ub:gcc:nochecks-div-helpers", "oracle", "unchecked nelua_idiv_/nelua_imod_ with a non-zero divisor: %s" % e.strip().split("\n")[0][:300],
                          detail={"stderr": e[-800:], "replay": "<harness/C03/ubdrv.nelua built with --sanitize -P nochecks> on the lattice of the helpers stream"})
        else:
            for c, m, line in zip(nc, mo.split("\n"), o.split("\n")):
                if not m.startswith("v:") or line.strip() != str(-int(m[3:], 16) if m[2] == "-" else int(m[2:], 16)):
                    n_mm += 1
                    if n_mm <= 3:
                        ctx.violation("model-mismatch:helper-%s" % OPS[c[1]], "correspondence", "probe line `%s` [-P nochecks]: model %s, implementation %r" % (iline(c), m, line.strip()),
                                      detail={"no_longer_checks": "correspondence stream C03/helpers"}, failing_input=False)
    except RuntimeError as ex:
        ctx.violation("harness-run:ubdrv-nochecks", "harness", str(ex)[:600], failing_input=False)
    cov["helpers"] = {"cases": len(allc), "defined": len(defined), "stops": len(stops), "undefined": len(undefined), "runs": runs,
                      "oracle_failures": n_oracle, "model_mismatches": n_mm, **stat}
    return len(allc), len(set(allc)), [iline(c) for c in allc[:2]]


NTYPES = ["int8", "int16", "int32", "int64", "uint8", "uint16", "uint32", "uint64"]
SHIFT_OPS = [("shlk", "<<"), ("shrk", ">>"), ("asrk", ">>>")]


def const_count_lattice(bits):
    return sorted({0, 1, bits - 1, bits, bits + 1, 31, 32, 33, 63, 64, 65, -1, -bits, 7, 8, 15, 16, 40})


def constshift_program():
    """every operator that has a compile-time-constant fast path (operators.shl/shr/asr), every left operand type,
    literal counts on the lattice: the left operand is a run-time value, the count a literal constant"""
    lines = ["local function scanf(format: cstring, ...: cvarargs): cint <cimport, nodecl, cinclude '<stdio.h>'> end"]
    cases = []
    for ti, (tn, bits) in enumerate(zip(NTYPES, BITS)):
        lines.append("local function run_%s(id: integer, a0: integer)" % tn)
        lines.append("  ## context:push_forked_pragmas{nochecks=true}")
        lines.append("  local a: %s = (@%s)(a0)" % (tn, tn))
        lines.append("  ## context:pop_pragmas()")
        first = True
        for opname, optext in SHIFT_OPS:
            for n in const_count_lattice(bits):
                cid = len(cases)
                cases.append((ti, opname, n))
                lines.append("  %s id == %d then print(a %s %d)" % ("if" if first else "elseif", cid, optext, n))
                first = False
        lines.append("  end")
        lines.append("end")
    lines.append("local id: clonglong, a: clonglong")
    lines.append("while scanf('%lld %lld', &id, &a) == 2 do")
    lo = 0
    for ti, tn in enumerate(NTYPES):
        hi = max(i for i, c in enumerate(cases) if c[0] == ti)
        lines.append("  if id >= %d and id <= %d then run_%s(id, a) end" % (lo, hi, tn))
        lo = hi + 1
    lines.append("end")
    return "\n".join(lines) + "\n", cases


def stream_constshift(ctx, driver, cov):
    text, kinds = constshift_program()
    d = os.path.join(ctx.work, "constshift")
    os.makedirs(d, exist_ok=True)
    src = os.path.join(d, "constshift.nelua")
    vlib.write_if_changed(src, text)
    inputs = []
    for cid, (ti, opname, n) in enumerate(kinds):
        for a in lattice(BITS[ti], TYPES[ti][0] == "i"):
            inputs.append((cid, a))

    def to64(v):
        return v - M64 if v >= (1 << 63) else v
    mtext = "\n".join("helper %s %s %s %s %s" % (kinds[c][1], "gnu" if kinds[c][1] == "asrk" else "fwrapv", TYPES[kinds[c][0]], hexs(a), hexs(kinds[c][2]))
                      for c, a in inputs) + "\n"
    rc, mout, merr = vlib.sh([driver], input=mtext, timeout=600)
    ml = mout.split("\n")
    itext = "\n".join("%d %d" % (c, to64(a)) for c, a in inputs) + "\n"
    n_oracle = n_mm = 0
    runs = {}

    def name(c, a):
        ti, opname, n = kinds[c]
        return "%s: %s(%d) %s %d (literal count)" % (TYPES[ti], NTYPES[ti], a, dict(SHIFT_OPS)[opname], n)
    for cc in ("gcc", "clang"):
        try:
            exe, _ = build(ctx, src, "constshift", SAN, cc)
        except RuntimeError as ex:
            ctx.violation("constshift:%s:build" % cc, "oracle", "the literal-count shift probe is accepted but does not build with %s --sanitize: %s" % (cc, str(ex)[-400:]))
            continue
        rc, o, e = vlib.sh([exe], input=itext, timeout=600, env={"ASAN_OPTIONS": "detect_leaks=0"})
        runs[cc] = {"rc": rc, "ubsan_reports": e.count("runtime error")}
        ol = o.split("\n")
        if rc != 0 or "runtime error" in e or len(ol) < len(inputs):
            # find the first case that reports, one run per case
            for (c, a), m in zip(inputs, ml):
                r1 = vlib.sh([exe], input="%d %d\n" % (c, to64(a)), timeout=60, env={"ASAN_OPTIONS": "detect_leaks=0"})
                if r1[0] != 0 or "runtime error" in r1[2]:
                    n_oracle += 1
                    ctx.violation("constshift:%s:%s" % (cc, name(c, a)), "oracle",
                                  "%s executes C undefined behaviour under %s: %s (program prints %s, model %s)" %
                                  (name(c, a), cc, (r1[2].strip().split("\n") or [""])[0][:250], r1[1].strip(), m),
                                  detail={"stderr": r1[2][-800:], "replay": "echo '%d %d' | <constshift.nelua built with --cc %s --sanitize>; source: %s" % (c, to64(a), cc, src)})
                    break
            continue
        for (c, a), m, line in zip(inputs, ml, ol):
            try:
                iv = int(line)
            except ValueError:
                iv = line
            mv = (-int(m[3:], 16) if m[2] == "-" else int(m[2:], 16)) if m.startswith("v:") else m
            exp = lua_shift(kinds[c][1], a, kinds[c][2], BITS[kinds[c][0]], TYPES[kinds[c][0]][0] == "i")
            if iv != exp:
                n_oracle += 1
                if n_oracle <= 4:
                    ctx.violation("constshift:%s:%s" % (cc, name(c, a)), "oracle", "%s gives %s with %s, the shift of the wrapped operand is %s" % (name(c, a), iv, cc, exp))
            elif mv != iv:
                n_mm += 1
                if n_mm <= 3:
                    ctx.violation("model-mismatch:constshift", "correspondence", "%s: model %s, implementation (%s) %s" % (name(c, a), m, cc, iv),
                                  detail={"no_longer_checks": "correspondence stream C03/constshift"}, failing_input=False)
    cov["constshift"] = {"cases": len(inputs), "operators": [o for o, _ in SHIFT_OPS], "runs": runs, "oracle_failures": n_oracle, "model_mismatches": n_mm}
    return len(inputs)


def lua_shift(op, a, n, bits, signed):
    """the theorem's right-hand side: logical (arithmetic for >>>) shift of the operand wrapped to its type"""
    mask = (1 << bits) - 1
    u = a & mask

    def wrap(v):
        v &= mask
        return v - (1 << bits) if signed and v >> (bits - 1) else v
    if op == "asrk":
        if n >= 0:
            return wrap(a >> min(n, bits + 1)) if n < bits else (-1 if a < 0 else 0)
        return wrap(a << -n) if -n < bits else 0
    if op == "shrk":
        n = -n
    if n >= 0:
        return wrap(u << n) if n < bits else 0
    return wrap(u >> -n) if -n < bits else 0


def stream_narrow(ctx, driver, cov):
    src = os.path.join(vlib.VERIF, "harness", ID, "narrow.nelua")
    vals = [(12.0, 1), (-7.0, 1), (2.0 ** 62, 1), (-2.0 ** 63, 1), (3.0, 3), (255.0, 3), (2.0 ** 31 - 1, 2), (-2.0 ** 31, 2)]
    bad = [(1e30, 1, W_NARROW)]
    res = {}
    for cc in ["gcc", "clang"]:       # the clang finding is replayed in the quick tier too (one more probe build)
        exe, _ = build(ctx, src, "narrow", SAN, cc)
        for x, dest, in (vals if cc == "gcc" or ctx.thorough else []):
            bits = struct.unpack("<q", struct.pack("<d", x))[0]
            rc, o, e = vlib.sh([exe], input="%d %d\n" % (bits, dest), timeout=60)
            mo = vlib.sh([driver], input="narrowf %s 1 %s\n" % ({1: "i64", 2: "i32", 3: "u8"}[dest], double_parts(x)))[1].strip()
            ok = rc == 0 and "runtime error" not in e and mo == "v:" + hexs(int(x)) and o.strip() == str(int(x))
            res["%s:%r->%d" % (cc, x, dest)] = "ok" if ok else "rc=%d out=%r err=%r model=%s" % (rc, o, e[-200:], mo)
            if not ok:
                ctx.violation("narrow:%s:%r->%d" % (cc, x, dest), "oracle" if "runtime error" in e else "correspondence",
                              "in-range narrowing of %r: rc=%d stdout=%r stderr=%r model=%s" % (x, rc, o, e[-300:], mo),
                              failing_input="runtime error" in e)
        for x, dest, key in bad:
            bits = struct.unpack("<q", struct.pack("<d", x))[0]
            rc, o, e = vlib.sh([exe], input="%d %d\n" % (bits, dest), timeout=60)
            mo = vlib.sh([driver], input="narrowf i64 1 %s\n" % double_parts(x))[1].strip()
            res["%s:%r->%d" % (cc, x, dest)] = "ubsan" if "runtime error" in e else "silent"
            if "runtime error" in e.split("narrow casting")[0]:
                ctx.violation(key if cc == "gcc" else key + " [clang]", "oracle",
                              "`local i: integer = f` with f = %r: UBSan (%s): %s (model: %s)" % (x, cc, e.strip().split("\n")[0][:300], mo),
                              detail={"replay": "echo '%d 1' | <harness/C03/narrow.nelua built with --sanitize --cflags=-fsanitize=float-cast-overflow>" % bits})
            elif mo != "ub":
                ctx.violation("model-mismatch:narrow", "correspondence", "model %s for 1e30 but no UBSan report" % mo, failing_input=False)
    cov["narrow"] = res
    return len(vals) + len(bad)


def stream_eqprobe(ctx, cov):
    """string / record / array / union equality and copies with zero-initialised operands under ASan+UBSan"""
    res = {}
    for probe in ("eqprobe", "eqprobe_core"):
        _run_eqprobe(ctx, probe, res)
    cov["eqprobe"] = res
    return 90


def _run_eqprobe(ctx, probe, res):
    src = os.path.join(vlib.VERIF, "harness", ID, probe + ".nelua")
    outs = {}
    for cc in ("gcc", "clang"):
        try:
            exe, _ = build(ctx, src, probe, SAN, cc)
        except RuntimeError as ex:
            ctx.violation("%s:%s:build" % (probe, cc), "oracle", "harness/C03/%s.nelua is accepted but does not build with %s --sanitize: %s" % (probe, cc, str(ex)[-400:]),
                          detail={"replay": "nelua --cc %s --sanitize harness/C03/%s.nelua" % (cc, probe)})
            continue
        rc, o, e = vlib.sh([exe], timeout=120, env={"ASAN_OPTIONS": "detect_leaks=0"})
        outs[cc] = o
        res[probe + ":" + cc] = "rc=%d reports=%d" % (rc, e.count("runtime error") + e.count("AddressSanitizer"))
        if rc != 0 or "runtime error" in e or "AddressSanitizer" in e:
            first = next((x for x in e.split("\n") if "runtime error" in x or "ERROR" in x), e.strip().split("\n")[0] if e.strip() else "")
            done = [" ".join(x.split("\t")[:3]) for x in o.split("\n") if x]
            ctx.violation("%s:%s:after %s" % (probe, cc, done[-1] if done else "start"), "oracle",
                          "equality probe %s (%s --sanitize) reports: %s (last completed line: %s)" % (probe, cc, first[:300], done[-1] if done else None),
                          detail={"stderr": e[-1500:], "stdout_tail": o[-400:],
                                  "replay": "nelua --cc %s --sanitize harness/C03/%s.nelua" % (cc, probe)})
            continue
        for line in o.split("\n"):
            w = line.split("\t")
            if probe == "eqprobe":
                if w[0][:1] == "s" and len(w) == 6 and w[1:] != ["true", "true", "false", "0", "0"]:
                    ctx.violation("eqprobe:%s:%s" % (cc, w[0]), "oracle", "two empty strings compare unequal: %s" % line)
                if w[0][:1] == "h" and len(w) == 6 and w[1:] != ["false", "false", "true", "0", "5"]:
                    ctx.violation("eqprobe:%s:%s" % (cc, w[0]), "oracle", "empty string vs 'hello': %s" % line)
            else:
                if w[0] == "s" and w[3:] != ["true", "true", "false"]:
                    ctx.violation("eqprobe_core:%s:%s" % (cc, " ".join(w[:3])), "oracle", "two empty strings compare unequal: %s" % line)
                if w[0] == "h" and w[2:] != ["false", "false", "true", "false", "true"]:
                    ctx.violation("eqprobe_core:%s:%s" % (cc, " ".join(w[:2])), "oracle", "empty string vs 'hello' / '': %s" % line)
    if len(outs) == 2 and outs["gcc"] != outs["clang"]:
        ctx.violation("%s:gcc-vs-clang" % probe, "oracle", "equality probe %s prints different results with gcc and clang" % probe,
                      detail={"gcc": outs["gcc"][-600:], "clang": outs["clang"][-600:]})


def stream_witness_programs(ctx, cov):
    res = {}
    d = os.path.join(ctx.work, "witness")
    os.makedirs(d, exist_ok=True)
    for i, w in enumerate(WITNESS_PROGRAMS):
        key, src, expect = w[:3]
        cc = w[3] if len(w) > 3 else "gcc"
        extra = list(w[4]) if len(w) > 4 else []
        f = os.path.join(d, "w%d.nelua" % i)
        open(f, "w").write(src)
        rc, o, e = vlib.nelua(["--no-cache", "--cache-dir", os.path.join(d, "cache%d" % i), "--cc", cc] + extra + [f], timeout=120)
        ok = rc == 0 and o == expect and "runtime error" not in e and "AddressSanitizer" not in e
        if not ok and len(w) > 5 and w[5] == "reject_ok":
            ra = vlib.nelua(["--analyze", f], timeout=120)
            if ra[0] != 0 and re.search(r"%s:\d+:\d+: error:" % re.escape(os.path.basename(f)), ra[2]):
                res[key] = "rejected by the analyzer with a located error"
                continue
        res[key] = "ok" if ok else "fails"
        if not ok:
            ctx.violation(key, "oracle", "accepted program does not build/run: rc=%d %s" % (rc, " | ".join(x for x in e.strip().split("\n") if "error" in x)[:400] or ("stdout %r" % o[:200])),
                          detail={"source": src, "stderr": e[-1500:], "replay": "nelua <file with source>"})
    cov["witness_programs"] = res
    return len(WITNESS_PROGRAMS)


def stream_programs_sanitized(ctx, cov):
    """whole programs of the shared subset (the C01 generator: arithmetic, strings, records through methods, loops,
    functions, require) compiled with --sanitize: the build must be clean and the run free of sanitizer reports"""
    sys.path.insert(0, os.path.join(vlib.VERIF, "harness", "C01"))
    import random
    import progs
    from checks import C01
    d = os.path.join(ctx.work, "programs")
    os.makedirs(d, exist_ok=True)
    C01.write_modules(d)
    jobs = []
    for i in range(ctx.scale(8, 60)):
        seed = ctx.rng.getrandbits(40)
        n, l, st = progs.gen_program(random.Random(seed), ctx.rng.choice([12, 25, 40]), "modx" if ctx.rng.random() < .3 else None)
        f = os.path.join(d, "g%d.nelua" % i)
        open(f, "w").write(n)
        for cc in ["gcc"] + (["clang"] if ctx.thorough or i % 4 == 0 else []):
            jobs.append((seed, f, cc, n))

    def run(j):
        seed, f, cc, n = j
        return vlib.nelua(["--no-cache", "--cache-dir", f + ".cache-" + cc, "--cc", cc] + SAN + [f], cwd=d, timeout=300, max_out=64 * 1024 * 1024,     # (no address-space limit: ASan reserves its shadow)
                          env={"UBSAN_OPTIONS": "print_stacktrace=0", "ASAN_OPTIONS": "detect_leaks=0"})
    n_bad = n_skip = 0
    with cf.ThreadPoolExecutor(max_workers=4) as ex:
        for (seed, f, cc, n), (rc, o, e) in zip(jobs, ex.map(run, jobs)):
            if rc in (124, 125) or "OUTPUT LIMIT" in e:
                n_skip += 1
                continue
            if rc != 0 or "runtime error" in e or "AddressSanitizer" in e:
                n_bad += 1
                if n_bad <= 3:
                    lines = [x for x in e.split("\n") if "runtime error" in x or "error:" in x or "AddressSanitizer" in x]
                    ctx.violation("program-sanitized:seed:%d:%s" % (seed, cc), "oracle",
                                  "generated program (seed %d) built with --sanitize --cc %s: rc %s %s" % (seed, cc, rc, (lines or [e.strip()[-200:]])[0][:300]),
                                  detail={"source": n[:6000], "stderr": e[-1500:], "replay": "nelua --sanitize --cc %s <file with source>" % cc})
    cov["programs_sanitized"] = {"builds": len(jobs), "failures": n_bad, "skipped_resource_budget": n_skip}
    return len(jobs)


def correspond(ctx):
    driver = vlib.ocaml_build(ID)
    vlib.ensure_interp()
    scraped = gen(ctx)
    cov = {}
    n1, d1, s1 = stream_layout(ctx, driver, scraped, cov)
    n2, d2, s2 = stream_helpers(ctx, driver, cov)
    n3 = stream_narrow(ctx, driver, cov)
    n3 += stream_constshift(ctx, driver, cov)
    n4 = stream_witness_programs(ctx, cov)
    n4 += stream_eqprobe(ctx, cov)
    n4 += stream_programs_sanitized(ctx, cov)
    return {
        "evaluations": n1 + n2 + n3 + n4,
        "distinct_nontrivial": d1 + d2,
        "rule": "layout: hand-picked shapes + random type trees (depth <= 4, 32 primitives incl. 128-bit and long double, packed/aligned/empty), every composite subtree a case, compiled with gcc (and clang), one batch under ASan+UBSan; helpers: per-width lattice cross products (type limits, 0, +-1, counts around the width) + random, built with --sanitize by gcc and clang; non-trivial = distinct composite subtrees / distinct helper cases",
        "samples": s1 + s2,
        "distribution": cov,
        "traces_validated_against_impl": n1 + n2,
    }
