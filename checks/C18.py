"""C18 - coroutines follow the documented state machine and keep their stacks intact.

(T) mco_state / mco_result enums, MCO_DEFAULT_STORAGE_SIZE, MCO_ZERO_MEMORY, the result
    description strings, the status strings of coroutine.status, the panic messages of the
    coroutine.create wrapper and the order of minicoro.destroy / gc:unregister in
    coroutine.destroy (repaired in 1075c3a: destroy first, unregister on success) are scraped into Gen.v;
(C) the extracted model (coq/C18/Model.v) against the REAL coroutine library driven by the
    compiled schedule interpreter harness/C18/codriver.nelua on the same schedules; the
    property oracle is an independent reference state machine written from the documentation
    (harness/C18/oracle.py, strict reading: an invalid transition changes nothing).
No open finding: the destroy order (1075c3a) and the refused resume with arguments (6a782fc) are repaired; their
witness schedules are replayed as regression witnesses on every run."""
import concurrent.futures
import importlib.util
import os
import re
import vlib

ID = "C18"
ALLOWED_AXIOMS = []
TRUSTED_BASE = [
    "coqc 8.16.1 kernel (vm_compute used for refutation witnesses, non-vacuity examples and facts about scraped constants; no native_compute)",
    "no axioms: every theorem of coq/C18/Properties.v is 'Closed under the global context'",
    "translator checks/C18.py:gen (regex scrape of lib/detail/minicoro.nelua and lib/coroutine.nelua: both enums, storage size, MCO_ZERO_MEMORY, description strings, status strings, panic messages, unregister/destroy order, argument rollback of a refused resume, the size passed to gc:register in coroutine.create)",
    "extraction: Require Extraction + ExtrOcamlBasic only; Z/positive/nat/string stay Coq inductives; no Extract Constant of our own",
    "coq/C18/glue.ml (local copy of the needed part of ocaml/zutil.ml: the extracted model contains Coq's string type, which shadows OCaml's inside zutil.ml) + coq/C18/codriver.ml (script text -> model ops, model lines -> text; encodes typed values as little-endian bytes)",
    "harness/C18/codriver.nelua (schedule interpreter on the real coroutine library; nothing of coroutine.nelua / minicoro is re-implemented), harness/C18/oracle.py (reference semantics), gcc, the real Nelua compiler built from /repo/src",
    "modelled rather than verified: coroutine.nelua and the C functions of minicoro are mirrored by hand in coq/C18/Model.v; the context switch itself (assembly) and the intactness of suspended frames are outside the model and observed only through per-frame canaries",
]
THEOREM_CLASSES = {
    "C18_refines_spec": "main", "C18_refines_spec_history": "corollary", "C18_status_agrees_with_spec": "corollary",
    "C18_one_running": "main", "C18_main_running_iff": "corollary", "C18_normal_is_prev_chain": "main",
    "C18_idle_has_no_prev": "main", "C18_storage_within_capacity": "main", "C18_state_machine": "main",
    "C18_resume_transition": "main", "C18_yield_transition": "main", "C18_return_transition": "main",
    "C18_quiet_commands": "main", "C18_storage_frame": "main", "C18_storage_frame_run": "corollary",
    "C18_pop_effect": "main", "C18_dead_is_absorbing": "corollary", "C18_end_unwinds": "main",
    "C18_storage_lifo": "main", "C18_typed_roundtrip": "main", "C18_push_rollback": "main",
    "C18_resume_delivers_values": "main", "C18_yield_delivers_values": "main",
    "C18_body_receives_arguments": "main", "C18_body_return_delivers_values": "main",
    "C18_invalid_transitions": "main", "C18_error_unchanged": "main", "C18_registered_while_alive": "tripwire",
    "C18_destroy_behaviour": "main", "C18_refused_resume_unchanged": "corollary", "C18_gen_facts": "tripwire",
    "C18_destroy_order_needed": "refutation", "C18_resume_rollback_needed": "refutation",
}
UNPROVED = [
    "the context switch itself (_mco_switch, assembly) and 'local variables of every suspended frame are intact when it continues': no model; observed on every run through per-frame scalar canaries AND, in GC builds, through GC values (a `new`ed block with a finalizer, a concatenated string, a vector buffer) whose only reference is a local of the frame (level frames at every depth, the body functions themselves, the workers of `sub`), re-checked after every switch and at frame exit, with collections and allocation churn (`gc`, `sub`) in between; the finalizer reports a block collected while its frame is alive",
    "model = code: established by differential correspondence on generated schedules only (NSLOTS = 24, resume chains <= 24, frame depth <= 8 on the tested side; the theorems have no such bounds)",
    "the reference semantics Spec.v (stack of active resumes, suspended/dead flag, LIFO byte storage; written from the documentation) is refined by the model for EVERY command incl. printed lines (C18_refines_spec); three points of Spec.v are CODE-DEFINED, i.e. by definition what the code does and not an independent reading of the documentation: (1) the remainder of a multi-value coroutine.pop that fails midway (what was popped stays popped: 'the values may not be set'), (2) the order 'push the arguments, then check the state' of resume/yield with arguments (which error is reported when both the push and the state check would fail), (3) the panics of the typed wrapper (partial pops/pushes before 'failed to pop a coroutine body argument' / 'failed to push a coroutine body return'); storage is the byte list (no value-level typing); `sub`/`gc` are transcript-only in both; the older invariant/transition theorems are proved directly on the model, not re-derived from the spec",
    "GC_REGISTERS_WHOLE_CORO_BLOCK (the size expression passed to gc:register in coroutine.create is desc.coro_size) is a TRIPWIRE only: it enters one conjunct of C18_gen_facts and no other theorem; that the collector really scans the outermost frames of a coroutine is tested only (GC values owned by frames, finalizer signal, churn); likewise C18_registered_while_alive says nothing about gc.nelua",
    "DESTROY_UNREGISTERS_FIRST and RESUME_ROLLS_BACK_ARGS are used by the proofs through fact lemmas; C18_destroy_order_needed / C18_resume_rollback_needed show (witness by vm_compute) that the error-leaves-state-unchanged statements are false under the other policy of each flag",
    "no open finding: the two repaired defects (destroy order 1075c3a, refused resume with arguments 6a782fc) are modelled as repaired, under scraped flags with fact lemmas (C18_gen_facts), so a revert breaks proofs and their witness schedules (replayed on every run in every build) fail the strict reference; the single exclusion left in C18_error_unchanged is the documented multi-value coroutine.pop (next item)",
    "documented limit, not a finding: a coroutine.pop of several values that fails midway keeps what it popped ('the values may not be set', 'the user is responsible to always use the right types and push/pop order and count'): C18_pop_effect states it exactly; corpus/C18/multipop_partial.txt replays it",
    "GC lifecycle: only the registration flag is modelled (C18_registered_while_alive is a trip-wire for the repaired destroy order, it proves nothing about gc.nelua); `forget k` drops the only handle of a suspended/dead coroutine and collects (finalizer path coroutine_gc -> destroy -> gc:unregister): the model just removes the object; whether/when the collector finalizes it (conservative retention) is not modelled, the harness accepts 'gc.items shrinks by at most the number of forgotten coroutines, or stays' and no abort; `gc` and `sub` are identities on the model state (sub_lines is the expected transcript, not a model)",
    "never run against the implementation: MCO_INVALID_POINTER paths (NULL src of mco_push, NULL dest of mco_peek), the unregister-first branch of co_destroy and CPanic PANIC_UNREGISTER (pre-repair code, kept under the scraped flag), the out-of-fuel line of unwind (proved unreachable)",
    "not modelled: MCO_STACK_OVERFLOW, allocation failure (mmap), raw minicoro.yield/resume on a coroutine other than the running one, coroutine.spawn, coroutine.isyieldable of another handle, coroutine.wrap (TODO in the source)",
    "the enum VALUES of mco_state/mco_result are scraped but enter only NoDup facts (the model is by name; gen cross-checks the C enum against the Nelua binding)",
    "the oracle also drives the generators (schedules explore what the reference believes is reachable); the shrinker re-checks every candidate against the same strict reference",
    "the ASan build skips schedules that destroy/close/forget a coroutine suspended inside its body (stale shadow poison after munmap gives false positives); --release and ASan only in the thorough tier",
]
MANIFEST_ENTRY = {
    "text": "proof, partial: theorems over all command histories of an executable model of coroutine.nelua + minicoro: the model REFINES a reference semantics written from the documentation (Spec.v: stack of active resumes, per-coroutine suspended/dead flag and LIFO storage) for every command, same abstract state and same printed results (C18_refines_spec); moreover exactly one Running coroutine = current, Normal = the acyclic prev chain down to main, Suspended/Dead have no resumer; the documented transition of every operation (resume, yield, body return, destroy, quiet commands, failed calls) and Dead absorbing; LIFO byte storage within capacity with zeroed tail, storage frame (a command changes only the storage it addresses), typed push/pop round trip, all-or-nothing push, exact effect of a failing multi-value pop; values and typed body arguments/returns cross resume/yield unmodified; every failed call of the library returns the documented error and leaves the whole state unchanged, with the single documented exclusion of a multi-value coroutine.pop failing midway (C18_error_unchanged, C18_pop_effect); tripwires only: the GC registration flag/size (C18_registered_while_alive, GC_REGISTERS_WHOLE_CORO_BLOCK in C18_gen_facts); resting on differential testing only: that the model is the code (schedule-by-schedule correspondence of the extracted model and of an independent reference against the real library, gc/nogc/release/ASan builds), the context switch and intactness of suspended frames (canaries), the GC lifecycle of coroutines (finalizer path, stack scanning after failed transitions)",
    "note": "trusted: Coq kernel, regex scrapes into Gen.v, ExtrOcamlBasic extraction, coq/C18/codriver.ml + glue.ml, harness/C18/codriver.nelua, harness/C18/oracle.py, gcc; Spec.v itself (hand-written reading of the documentation, with three declared code-defined points; also extracted and compared with the implementation and with the model on every schedule); assumes zero-initialised coroutine memory, little-endian value layout, no stack overflow; lib/allocators/gc.nelua itself is property C10's model (here only the registration flag)",
    "technique": "machine-checked proof in Coq over an executable model + regenerated parameters + extracted-model/implementation correspondence on generated schedules with an independent reference oracle",
}
ASSUMPTIONS = [
    "the context switch (_mco_switch, assembly/ucontext) transfers control to exactly the coroutine selected by _mco_prepare_jumpin/_mco_prepare_jumpout and preserves every frame (sampled through canaries)",
    "coroutine memory returned by mmap/calloc is zero-initialised (initial storage buffer)",
    "value sizes passed to mco_push/mco_pop are the sizes of Nelua types (far below 2^64 - storage size: no size_t wrap in bytes_stored + len)",
    "no coroutine stack overflow (MCO_STACK_OVERFLOW is outside the model), mmap does not fail",
    "use of a handle after a successful destroy is a precondition violation and is never generated",
    "little-endian object representation of int64/int32/byte (x86-64)",
    "correspondence is differential testing over generated schedules, not a proof that model = code",
]

HDIR = os.path.join(vlib.VERIF, "harness", ID)
HARNESS = os.path.join(HDIR, "codriver.nelua")


# ---------------------------------------------------------------------------- gen
def _coq_str(s):
    return '"' + s.replace('"', '""') + '"'


def strip_nelua_comments(src):
    """remove `--[=*[ ... ]=*]` and `-- ... <eol>` comments of Nelua/Lua source; string literals ('..', "..", [=*[..]=*]) are
    copied untouched, so that a commented-out old line can never satisfy a scrape (preprocessor `##` lines are code)"""
    out = []
    i, n = 0, len(src)
    while i < n:
        c = src[i]
        if src.startswith("--", i):
            m = re.match(r"--\[(=*)\[", src[i:])
            if m:
                end = src.find("]" + m.group(1) + "]", i + len(m.group(0)))
                j = n if end < 0 else end + len(m.group(1)) + 2
                out.append("\n" * src.count("\n", i, j))
                i = j
            else:
                j = src.find("\n", i)
                i = n if j < 0 else j
        elif c in "'\"":
            j = i + 1
            while j < n and src[j] != c and src[j] != "\n":
                j += 2 if src[j] == "\\" else 1
            out.append(src[i:j + 1])
            i = j + 1
        elif c == "[" and re.match(r"\[(=*)\[", src[i:]):
            m = re.match(r"\[(=*)\[", src[i:])
            end = src.find("]" + m.group(1) + "]", i + len(m.group(0)))
            j = n if end < 0 else end + len(m.group(1)) + 2
            out.append(src[i:j])
            i = j
        else:
            out.append(c)
            i += 1
    return "".join(out)


def strip_c_comments(src):
    """remove /* ... */ and // ... comments of the C code embedded in minicoro.nelua (string literals untouched)"""
    def rep(m):
        t = m.group(0)
        return t if t.startswith('"') else "\n" * t.count("\n")
    return re.sub(r'"(?:\\.|[^"\\\n])*"|/\*.*?\*/|//[^\n]*', rep, src, flags=re.S)


def _c_enum(src, name):
    m = re.search(r"typedef\s+enum\s+%s\s*\{(.*?)\}\s*%s\s*;" % (name, name), src, re.S)
    if not m:
        raise RuntimeError("cannot find the C enum %s in minicoro.nelua" % name)
    body = re.sub(r"/\*.*?\*/", "", m.group(1), flags=re.S)
    out = []
    nxt = 0
    for ent in body.split(","):
        ent = ent.strip()
        if not ent:
            continue
        mm = re.match(r"^([A-Z_0-9]+)\s*(?:=\s*(\d+))?$", ent)
        if not mm:
            raise RuntimeError("cannot parse enumerator %r of %s" % (ent, name))
        v = int(mm.group(2)) if mm.group(2) else nxt
        out.append((mm.group(1), v))
        nxt = v + 1
    if not out:
        raise RuntimeError("enum %s is empty" % name)
    return out


def _nelua_enum(src, name):
    m = re.search(r"local\s+minicoro\.%s\s*:\s*type[^\n]*@enum\(cint\)\{(.*?)\}" % name, src, re.S)
    if not m:
        raise RuntimeError("cannot find the Nelua binding enum minicoro.%s" % name)
    out = re.findall(r"([A-Z_0-9]+)\s*=\s*(\d+)", m.group(1))
    if not out:
        raise RuntimeError("binding enum minicoro.%s is empty" % name)
    return [(n, int(v)) for n, v in out]


def gen(ctx):
    # comments are removed first: a commented-out line must not satisfy (or hide) a scrape
    mc_raw = vlib.repo_read("lib/detail/minicoro.nelua")
    mc = strip_c_comments(mc_raw)                       # the C library lives in a long string of this file
    co = strip_nelua_comments(vlib.repo_read("lib/coroutine.nelua"))
    gcsrc = strip_nelua_comments(vlib.repo_read("lib/allocators/gc.nelua"))
    out = {}
    states = _c_enum(mc, "mco_state")
    results = _c_enum(mc, "mco_result")
    if states != _nelua_enum(mc, "State"):
        raise RuntimeError("mco_state: the C enum and the Nelua binding disagree: %s vs %s" % (states, _nelua_enum(mc, "State")))
    if results != _nelua_enum(mc, "Result"):
        raise RuntimeError("mco_result: the C enum and the Nelua binding disagree")
    out["mco_state"] = states
    out["mco_result"] = results
    # storage size: the default, unless the heading emitted by the binding overrides it
    heading = re.search(r"local minicoro_heading = \[==\[(.*?)\]==\]", mc, re.S)
    if not heading:
        raise RuntimeError("cannot find minicoro_heading")
    heading = heading.group(1)
    m = re.search(r"#define\s+MCO_DEFAULT_STORAGE_SIZE\s+(\d+)", heading) or \
        re.search(r"#ifndef MCO_DEFAULT_STORAGE_SIZE\s*\n\s*#define\s+MCO_DEFAULT_STORAGE_SIZE\s+(\d+)", mc)
    if not m:
        raise RuntimeError("cannot find MCO_DEFAULT_STORAGE_SIZE")
    out["MCO_DEFAULT_STORAGE_SIZE"] = int(m.group(1))
    if not re.search(r"desc\.storage_size\s*=\s*MCO_DEFAULT_STORAGE_SIZE\s*;", mc):
        raise RuntimeError("mco_desc_init no longer sets storage_size = MCO_DEFAULT_STORAGE_SIZE")
    if not re.search(r"#ifdef MCO_ZERO_MEMORY\s*(?:/\*.*?\*/\s*)?memset\(&co->storage\[bytes_stored\], 0, len\);", mc, re.S):
        raise RuntimeError("cannot find the MCO_ZERO_MEMORY memset of mco_pop")
    out["MCO_ZERO_MEMORY"] = bool(re.search(r"^#define\s+MCO_ZERO_MEMORY\b", heading, re.M))
    # result descriptions
    m = re.search(r"const char\*\s*mco_result_description\(mco_result res\)\s*\{(.*?)\n\}", mc, re.S)
    if not m:
        raise RuntimeError("cannot find mco_result_description")
    body = m.group(1)
    descs = re.findall(r'case\s+([A-Z_0-9]+)\s*:\s*return\s+"([^"]*)"\s*;', body)
    mdef = re.search(r'\}\s*return\s+"([^"]*)"\s*;', body)
    if not descs or not mdef:
        raise RuntimeError("cannot parse mco_result_description")
    out["descriptions"] = descs
    out["description_default"] = mdef.group(1)
    # coroutine.status
    m = re.search(r"function coroutine\.status\(co: coroutine\): string(.*?)\nend\n", co, re.S)
    if not m:
        raise RuntimeError("cannot find coroutine.status")
    sb = m.group(1)
    mnil = re.search(r"if co == nilptr then\s*return '(\w+)'", sb)
    mmain = re.search(r"elseif co == &main_coro then[^\n]*\n\s*if minicoro\.running\(\) == nilptr then\s*return '(\w+)'\s*else\s*return '(\w+)'\s*end", sb)
    chain = re.findall(r"status == minicoro\.State\.([A-Z_]+) then\s*return '(\w+)'", sb)
    melse = re.search(r"return '\w+'\s*else\s*return '(\w+)'\s*end\s*$", sb.strip())
    if not (mnil and mmain and chain and melse):
        raise RuntimeError("cannot parse coroutine.status (nil=%s main=%s chain=%s else=%s)" % (bool(mnil), bool(mmain), chain, bool(melse)))
    out["status_nil"] = mnil.group(1)
    out["status_main"] = [mmain.group(1), mmain.group(2)]
    out["status_of_state"] = chain
    out["status_else"] = melse.group(1)
    # isyieldable / running
    if not re.search(r"function coroutine\.isyieldable\(co: coroutine\): boolean\s*return co ~= nilptr and co ~= &main_coro", co):
        raise RuntimeError("cannot find the body of coroutine.isyieldable")
    # wrapper panics
    mp1 = re.search(r"minicoro\.pop\(co, &#\|argname\|#, [^\n]*\n\s*panic '([^']*)'", co)
    mp2 = re.search(r"minicoro\.push\(co, &#\|retname\|#, [^\n]*\n\s*panic '([^']*)'", co)
    if not (mp1 and mp2):
        raise RuntimeError("cannot find the panics of coroutine.create's wrapper")
    out["panic_pop_arg"] = mp1.group(1)
    out["panic_push_ret"] = mp2.group(1)
    if not re.search(r"for i=#f\.type\.argtypes,1,-1 do", co):
        raise RuntimeError("the wrapper no longer pops the arguments in reverse order")
    if not re.search(r"function coroutine\.pop\(co: coroutine, \.\.\.: varargs\): \(boolean, string\)\s*## for i=select\('#', \.\.\.\),1,-1 do", co):
        raise RuntimeError("coroutine.pop no longer pops in reverse argument order")
    # destroy: order of gc:unregister and minicoro.destroy
    m = re.search(r"function coroutine\.destroy\(co: coroutine\): \(boolean, string\)(.*?)\nend\n", co, re.S)
    if not m:
        raise RuntimeError("cannot find coroutine.destroy")
    db = m.group(1)
    iu = db.find("gc:unregister(co)")
    idd = db.find("minicoro.destroy(co)")
    if iu < 0 or idd < 0:
        raise RuntimeError("coroutine.destroy: cannot find gc:unregister(co) / minicoro.destroy(co)")
    out["destroy_unregisters_first"] = iu < idd
    if not out["destroy_unregisters_first"]:
        # the repaired shape we know: unregister only after a successful destroy
        if not re.search(r"minicoro\.destroy\(co\).*?MCO_SUCCESS then return false.*?gc:unregister\(co\)", db, re.S):
            raise RuntimeError("coroutine.destroy has a shape the model does not know")
    # resume: does a refused resume take its arguments back (repair 6a782fc)?
    m = re.search(r"function coroutine\.resume\(co: coroutine, \.\.\.: varargs\): \(boolean, string\) <noinline>(.*?)\nend\n", co, re.S)
    if not m:
        raise RuntimeError("cannot find coroutine.resume")
    rb = m.group(1)
    if "coroutine.push(co, ...)" not in rb or "minicoro.resume(co)" not in rb or rb.find("coroutine.push(co, ...)") > rb.find("minicoro.resume(co)"):
        raise RuntimeError("coroutine.resume has a shape the model does not know (push before minicoro.resume expected)")
    tail = rb[rb.find("minicoro.resume(co)"):]
    mfail = re.search(r"if res ~= minicoro\.Result\.MCO_SUCCESS then(.*?)return false", tail, re.S)
    if not mfail:
        raise RuntimeError("cannot find the failure branch of coroutine.resume")
    out["resume_rolls_back_args"] = bool(re.search(r"minicoro\.pop\(co, nilptr, #\[argbytes\]#\)", mfail.group(1)))
    if out["resume_rolls_back_args"] and not re.search(r"argbytes = argbytes \+ select\(i, \.\.\.\)\.attr\.type\.size", mfail.group(1)):
        raise RuntimeError("coroutine.resume pops something else than the sizes of its arguments on failure")
    mu = re.search(r"assert\(oldsize ~= 0, '([^']*)'\)", gcsrc)
    if not mu:
        raise RuntimeError("cannot find the assertion of GC:unregister")
    out["panic_unregister"] = mu.group(1)
    # coroutine.create registers the coroutine with the collector: which size?  The whole block (desc.coro_size: header,
    # context, storage AND stack) must be scanned, the outermost frames live at its very end
    mreg = re.search(r"gc:register\(co,\s*([^,]+),\s*0,\s*coroutine_gc,\s*nilptr\)", co)
    if not mreg:
        raise RuntimeError("coroutine.create no longer registers the coroutine in the GC (no gc:register(co, <size>, 0, coroutine_gc, nilptr) call)")
    out["gc_register_size_expr"] = mreg.group(1).strip()
    out["gc_registers_whole_coro_block"] = out["gc_register_size_expr"] == "desc.coro_size"

    def pairs_z(l):
        return "[" + "; ".join("(%s, %d%%Z)" % (_coq_str(n), v) for n, v in l) + "]"

    def pairs_s(l):
        return "[" + "; ".join("(%s, %s)" % (_coq_str(a), _coq_str(b)) for a, b in l) + "]"

    txt = ("(* GENERATED by checks/C18.py from /repo (lib/detail/minicoro.nelua, lib/coroutine.nelua, lib/allocators/gc.nelua) - do not edit *)\n"
           "From Coq Require Import ZArith List String.\nImport ListNotations.\nLocal Open Scope string_scope.\n")
    txt += "Definition MCO_STATE_ENUM : list (string * Z) := %s.\n" % pairs_z(states)
    txt += "Definition MCO_RESULT_ENUM : list (string * Z) := %s.\n" % pairs_z(results)
    txt += "Definition MCO_DEFAULT_STORAGE_SIZE : Z := %d%%Z.\n" % out["MCO_DEFAULT_STORAGE_SIZE"]
    txt += "Definition MCO_ZERO_MEMORY : bool := %s.\n" % ("true" if out["MCO_ZERO_MEMORY"] else "false")
    txt += "Definition MCO_RESULT_DESCRIPTION : list (string * string) := %s.\n" % pairs_s(descs)
    txt += "Definition MCO_RESULT_DESCRIPTION_DEFAULT : string := %s.\n" % _coq_str(out["description_default"])
    txt += "Definition STATUS_NIL : string := %s.\n" % _coq_str(out["status_nil"])
    txt += "Definition STATUS_MAIN_RUNNING : string := %s.\n" % _coq_str(out["status_main"][0])
    txt += "Definition STATUS_MAIN_NORMAL : string := %s.\n" % _coq_str(out["status_main"][1])
    txt += "Definition STATUS_OF_STATE : list (string * string) := %s.\n" % pairs_s(chain)
    txt += "Definition STATUS_ELSE : string := %s.\n" % _coq_str(out["status_else"])
    txt += "Definition PANIC_POP_ARG : string := %s.\n" % _coq_str(out["panic_pop_arg"])
    txt += "Definition PANIC_PUSH_RET : string := %s.\n" % _coq_str(out["panic_push_ret"])
    txt += "Definition PANIC_UNREGISTER : string := %s.\n" % _coq_str(out["panic_unregister"])
    txt += "Definition DESTROY_UNREGISTERS_FIRST : bool := %s.\n" % ("true" if out["destroy_unregisters_first"] else "false")
    txt += "Definition RESUME_ROLLS_BACK_ARGS : bool := %s.\n" % ("true" if out["resume_rolls_back_args"] else "false")
    txt += "Definition GC_REGISTERS_WHOLE_CORO_BLOCK : bool := %s.\n" % ("true" if out["gc_registers_whole_coro_block"] else "false")
    vlib.write_if_changed(os.path.join(vlib.coq_dir(ID), "Gen.v"), txt)
    ORACLE.CAP = out["MCO_DEFAULT_STORAGE_SIZE"]     # policy constant: the reference semantics follows the source
    return out


# ---------------------------------------------------------------------------- oracle module
def _load_oracle():
    spec = importlib.util.spec_from_file_location("c18_oracle", os.path.join(HDIR, "oracle.py"))
    mod = importlib.util.module_from_spec(spec)
    spec.loader.exec_module(mod)
    return mod


ORACLE = _load_oracle()
NSLOTS = 24
I64MIN, I64MAX = -(1 << 63), (1 << 63) - 1

# Regression witnesses of the repaired defects (commit 1075c3a: coroutine.destroy used to call gc:unregister
# before minicoro.destroy, so a refused destroy of a running/normal coroutine unregistered it from the GC and
# the later legal destroy aborted with 'invalid unregister pointer').  Replayed on every GC build; they must
# agree with the documented behaviour (reg stays true, the later destroy succeeds): a regression is a VIOLATION.
WITNESSES = [
    ("destroy-running", ["create 0 0", "resume 0", "destroy 0", "status 0", "ret 0 0", "status 0", "destroy 0", "status 0", "end"]),
    ("destroy-normal", ["create 0 0", "create 1 0", "resume 0", "resume 1", "destroy 0", "status 0", "yield", "status 0",
                        "ret 0 0", "status 0", "destroy 0", "status 0", "end"]),
    ("close-normal", ["create 0 0", "create 1 0", "resume 0", "resume 1", "close 0", "status 0", "yield", "yield", "status 0",
                      "destroy 0", "status 0", "end"]),
    # repaired in 6a782fc: a refused resume WITH arguments used to keep them pushed (stored 8 resp. 13 instead of 0)
    ("resume-args-self", ["create 0 0", "resume 0", "resumev 0 0 7 0 0", "status 0", "end"]),
    ("resume-args-dead", ["create 0 0", "resume 0", "ret 0 0", "resumev 0 1 5 6 7", "status 0", "end"]),
]


# ---------------------------------------------------------------------------- generators
def rv64(rng):
    r = rng.random()
    if r < 0.2:
        return rng.choice([0, 1, -1, I64MAX, I64MIN, 255, 256, 1 << 32, -(1 << 31)])
    if r < 0.6:
        return rng.randrange(-1000, 1000)
    return rng.randrange(I64MIN, I64MAX + 1)


def rv32(rng):
    r = rng.random()
    if r < 0.3:
        return rng.choice([0, 1, -1, (1 << 31) - 1, -(1 << 31)])
    return rng.randrange(-(1 << 31), 1 << 31)


def rshape(rng, sh):
    if sh == 0:
        return [rv64(rng), 0, 0]
    if sh == 1:
        return [rv64(rng), rv32(rng), rng.randrange(256)]
    if sh == 2:
        return [rng.randrange(256), rv64(rng), 0]
    return [rng.randrange(256), rv64(rng), 0]


SHAPE_BYTES = {0: 8, 1: 13, 2: 9, 3: 264}
SHAPE_LAST = {0: 8, 1: 1, 2: 8, 3: 8}     # size of the component popped first


def gen_schedule(rng, stream, gc, ncos, nops, maxchain, maxdepth, psub=0.6):
    """Generates one schedule by simulating the reference semantics.  stream:
    'tree'    valid nested resume/yield trees with pending storage at every switch;
    'invalid' the same plus every invalid transition (and, rarely, the documented panics);
    'rollback' the same plus multi-value push / resume(co, ...) / yield(...) whose first values fit and a
              later one overflows the storage, with values pending.
    Destroy / close of running and normal coroutines (by themselves or by a coroutine they resumed) is part
    of the invalid stream in every build."""
    ref = ORACLE.Ref(gc, NSLOTS)
    script = []
    stats = {}
    invalid = stream == "invalid"

    def emit(cmd):
        script.append(cmd)
        ref.step(len(script) - 1, cmd.split())
        k = cmd.split()[0]
        stats[k] = stats.get(k, 0) + 1
        stats["_chain"] = max(stats.get("_chain", 0), len(ref.active))
        stats["_depth"] = max([stats.get("_depth", 0), ref.main_depth] + [c.depth for c in ref.slots.values()])

    def vals(sh):
        return " ".join(str(x) for x in rshape(rng, sh))

    def free_bytes(k):
        return ORACLE.CAP - len(ref.slots[k].store)

    def tune(k, target):
        """bring the storage of k to exactly `target` bytes with valid pushes and drops"""
        n = len(ref.slots[k].store)
        guard = 0
        while n != target and guard < 40:
            guard += 1
            if n > target:
                emit("drop %d %d" % (k, n - target))
            elif target - n >= 264 and rng.random() < 0.8:
                emit("push %d 3 %s" % (k, vals(3)))
            elif target - n >= 13:
                emit("push %d 1 %s" % (k, vals(1)))
            elif target - n >= 8:
                emit("push %d 0 %s" % (k, vals(0)))
            elif free_bytes(k) >= 8:
                emit("push %d 0 %s" % (k, vals(0)))
            else:
                emit("drop %d %d" % (k, min(n, 16)))
            n = len(ref.slots[k].store)

    def pick_shape_fitting(k):
        c = [sh for sh in (0, 1, 2, 3) if SHAPE_BYTES[sh] <= free_bytes(k)]
        if not c:
            return None
        return rng.choice(c if rng.random() < 0.7 else [c[-1]])

    for _ in range(nops):
        if ref.done:
            break
        live = sorted(ref.slots)
        w = ref.who()
        susp = [k for k in live if ref.slots[k].status == "suspended"]
        dead = [k for k in live if ref.slots[k].status == "dead"]
        act = list(ref.active)
        r = rng.random()
        # ---------------- invalid transitions
        if invalid and r < 0.22:
            c = rng.randrange(14)
            if c == 0 and dead:
                emit("resume %d" % rng.choice(dead))
            elif c == 1 and act:
                emit("resume %d" % rng.choice(act))          # running (self) or normal
            elif c == 2:
                nil = [k for k in range(NSLOTS) if k not in ref.slots]
                if nil:
                    k = rng.choice(nil)
                    emit(rng.choice(["resume %d", "destroy %d", "status %d", "pop %d 0", "peek %d 4", "drop %d 0",
                                     "push %d 0 1 0 0", "resumev %d 1 1 2 3", "drop %d 3", "peek %d 0"]) % k)
            elif c == 3 and w is None:
                emit(rng.choice(["yield", "yieldv %d %s" % (1, vals(1))]))
            elif c == 4 and act:
                # a coroutine destroys / closes itself or one of its (normal) resumers
                emit(rng.choice(["destroy %d", "destroy %d", "close %d", "forget %d"]) % rng.choice(act))
            elif c == 5 and live:
                k = rng.choice(live)
                # push overflow: fill up to near the capacity, then overflow (rollback of the big component)
                while free_bytes(k) >= 264 + rng.choice([0, 8, 200]):
                    emit("push %d 3 %s" % (k, vals(3)))
                fb = free_bytes(k)
                if fb >= 256 and fb < 264:
                    emit("push %d 3 %s" % (k, vals(3)))       # first component fits, second does not
                else:
                    while free_bytes(k) >= 13 + rng.choice([0, 0, 9]):
                        emit("push %d 1 %s" % (k, vals(1)))
                    emit("push %d 1 %s" % (k, vals(1)))
                    emit("push %d 0 %s" % (k, vals(0)))
                emit("status %d" % k)
            elif c == 6 and live:
                k = rng.choice(live)
                sh = rng.choice([0, 1, 2, 3])
                emit("pop %d %d" % (k, sh))                     # may underflow (possibly after the first component)
                emit("status %d" % k)
            elif c == 7 and live:
                k = rng.choice(live)
                n = len(ref.slots[k].store)
                emit(rng.choice(["peek %d %d" % (k, min(64, n + 1)), "drop %d %d" % (k, n + 1 + rng.randrange(3)),
                                 "peek %d %d" % (k, min(64, n)), "drop %d %d" % (k, n)]))
            elif c == 8 and live:
                k = rng.choice(live)
                # resume with arguments of a coroutine that is not suspended, or that has no room
                sh = rng.choice([0, 1, 2, 3])
                emit("resumev %d %d %s" % (k, sh, vals(sh)))
            elif c == 9 and w is not None:
                # yield with values that do not fit
                k = w
                while free_bytes(k) >= 264:
                    emit("push %d 3 %s" % (k, vals(3)))
                if free_bytes(k) < 264:
                    emit("yieldv 3 %s" % vals(3))
            elif c == 10 and live:
                emit("create %d %d" % (rng.choice(live), rng.randrange(2)))   # busy
            elif c == 11 and susp and rng.random() < 0.15:
                # documented panic: a typed body started without its arguments
                cand = [k for k in susp if ref.slots[k].kind == 1 and not ref.slots[k].started and len(ref.slots[k].store) < 13]
                if cand and len(act) < maxchain:
                    emit("resume %d" % rng.choice(cand))
            elif c == 12 and w is None:
                emit("ret 0 0")                                 # ignored in the main program at depth 0
            elif c == 13 and susp:
                k = rng.choice(susp)
                emit("status %d" % k)
            # after the invalid transition: carry on from deeper frames that hold fresh coroutines only in
            # their locals, with collections in between (the failed call must have left nothing behind)
            if not ref.done and rng.random() < psub:
                emit("sub %d %d" % (rng.randrange(0, 7), rng.randrange(1, 7)))
                for k in sorted(ref.slots)[:6]:
                    if rng.random() < 0.5:
                        emit("status %d" % k)
            continue
        # ---------------- rollback of multi-value pushes with values pending (main and coroutines)
        if (invalid and r < 0.34) or (stream == "rollback" and r < 0.5):
            cand = live if rng.random() < 0.6 or w is None else [w]
            if cand:
                k = rng.choice(cand)
                sh = rng.choice([1, 1, 2, 3])
                sizes = [ORACLE.SIZE[x] for x in ORACLE.SHAPES[sh]]
                cut = rng.randrange(1, len(sizes))              # the first `cut` values fit, value cut+1 does not
                lo = sum(sizes[:cut])
                hi = sum(sizes[:cut + 1])
                free = rng.randrange(lo, hi)
                tune(k, ORACLE.CAP - free)
                if free_bytes(k) == free:
                    how = rng.randrange(3)
                    if how == 0 or (how == 2 and k != w):
                        emit("push %d %d %s" % (k, sh, vals(sh)))
                    elif how == 1:
                        emit("resumev %d %d %s" % (k, sh, vals(sh)))
                    else:
                        emit("yieldv %d %s" % (sh, vals(sh)))
                    emit("status %d" % k)
                    emit("peek %d %d" % (k, min(64, len(ref.slots[k].store))))
            continue
        # ---------------- valid moves
        r = rng.random()
        if r < 0.12 and len(live) < ncos:
            nil = [k for k in range(NSLOTS) if k not in ref.slots]
            emit("create %d %d" % (rng.choice(nil), 1 if rng.random() < 0.4 else 0))
        elif r < 0.34 and susp and len(act) < maxchain:
            k = rng.choice(susp)
            co = ref.slots[k]
            if co.kind == 1 and not co.started:
                if rng.random() < 0.5 and free_bytes(k) >= 13:
                    emit("resumev %d 1 %s" % (k, vals(1)))
                else:
                    if free_bytes(k) >= 13:
                        emit("push %d 1 %s" % (k, vals(1)))
                    if len(co.store) >= 13:
                        emit("resume %d" % k)
            else:
                sh = pick_shape_fitting(k)
                if sh is not None and rng.random() < 0.5:
                    emit("resumev %d %d %s" % (k, sh, vals(sh)))
                else:
                    emit("resume %d" % k)
        elif r < 0.50 and w is not None:
            sh = pick_shape_fitting(w)
            if sh is not None and rng.random() < 0.5:
                emit("yieldv %d %s" % (sh, vals(sh)))
            else:
                emit("yield")
            # collections and allocation churn while coroutines are suspended inside their frames
            if not ref.done and rng.random() < 0.35:
                emit("gc")
        elif r < 0.60 and live:
            k = rng.choice(live)
            sh = pick_shape_fitting(k)
            if sh is not None:
                emit("push %d %d %s" % (k, sh, vals(sh)))
        elif r < 0.70 and live:
            k = rng.choice(live)
            n = len(ref.slots[k].store)
            c = [sh for sh in (0, 1, 2, 3) if SHAPE_BYTES[sh] <= n]
            if c:
                emit("pop %d %d" % (k, rng.choice(c)))
        elif r < 0.74 and live:
            k = rng.choice(live)
            n = len(ref.slots[k].store)
            if rng.random() < 0.5:
                emit("peek %d %d" % (k, rng.randrange(0, min(64, n) + 1)))
            else:
                emit("drop %d %d" % (k, rng.randrange(0, min(16, n) + 1)))
        elif r < 0.84:
            c = rng.randrange(5)
            if c == 0:
                emit("status -1")
            elif c == 1:
                emit("isyieldable")
            elif c == 2:
                emit("running")
            else:
                emit("status %d" % rng.randrange(NSLOTS if rng.random() < 0.2 else max(1, ncos)))
        elif r < 0.89:
            if ref.depth(w) < maxdepth:
                emit("deeper %d" % rng.randrange(0, min(4, maxdepth - ref.depth(w)) + 1))
        elif r < 0.95:
            if w is None:
                if ref.main_depth > 0:
                    emit("ret 0 0")
            else:
                co = ref.slots[w]
                if co.depth > 0 or co.kind == 0 or free_bytes(w) >= 9:
                    emit("ret %d %d" % (rng.randrange(256), rv64(rng)))
        elif r < 0.98:
            c = [k for k in susp + dead]
            if c:
                emit(rng.choice(["destroy %d", "destroy %d", "close %d", "forget %d", "forget %d"]) % rng.choice(c))
        elif r < 1.0 - psub / 60.0:
            emit("gc")
        else:
            emit("sub %d %d" % (rng.randrange(0, 7), rng.randrange(1, 7)))
    if not ref.done:
        # let the typed bodies that are still active finish without a panic
        for k in list(ref.active):
            co = ref.slots[k]
            if co.kind == 1 and ORACLE.CAP - len(co.store) < 9 and not (invalid and rng.random() < 0.3):
                emit("drop %d 16" % k)
        for k in sorted(ref.slots):
            if rng.random() < 0.5:
                emit("status %d" % k)
        emit("end")
    return script, stats, ref


# ---------------------------------------------------------------------------- running
PANICS = None
FORGET_STATS = {}


def norm_expected(lines):
    out = []
    for l in lines:
        m = re.match(r"^= \S+ d\d+ panic\|(.*)$", l)
        out.append("panic|" + m.group(1) if m else l)
    return out


def run_impl(binary, script, timeout=60):
    rc, out, err = vlib.sh([binary], input="\n".join(script) + "\n", timeout=timeout,
                           env={"ASAN_OPTIONS": "detect_leaks=0:detect_stack_use_after_return=0"})
    lines = [l for l in out.split("\n") if l and not l.startswith("#")]
    ncollected = sum(int(l.split("=")[1]) for l in out.split("\n") if l.startswith("# forget collected="))
    if ncollected:
        FORGET_STATS["collected"] = FORGET_STATS.get("collected", 0) + ncollected
    if rc != 0:
        msg = None
        for m in (ORACLE.P_POP_ARG, ORACLE.P_PUSH_RET, "invalid unregister pointer"):
            if m in err:
                msg = m
        if msg:
            lines.append("panic|" + msg)
        else:
            lines.append("abort|rc=%s|%s" % (rc, err.strip().replace("\n", " ")[-200:]))
    return rc, lines


def run_model(model, items, gc, spec=False):
    """items: list of scripts; -> list of line lists (one model process for all).
    spec=True runs the extracted reference semantics (coq/C18/Spec.v, spec_step) instead of the model."""
    inp = []
    for script in items:
        inp.append("reset %d %d" % (1 if gc else 0, NSLOTS))
        inp += script
    rc, out, err = vlib.sh([model] + (["spec"] if spec else []), input="\n".join(inp) + "\n", timeout=3000)
    if rc != 0:
        raise RuntimeError("model driver failed: %s" % err[-800:])
    res = []
    for l in out.split("\n"):
        if l == "@ reset":
            res.append([])
        elif l and res:
            res[-1].append(l)
    if len(res) != len(items):
        raise RuntimeError("model driver answered %d schedules of %d" % (len(res), len(items)))
    return res


def first_diff(a, b):
    for i in range(max(len(a), len(b))):
        x = a[i] if i < len(a) else "<nothing>"
        y = b[i] if i < len(b) else "<nothing>"
        if x != y:
            return i, x, y
    return None


def cmd_of_line(lines, i):
    """index of the command whose echo precedes output line i"""
    for j in range(min(i, len(lines) - 1), -1, -1):
        m = re.match(r"^> (\d+) ", lines[j])
        if m:
            return int(m.group(1))
    return -1


def build_model(ctx):
    d = vlib.coq_dir(ID)
    with vlib.Lock("coq-" + ID):
        rc, o, e = vlib.sh(["ocamlfind", "ocamlopt", "-O3", "-w", "-a", "-package", "str", "-linkpkg", "model.mli", "model.ml",
                            "glue.ml", "codriver.ml", "-o", "codriver"], cwd=d, timeout=900)
    if rc != 0:
        raise RuntimeError("ocaml build failed:\n" + (o + e)[-3000:])
    return os.path.join(d, "codriver")


def setup(ctx):
    """MANIFEST.setup_cmd hook: the model driver is built here (not by vlib.ocaml_build: see glue.ml),
    and the two implementation-side drivers of the quick tier are compiled once."""
    build_model(ctx)
    build_driver(ctx, "gc", [])
    build_driver(ctx, "nogc", ["-P", "nogc"])


def build_driver(ctx, tag, extra):
    """compiled schedule interpreter, cached per (harness, lib sources, flags, repo root): concurrent runs
    against different repository copies (VERIF_REPO) never share a binary"""
    import hashlib
    key = vlib.sha_files([HARNESS] + vlib.walk_files(os.path.join(vlib.REPO, "lib"), (".nelua",)) +
                         vlib.walk_files(os.path.join(vlib.REPO, "lualib"), (".lua",))) + repr(extra) + vlib.REPO
    h = hashlib.sha1(key.encode()).hexdigest()[:12]
    out = os.path.join(ctx.work, "codriver-%s-%s" % (tag, h))
    with vlib.Lock("C18-build-" + h):
        if os.path.exists(out):
            return out
        tmp = out + ".tmp%d" % os.getpid()
        rc, o, e = vlib.nelua_build(HARNESS, tmp, extra=list(extra), cache_dir=os.path.join(ctx.work, "nelua-cache-%s-%s" % (tag, h)))
        if rc != 0 or not os.path.exists(tmp):
            raise RuntimeError("cannot build the coroutine driver (%s): %s" % (tag, (o + e)[-1500:]))
        os.rename(tmp, out)
        # prune old binaries of this tag (keep the 4 newest)
        olds = sorted((os.path.getmtime(os.path.join(ctx.work, f)), f) for f in os.listdir(ctx.work)
                      if f.startswith("codriver-%s-" % tag) and ".tmp" not in f)
        for _, f in olds[:-4]:
            try:
                os.remove(os.path.join(ctx.work, f))
            except OSError:
                pass
    return out


def destroys_live_frames(script, gc):
    """does the schedule destroy/close a coroutine that is suspended inside its body (frames still on its
    stack)?  Under -fsanitize=address the shadow of those frames stays poisoned after the munmap and the
    next coroutine mapped at that address reports false positives, so the ASan build skips such schedules."""
    ref = ORACLE.Ref(gc, NSLOTS)
    for i, cmd in enumerate(script):
        w = cmd.split()
        if w[0] in ("destroy", "close", "forget"):
            co = ref.slots.get(int(w[1]))
            if co is not None and co.status == "suspended" and co.started:
                return True
        ref.step(i, w)
        if ref.done:
            break
    return False


def shrink(binary, script, gc, budget=160):
    """delta debugging on the command list: keeps a schedule on which the implementation still differs
    from the documented behaviour."""
    def fails(sc):
        try:
            exp = norm_expected(ORACLE.run(sc, gc, NSLOTS))
        except Exception:
            return False
        rc, il = run_impl(binary, sc, timeout=20)
        return first_diff(il, exp) is not None
    body = [c for c in script if c != "end"]
    n = 2
    runs = 0
    while len(body) >= 2 and runs < budget:
        chunk = max(1, len(body) // n)
        reduced = False
        for i in range(0, len(body), chunk):
            cand = body[:i] + body[i + chunk:]
            runs += 1
            if cand and fails(cand + ["end"]):
                body = cand
                n = max(n - 1, 2)
                reduced = True
                break
            if runs >= budget:
                break
        if not reduced:
            if chunk == 1:
                break
            n = min(n * 2, len(body))
    return body + ["end"]


def short(script, n=14):
    return "; ".join(script[:n]) + (" ..." if len(script) > n else "")


def correspond(ctx):
    model = build_model(ctx)
    rng = ctx.rng
    builds = [("gc", [], True), ("nogc", ["-P", "nogc"], False)]
    if ctx.thorough:
        builds.append(("release", ["--release"], True))
        builds.append(("asan", ["--sanitize"], True))
    # ---- schedules (generated once per GC mode: the invalid stream differs)
    corpus = []
    cdir = os.path.join(vlib.VERIF, "corpus", ID)
    if os.path.isdir(cdir):
        for f in sorted(os.listdir(cdir)):
            if f.endswith(".txt"):
                sc = [l.strip() for l in vlib.read(os.path.join(cdir, f)).split("\n") if l.strip() and not l.startswith("#")]
                nogc_only = any(l.startswith("# nogc-only") for l in vlib.read(os.path.join(cdir, f)).split("\n"))
                corpus.append(("corpus/" + f, sc, nogc_only))
    n_tree = ctx.scale(160, 6000)
    n_inv = ctx.scale(110, 5000)
    sets = {}
    dist = {"streams": {}, "commands": {}, "max_chain": 0, "max_frame_depth": 0}
    for gcmode in (True, False):
        items = [(n, sc) for (n, sc, nogc_only) in corpus if not (gcmode and nogc_only)]
        for stream, cnt in (("tree", n_tree), ("invalid", n_inv), ("rollback", n_inv // 2)):
            if not gcmode and stream != "invalid":
                cnt = cnt // 4
            for i in range(cnt):
                big = rng.random() < 0.15
                ncos = rng.choice([2, 3, 5, 8]) if not big else rng.choice([12, 24])
                nops = rng.choice([20, 40, 80]) if not big else rng.choice([150, 300])
                sc, st, ref = gen_schedule(rng, stream, gcmode, ncos, nops, maxchain=8 if not big else 24, maxdepth=8,
                                           psub=ctx.scale(0.6, 0.06))
                items.append(("%s-%d" % (stream, i), sc))
                dist["streams"][stream] = dist["streams"].get(stream, 0) + 1
                dist["max_chain"] = max(dist["max_chain"], st.pop("_chain", 0))
                dist["max_frame_depth"] = max(dist["max_frame_depth"], st.pop("_depth", 0))
                for k, v in st.items():
                    dist["commands"][k] = dist["commands"].get(k, 0) + v
        sets[gcmode] = items
    evaluations = 0
    nontrivial = set()
    n_oracle = n_mismatch = 0
    n_spec = n_specdiff = n_specimpl = n_specimpl_diff = 0
    n_runs = 0
    samples = []
    err_hist = {}
    for tag, extra, gcmode in builds:
        binary = build_driver(ctx, tag, extra)
        items = sets[gcmode]
        if tag == "release":
            items = items[: len(items) // 3]
        elif tag == "asan":
            items = [it for it in items[len(items) // 3: len(items) // 3 + len(items) // 4]
                     if not destroys_live_frames(it[1], gcmode)]
            dist["asan_schedules"] = len(items)

        def one(it):
            return run_impl(binary, it[1])
        def batches():
            # batch by batch, so that the outputs of tens of thousands of schedules are never all in memory
            for b in range(0, len(items), 1000):
                part = items[b:b + 1000]
                with concurrent.futures.ThreadPoolExecutor(max_workers=4) as ex:
                    impl = list(ex.map(one, part))
                mod = run_model(model, [sc for _, sc in part], gcmode)
                spc = run_model(model, [sc for _, sc in part], gcmode, spec=True)
                for x in zip(part, impl, mod, spc):
                    yield x
        n_runs += len(items)
        for (name, sc), (rc, ilines), mlines, slines in batches():
            exp = norm_expected(ORACLE.run(sc, gcmode, NSLOTS))
            mlines = norm_expected(mlines)
            # the extracted reference semantics of Spec.v: proved equal to the model's transcript (C18_refines_spec_history);
            # compared here as well, so that oracle.py is not the only executable reference
            n_spec += 1
            slines_n = norm_expected(slines)
            ds = first_diff(mlines, slines_n)
            ncmd = sum(1 for l in ilines if l.startswith("> "))
            evaluations += ncmd
            chain = 0
            for l in ilines:
                f = l.split("|")
                if len(f) >= 3 and f[1] == "false" and f[0].rsplit(" ", 1)[-1] in ("resume", "yield", "push", "pop", "peek", "drop", "destroy"):
                    err_hist[f[2]] = err_hist.get(f[2], 0) + 1
                elif l.startswith(("panic|", "abort|")):
                    err_hist["(panic) " + l.split("|", 1)[1][:60]] = err_hist.get("(panic) " + l.split("|", 1)[1][:60], 0) + 1
            sw = sum(1 for l in ilines if " resume|true|" in l)
            if sw >= 3 and any(" pop|true|" in l for l in ilines):
                nontrivial.add(tuple(sc))
            if len(samples) < 4 and name.startswith(("tree", "invalid", "rollback")) and tag == "gc":
                samples.append("%s/%s: %s" % (tag, name, short(sc)))
            d = first_diff(ilines, exp)
            if d is not None:
                n_oracle += 1
                if n_oracle <= 4:
                    if n_oracle <= 2 and len(sc) > 12:
                        # minimise, then report the minimised schedule
                        small = shrink(binary, sc, gcmode)
                        rc2, il2 = run_impl(binary, small)
                        exp2 = norm_expected(ORACLE.run(small, gcmode, NSLOTS))
                        d2 = first_diff(il2, exp2)
                        if d2 is not None:
                            sc, ilines, exp, d = small, il2, exp2, d2
                            mlines = norm_expected(run_model(model, [small], gcmode)[0])
                            slines_n = norm_expected(run_model(model, [small], gcmode, spec=True)[0])
                    i, got, want = d
                    ci = cmd_of_line(ilines, i)
                    path = os.path.join(ctx.work, "fail-%s-%s.txt" % (tag, name.replace("/", "_")))
                    with open(path, "w") as f:
                        f.write("\n".join(sc) + "\n")
                    ctx.violation("schedule[%s]:%s:cmd%d:%s" % (tag, name, ci, sc[ci] if 0 <= ci < len(sc) else "?"), "oracle",
                                  "%s build, schedule %s, command %d (%s): implementation prints '%s', the documented behaviour is '%s'" %
                                  (tag, name, ci, sc[ci] if 0 <= ci < len(sc) else "?", got[:200], want[:200]),
                                  detail={"schedule": sc, "first_difference_at_output_line": i, "implementation": ilines[max(0, i - 3):i + 2],
                                          "oracle": exp[max(0, i - 3):i + 2], "model_agrees_with_implementation": first_diff(ilines, mlines) is None,
                                          "spec_agrees_with_implementation": first_diff(ilines, slines_n) is None,
                                          "schedule_file": path,
                                          "replay": "nelua %s -b harness/C18/codriver.nelua -o cod && ./cod < %s" % (" ".join(extra), path)})
                continue
            # (b) the extracted reference semantics against the IMPLEMENTATION, directly
            n_specimpl += 1
            dsi = first_diff(ilines, norm_expected(slines))
            if dsi is not None:
                n_specimpl_diff += 1
                if n_specimpl_diff <= 3:
                    i, got, want = dsi
                    ci = cmd_of_line(ilines, i)
                    ctx.violation("spec-vs-implementation:%s" % name.split("-")[0].split("/")[0], "correspondence",
                                  "%s build, schedule %s, command %d (%s): implementation prints '%s', the extracted reference semantics (Spec.v) prints '%s' (the Python reference agrees with the implementation on this schedule)" %
                                  (tag, name, ci, sc[ci] if 0 <= ci < len(sc) else "?", got[:200], want[:200]),
                                  detail={"schedule": sc, "line": i, "no_longer_checks": "Spec.v vs implementation, stream C18/" + name.split("-")[0]},
                                  failing_input=False)
            if ds is not None and n_specdiff < 2:
                n_specdiff += 1
                ctx.violation("spec-transcript:%s" % name.split("-")[0].split("/")[0], "correspondence",
                              "%s build, schedule %s: the extracted Spec.v prints '%s' where the extracted model prints '%s' (the implementation agrees with oracle.py on this schedule); C18_refines_spec_history proves the two transcripts equal: either that proof no longer checks (the scraped flags changed the model) or extraction / driver glue is wrong" %
                              (tag, name, ds[2][:160], ds[1][:160]), detail={"schedule": sc}, failing_input=False)
            d = first_diff(ilines, mlines)
            if d is not None:
                n_mismatch += 1
                if n_mismatch <= 3:
                    i, got, want = d
                    ctx.violation("model-mismatch:%s" % name.split("-")[0].split("/")[0], "correspondence",
                                  "%s build, schedule %s: the model of coroutine.nelua/minicoro no longer corresponds to the code: implementation '%s', model '%s' (the property oracle passed on this schedule)" %
                                  (tag, name, got[:200], want[:200]),
                                  detail={"schedule": sc, "line": i, "no_longer_checks": "correspondence stream C18/" + name.split("-")[0]},
                                  failing_input=False)
        # ---- regression witnesses of the repaired defects (every build): must agree with the oracle
        if True:
            for wname, wsc in WITNESSES:
                rc, ilines = run_impl(binary, wsc)
                exp = norm_expected(ORACLE.run(wsc, gcmode, NSLOTS))
                mlines = norm_expected(run_model(model, [wsc], gcmode)[0])
                evaluations += sum(1 for l in ilines if l.startswith("> "))
                n_runs += 1
                d = first_diff(ilines, exp)
                if d is not None:
                    i, got, want = d
                    ci = cmd_of_line(ilines, i)
                    ctx.violation("schedule[%s]:witness-%s:%s:cmd%d" % (tag, wname, ";".join(wsc), ci), "oracle",
                                  "%s build, witness %s (%s), command %d (%s): implementation prints '%s', the documented behaviour is '%s'" %
                                  (tag, wname, "; ".join(wsc), ci, wsc[ci] if 0 <= ci < len(wsc) else "?", got[:200], want[:200]),
                                  detail={"schedule": wsc, "implementation": ilines[max(0, i - 3):i + 2], "oracle": exp[max(0, i - 3):i + 2],
                                          "model_agrees_with_implementation": first_diff(ilines, mlines) is None,
                                          "replay": "printf '%s\\n' | ./codriver" % "\\n".join(wsc)})
                    continue
                dm = first_diff(ilines, mlines)
                if dm is not None:
                    ctx.violation("model-mismatch:witness", "correspondence",
                                  "%s build, witness %s: implementation '%s', model '%s'" % (tag, wname, dm[1], dm[2]),
                                  detail={"schedule": wsc}, failing_input=False)
    return {
        "evaluations": evaluations,
        "distinct_nontrivial": len(nontrivial),
        "rule": "one evaluation = one schedule command executed on the real coroutine library and compared line by line with the reference semantics (oracle) and with the extracted model; non-trivial = distinct schedules with at least 3 completed resume round trips and at least one successful typed pop",
        "samples": samples,
        "distribution": {"schedules": {("gc" if g else "nogc"): len(v) for g, v in sets.items()}, "builds": [b[0] for b in builds],
                         **dist, "error_results": err_hist},
        "forgotten_coroutines_collected_at_once": FORGET_STATS.get("collected", 0),
        "spec_transcripts_compared": n_spec,
        "spec_vs_implementation_compared": n_specimpl,
        "spec_vs_implementation_differences": n_specimpl_diff,
        "oracle_failures": n_oracle,
        "model_mismatches": n_mismatch,
        "traces_validated_against_impl": n_runs,
    }
