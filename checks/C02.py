"""C02 - compile-time evaluation yields the same values as run-time evaluation (integers; floats by
correspondence only).

(T) gen(): promotion ladders / type table as the compiler reports them, and the run-time helpers
    nelua_shl_/shr_/asr_/lt_/eq_/assert_idiv_/assert_imod_ parsed out of the C generated for the
    driver, written to coq/C02/Gen.v as Base.CInt mini-C terms (the model calls exactly these).
(C) correspond(): fold side = harness/C02/fold.lua calling types.lua / cemitter.lua of the compiler
    under test on every case; run-time side = harness/C02/driver.nelua compiled by the compiler
    under test (operands read from stdin); end-to-end = generated probe programs (constant
    expression vs the same expression over operands passed through <noinline> functions, and
    half-constant forms) compiled by the real compiler; the extracted model and the exact-integer
    oracle run on the same cases.
"""
import hashlib
import os
import re
import subprocess
import sys
import threading

import vlib

sys.path.insert(0, os.path.join(vlib.VERIF, "harness", "C04"))
import cparse  # noqa: E402

ID = "C02"
ALLOWED_AXIOMS = []
TRUSTED_BASE = [
    "coqc 8.16.1 kernel (vm_compute for refutation witnesses and table facts; no native_compute)",
    "no axioms: every theorem of coq/C02/Properties.v is 'Closed under the global context'",
    "C integer semantics of coq/Base/CInt.v in Gnu mode (ISO C11 + -fwrapv + gcc/clang documented behaviour); int = 32, long = long long = pointer = 64 bits",
    "bint(160) arithmetic = exact integers reduced to 160 bits (proved for the limb algorithms under property C17; used here as the meaning of bn values)",
    "CROSS-PROPERTY FILES: harness/C04/cparse.py (C helper text -> mini-C terms) and harness/C04/types.lua (type table, promotion ladders) are owned by property C04 and used here; checks/C02.py:gen; harness/C02/fold.lua (calls types.lua/cemitter.lua through their Lua API with hand-built attrs), harness/C02/driver.nelua, the probe generator in checks/C02.py",
    "extraction: Require Extraction + ExtrOcamlBasic only; ocaml/zutil.ml + coq/C02/driver.ml",
    "modelled rather than verified: types.lua fold functions are mirrored by hand in coq/C02/Model.v (tie: correspondence on every check); analyzer.lua's propagation of attr.value is exercised only through the end-to-end probe programs",
]
THEOREM_CLASSES = {
    "C02_rt_is_modular_add": "main", "C02_rt_is_modular_sub": "main", "C02_rt_is_modular_mul": "main", "C02_rt_is_modular_unm": "main",
    "C02_rt_is_modular_bitwise": "main", "C02_rt_is_modular_idiv_mod": "main", "C02_rt_shift_helpers": "main",
    "C02_rt_is_modular_shifts_refuted": "refutation", "C02_rt_is_modular_shifts_partial": "main",
    "C02_rt_context_independent": "main", "C02_rt_context_independent_iff_policy": "tripwire", "C02_const_count_shift_eq_helper_8bit": "corollary",
    "C02_comparisons_agree": "main", "C02_fold_agrees_partial_arith": "main", "C02_fold_exact_partial": "main",
    "C02_wrap_value_correct": "main", "C02_baked_literal": "main", "C02_conv_rejected_iff": "definitional",
}
UNPROVED = [
    "fold_agrees (Proofs.fold_agrees_at) is proved for + - * only (typed operands, all types and values); for // % /// %%% | ~ & << >> >>> the same statement is evaluated by the oracle on every case (proved pieces: fold exactness for + - * // % incl. untyped literals when the result fits 64 bits, run-time modularity of every operator but /// %%% and unsigned // %, comparisons)",
    "run-time theorems are about the STORED value of an operator result; that a result consumed directly by another operator has the same value is C02_rt_context_independent (model, run-time counts and - for the shifts - compile-time counts; it holds exactly under the cast policy scraped from the emitter, condition together with the emitted cast: C02_rt_context_independent_iff_policy) + the fixed list NESTED_PROBES (implementation); deeper nesting, right-nested and half-constant nested forms other than a literal shift count: not modelled",
    "`///` `%%%` and unsigned `//` `%` at run time, unary `~` on both sides, fold_un: correspondence only",
    "half-constant forms (one operand a baked literal), the C type of the emitted literal (Model.lit_ctype), untyped literals at run time: correspondence/probes only",
    "floats (float32/float64 operands, `/`, `^`): no theorem and no model clause (in particular none for pow/fmod: no C99 Annex F case is vouched for by Coq); fold (the compiler's own Lua VM, rebuilt from the repository under test) vs run time (libm) compared as printed by %a - bit for bit up to the NaN payload, sign of zero and of infinity included - on generated probes plus the fixed grid FLOAT_SPECIAL_GRID (`^` `%` `%%%` `//` `///` `/` unary - on +-inf, +-0, nan, negative and subnormal bases x exponents/divisors 0.5 -0.5 2 -2 -1 +-0 +-inf nan 1/3 3 1 1.5; 793 probes, every run); float32 folding is an open finding",
    "explicit casts of constants, float -> integer constant conversion (demotefloat, fractional rejection), conversions from a source type other than int64: not modelled, not tested here",
    "analyzer.lua propagation of attr.value / <comptime> variables: exercised only through the end-to-end probe programs",
    "C02_conv_rejected_iff is definitional (conv_accepts := in_rangeb); its link to C04's nelua_assert_narrow_ predicate is C04_narrow_fires_iff, in another sub-project",
]
MANIFEST_ENTRY = {
    "text": "proof, partial: theorems (integers, all types and values) for the run-time side of + - * unary- | ~ & // % (signed) << >> >>> (counts in int64) and all comparisons, for wrap_value / literal re-wrap, and for fold = run time on + - *; the full fold = run-time statement for the other operators, half-constant forms and untyped literals at run time rest on differential testing (one refuted statement recorded: uint64 shift counts); nested = stored (run-time and compile-time shift counts) is a theorem of the model whose cast conditions are scraped from the emitter, tied by 274 probes; floats: differential testing only",
    "note": "trusted: Coq kernel, Base/CInt Gnu mode = gcc/clang, bint(160) = Z mod 2^160 (C17), helpers taken from the generated C through harness/C04/cparse.py, type table through harness/C04/types.lua (files owned by property C04), hand model of types.lua fold functions",
    "technique": "machine-checked proof in Coq over an executable model + helpers scraped from the generated C + extracted-model/implementation correspondence and probe programs",
}
ASSUMPTIONS = [
    "the run-time model (Model.rt_bin) is the value of an operator result once stored in a variable of its Nelua type or passed as an argument; results consumed directly by another operator are modelled separately (rt_bin_c / rt_nested_l) and only for the probes listed in NESTED_PROBES",
    "gcc/clang implement the Gnu mode of Base.CInt",
    "floats (float32/float64 operands, `/` and `^` on integers): correspondence only - fold (Lua doubles in the compiler) vs run time (C doubles / libm) compared bit for bit on generated cases; no theorem",
    "correspondence is differential testing, not a proof that model = code",
]

ITYPES = ["int8", "int16", "int32", "int64", "isize", "uint8", "uint16", "uint32", "uint64", "usize"]
BINOPS = ["add", "sub", "mul", "idiv", "tdiv", "mod", "tmod", "bor", "bxor", "band", "shl", "shr", "asr",
          "lt", "le", "gt", "ge", "eq", "ne"]
OPSYM = {"add": "+", "sub": "-", "mul": "*", "idiv": "//", "tdiv": "///", "mod": "%", "tmod": "%%%", "bor": "|", "bxor": "~",
         "band": "&", "shl": "<<", "shr": ">>", "asr": ">>>", "lt": "<", "le": "<=", "gt": ">", "ge": ">=", "eq": "==", "ne": "~=",
         "unm": "-", "bnot": "~"}
CMPOPS = ("lt", "le", "gt", "ge", "eq", "ne")
SHIFTOPS = ("shl", "shr", "asr")
DIVOPS = ("idiv", "tdiv", "mod", "tmod")
UNOPS = ["unm", "bnot"]

TYPES = {}


def rng_of(t):
    b, s = TYPES[t]
    return (-(1 << (b - 1)), (1 << (b - 1)) - 1) if s else (0, (1 << b) - 1)


def inrange(t, x):
    lo, hi = rng_of(t)
    return lo <= x <= hi


def wrap(t, x):
    b, s = TYPES[t]
    x %= 1 << b
    return x - (1 << b) if s and x >= 1 << (b - 1) else x


def tb(t):
    b, s = TYPES[t]
    return "%d %d" % (b, 1 if s else 0)


def hx(v):
    return ("-%x" % -v) if v < 0 else "%x" % v


def unhx(s):
    return -int(s[1:], 16) if s.startswith("-") else int(s, 16)


# --------------------------------------------------------------------------- gen

def repo_fingerprint():
    files = vlib.walk_files(os.path.join(vlib.REPO, "lualib"), (".lua",)) + vlib.walk_files(os.path.join(vlib.REPO, "lib"), (".nelua",))
    files.append(os.path.join(vlib.VERIF, "harness", ID, "driver.nelua"))
    return vlib.sha_files(files)[:16]


def build_driver(ctx):
    fp = repo_fingerprint()
    d = os.path.join(ctx.work, "drv-" + fp)
    exe = os.path.join(d, "driver")
    cfile = os.path.join(d, "cache", "driver.c")
    with vlib.Lock("C02-driver"):
        if not (os.path.exists(exe) and os.path.exists(cfile)):
            for x in os.listdir(ctx.work):
                if x.startswith("drv-") and x != "drv-" + fp:
                    subprocess.run(["rm", "-rf", os.path.join(ctx.work, x)])
            os.makedirs(d, exist_ok=True)
            src = os.path.join(d, "driver.nelua")
            vlib.write_if_changed(src, vlib.read(os.path.join(vlib.VERIF, "harness", ID, "driver.nelua")))
            rc, out, err = vlib.nelua_build(src, exe, cache_dir=os.path.join(d, "cache"))
            if rc != 0 or not os.path.exists(exe):
                raise RuntimeError("driver does not compile with the compiler under test:\n" + (out + err)[-3000:])
    return exe, vlib.read(cfile)


def load_types(ctx):
    rc, out, err = vlib.run_lua(os.path.join(vlib.VERIF, "harness", "C04", "types.lua"), ITYPES + ["cint"])
    if rc != 0:
        raise RuntimeError("types.lua failed: " + err[-2000:])
    types, ladders = {}, {}
    for line in out.splitlines():
        w = line.split("\t")
        if w[0] == "T":
            types[w[1]] = (int(w[3]), w[4] == "1", int(w[5]), int(w[6]), w[2])
        elif w[0] == "L":
            ladders[w[1]] = w[2].split()
    for n, (b, s, lo, hi, _) in types.items():
        elo, ehi = (-(1 << (b - 1)), (1 << (b - 1)) - 1) if s else (0, (1 << b) - 1)
        if (lo, hi) != (elo, ehi):
            raise RuntimeError("type %s: min/max are not the two's complement range of %d bits" % (n, b))
        TYPES[n] = (b, s)
    if set(ladders) != {"signed", "unsigned"}:
        raise RuntimeError("promotion ladders not found")
    return types, ladders


def _fn_body(src, header):
    i = src.index(header)
    j = src.index("\nend\n", i)
    return src[i:j]


def _nocomment(text):
    """Lua source with `--` line comments removed and white space collapsed (no long strings/comments in these functions)."""
    return re.sub(r"\s+", " ", "\n".join(re.sub(r"--.*$", "", l) for l in text.split("\n"))).strip()


def scrape_cast_rules():
    """Which operator results the emitter casts to their own type (cbuiltins.lua).  Every flag is decided by the
    discriminating CONDITION TOGETHER WITH THE STATEMENT IT GUARDS (comments stripped): the repaired shape gives true,
    the shape before the repair gives false, anything else raises (the model would no longer describe the code)."""
    src = vlib.repo_read("lualib/nelua/cbuiltins.lua")
    bop = _nocomment(_fn_body(src, "local function operator_binary_op("))
    unm = _nocomment(_fn_body(src, "function cbuiltins.operators.unm("))
    bnot = _nocomment(_fn_body(src, "function cbuiltins.operators.bnot("))
    tdiv = _nocomment(_fn_body(src, "function cbuiltins.operators.tdiv("))
    tmod = _nocomment(_fn_body(src, "function cbuiltins.operators.tmod("))
    shl = _nocomment(_fn_body(src, "function cbuiltins.operators.shl("))
    shr = _nocomment(_fn_body(src, "function cbuiltins.operators.shr("))
    asr = _nocomment(_fn_body(src, "function cbuiltins.operators.asr("))

    def decide(what, text, repaired, before):
        if repaired in text and before not in text:
            return True
        if before in text and repaired not in text:
            return False
        raise RuntimeError("%s: neither the repaired nor the previous condition+statement is present (model out of date)" % what)

    plain = "else assert(ltype.is_arithmetic and rtype.is_arithmetic) emitter:add('(', lname, ' ', op, ' ', rname, ')') end"
    if plain not in bop:
        raise RuntimeError("operator_binary_op: the plain branch changed shape")
    binop = decide("operator_binary_op", bop,
        "if ltype.is_integral and rtype.is_integral and ((ltype.is_unsigned ~= rtype.is_unsigned and not lattr.comptime and not rattr.comptime) or "
        "(type.is_integral and type.size < primtypes.cint.size)) then emitter:add('(',type,')(', lname, ' ', op, ' ', rname, ')') elseif",
        "if ltype.is_integral and rtype.is_integral and ltype.is_unsigned ~= rtype.is_unsigned and not lattr.comptime and not rattr.comptime then "
        "emitter:add('(',node.attr.type,')(', lname, ' ', op, ' ', rname, ')') elseif")
    # unary operators: recorded in the evidence only (no nested model uses it, so nothing is raised here)
    unop = "if argattr.type.is_integral and argattr.type.size < primtypes.cint.size then emitter:add('((', argattr.type, ')-', argname, ')') else emitter:add('(-', argname, ')') end" in unm
    unop2 = "if argattr.type.size < primtypes.cint.size then emitter:add('((', argattr.type, ')~', argname, ')') else emitter:add('(~', argname, ')') end" in bnot
    mixed = "elseif ltype.is_integral and rtype.is_integral and ltype.is_unsigned ~= rtype.is_unsigned then "
    td = decide("operators.tdiv", tdiv, mixed + "emitter:add('((', type, ')((', type, ')', lname, ' / (', type, ')', rname, '))') else",
                mixed + "emitter:add('((', type, ')', lname, ' / (', type, ')', rname, ')') else")
    tm = decide("operators.tmod", tmod, mixed + "emitter:add('((', type, ')((', type, ')', lname, ' % (', type, ')', rname, '))') else",
                mixed + "emitter:add('((', type, ')', lname, ' % (', type, ')', rname, ')') else")
    if td != tm:
        raise RuntimeError("operators.tdiv and operators.tmod treat mixed signedness differently: not modelled")
    fast = "if rattr.comptime and rattr.value >= 0 and rattr.value < ltype.bitsize then "
    signed_tail = "else emitter:add('((',ltype,')((',ltype:unsigned_type(),')', lname, ' << ', rname, '))') end else emitter:add_builtin('nelua_shl_', type)"
    sh = decide("operators.shl fast path", shl,
                fast + "if ltype.is_unsigned and ltype.size < primtypes.cint.size then emitter:add('((', ltype, ')(', lname, ' << ', rname, '))') "
                "elseif ltype.is_unsigned then emitter:add('(', lname, ' << ', rname, ')') " + signed_tail,
                fast + "if ltype.is_unsigned then emitter:add('(', lname, ' << ', rname, ')') " + signed_tail)
    if ("if ltype.is_unsigned and rattr.comptime and rattr.value >= 0 and rattr.value < ltype.bitsize then emitter:add('(', lname, ' >> ', rname, ')') else emitter:add_builtin('nelua_shr_', type)" not in shr
            or fast + "emitter:add('(', lname, ' >> ', rname, ')') else emitter:add_builtin('nelua_asr_', type)" not in asr):
        raise RuntimeError("operators.shr/asr: the constant-count fast path changed shape")
    return {"binop_casts_subint": binop, "tdiv_mixed_casts_back": td, "shl_fast_casts_unsigned_subint": sh,
            "unop_casts_subint (recorded only: unary operators have no nested model)": bool(unop) and bool(unop2)}


def gen(ctx):
    types, ladders = load_types(ctx)
    cparse.set_pointer_bits(types["usize"][0])
    exe, ctext = build_driver(ctx)
    ctx.driver_exe = exe
    funcs = cparse.find_functions(ctext, ["nelua_shl_", "nelua_shr_", "nelua_asr_", "nelua_lt_", "nelua_eq_",
                                          "nelua_assert_idiv_", "nelua_assert_imod_"])
    code2name = {v[4]: k for k, v in types.items()}
    one = {"shl": [], "shr": [], "asr": [], "idiv": [], "imod": []}
    two = {"lt": [], "eq": []}
    for name in sorted(funcs):
        ret, params, body = funcs[name]
        m = re.match(r"nelua_(?:assert_)?(shl|shr|asr|idiv|imod)_(nl\w+)$", name)
        m2 = re.match(r"nelua_(lt|eq)_(nl[a-z0-9]+)_(nl[a-z0-9]+)$", name)
        if not m and not m2:
            continue
        try:
            f = cparse.parse_function(ret, params, body)
        except cparse.Unsupported as ex:
            raise RuntimeError("cannot translate emitted helper %s: %s" % (name, ex))
        if m:
            one[m.group(1)].append((code2name[m.group(2)], f))
        else:
            two[m2.group(1)].append((code2name[m2.group(2)], code2name[m2.group(3)], f))
    for k, v in one.items():
        if len(v) < (5 if k in ("idiv", "imod") else 10):
            raise RuntimeError("too few nelua_%s_ helpers in the generated C: %d" % (k, len(v)))
    for k, v in two.items():
        if len(v) < 25:
            raise RuntimeError("too few nelua_%s_ helpers in the generated C: %d" % (k, len(v)))

    def ity(n):
        return cparse.coq_ity(TYPES[n])

    L = ["(* GENERATED by checks/C02.py from %s - do not edit *)" % vlib.REPO,
         "From Base Require Import CInt.", "Local Open Scope Z_scope.", "",
         "Definition promote_signed_types : list ity := [%s]." % "; ".join(ity(n) for n in ladders["signed"]),
         "Definition promote_unsigned_types : list ity := [%s]." % "; ".join(ity(n) for n in ladders["unsigned"]), ""]
    for k in ("shl", "shr", "asr", "idiv", "imod"):
        L.append("Definition %s_table : list (ity * cfun) := [" % k)
        L.append(";\n".join("  (%s, %s)" % (ity(t), cparse.coq(f)) for t, f in one[k]))
        L += ["].", ""]
    disc = scrape_cast_rules()
    L += ["(* discriminating conditions of the emitter (cbuiltins.lua), scraped: which results are cast to their type *)"]
    for k in sorted(disc):
        if " " not in k:
            L.append("Definition %s : bool := %s." % (k, "true" if disc[k] else "false"))
    L.append("")
    for k in ("lt", "eq"):
        L.append("Definition %s_table : list (ity * ity * cfun) := [" % k)
        L.append(";\n".join("  (%s, %s, %s)" % (ity(a), ity(b), cparse.coq(f)) for a, b, f in two[k]))
        L += ["].", ""]
    vlib.write_if_changed(os.path.join(vlib.coq_dir(ID), "Gen.v"), "\n".join(L) + "\n")
    return {"emitter_cast_rules": disc, "ladders": ladders, "types": {k: {"bits": v[0], "signed": v[1]} for k, v in types.items()},
            "helpers": {k: len(v) for k, v in list(one.items()) + list(two.items())},
            "driver_fingerprint": repo_fingerprint()}


# --------------------------------------------------------------------------- exact semantics (oracle)

def exact(op, lt, a, b):
    """Mathematical result (Lua 5.4 meaning; shifts on the representation of the left type);
    None when undefined (division by zero)."""
    bits = TYPES[lt][0]
    M = 1 << bits
    if op == "add": return a + b
    if op == "sub": return a - b
    if op == "mul": return a * b
    if op in ("idiv", "mod", "tdiv", "tmod"):
        if b == 0:
            return None
        if op == "idiv": return a // b
        if op == "mod": return a % b
        q = abs(a) // abs(b)
        q = q if (a < 0) == (b < 0) else -q
        return q if op == "tdiv" else a - q * b
    if op == "bor": return a | b
    if op == "bxor": return a ^ b
    if op == "band": return a & b
    if op == "shl":
        if b < 0: return ((a % M) >> -b) if -bits < b else 0
        return ((a % M) << b) if b < bits else 0
    if op == "shr":
        if b < 0: return ((a % M) << -b) if -bits < b else 0
        return ((a % M) >> b) if b < bits else 0
    if op == "asr":
        if b < 0: return (a << -b) if -bits < b else 0
        return (a >> b) if b < bits else (-1 if a < 0 else 0)
    if op == "lt": return a < b
    if op == "le": return a <= b
    if op == "gt": return a > b
    if op == "ge": return a >= b
    if op == "eq": return a == b
    if op == "ne": return a != b
    if op == "unm": return -a
    if op == "bnot": return ~a
    raise KeyError(op)


def lattice(t):
    lo, hi = rng_of(t)
    L = {lo, lo + 1, -3, -2, -1, 0, 1, 2, 3, hi - 1, hi}
    for k in (6, 7, 8, 15, 16, 31, 32, 62, 63):
        for d in (-1, 0, 1):
            L.add((1 << k) + d)
            L.add(-(1 << k) + d)
    return sorted(x for x in L if lo <= x <= hi)


def counts(t):
    lo, hi = rng_of(t)
    C = set(range(-10, 11)) | {15, 16, 17, 31, 32, 33, 63, 64, 65, 70, 127, 128, 129, 159, 160, 161, 255, 256, 257,
                               -15, -16, -17, -31, -32, -33, -63, -64, -65, -70, -127, -128, -129, -160, -161, lo, hi, lo + 1, hi - 1,
                               (1 << 31), (1 << 31) + 1, (1 << 32), (1 << 32) + 1, (1 << 63), (1 << 63) - 1}
    return sorted(x for x in C if lo <= x <= hi)


def gen_cases(ctx):
    """[(stream, op, lt, rt, a, b)] for binary ops (b None for unary)."""
    rng = ctx.rng
    cases = []
    nsample = ctx.scale(10, 60)
    for op in BINOPS:
        for lt in ITYPES:
            La = lattice(lt)
            for rt in ITYPES:
                Lb = counts(rt) if op in SHIFTOPS else lattice(rt)
                pairs = set()
                # boundary corners always, the rest sampled
                for a in (La[0], La[-1], -1, 0, 1):
                    for b in (Lb[0], Lb[-1], -1, 0, 1, 2):
                        if inrange(lt, a) and inrange(rt, b):
                            pairs.add((a, b))
                for _ in range(nsample):
                    pairs.add((rng.choice(La), rng.choice(Lb)))
                for a, b in sorted(pairs):
                    cases.append(("lattice", op, lt, rt, a, b))
    for op in UNOPS:
        for t in ITYPES:
            for a in lattice(t):
                cases.append(("lattice", op, t, None, a, None))
    # dense 8-bit streams
    n8 = ctx.scale(1500, 40000)
    t8 = [t for t in ITYPES if TYPES[t][0] == 8]
    for _ in range(n8):
        op = rng.choice(BINOPS)
        lt, rt = rng.choice(t8), rng.choice(t8)
        a, b = rng.randint(*rng_of(lt)), rng.randint(*rng_of(rt))
        cases.append(("dense8", op, lt, rt, a, b))
    # random wide values
    for _ in range(ctx.scale(1500, 40000)):
        op = rng.choice(BINOPS)
        lt, rt = rng.choice(ITYPES), rng.choice(ITYPES)
        def draw(t):
            lo, hi = rng_of(t)
            k = rng.choice([4, 8, 16, 31, 32, 33, 62, 63, 64])
            v = rng.getrandbits(k) * rng.choice([1, -1])
            return min(max(v, lo), hi)
        a = draw(lt)
        b = rng.choice(counts(rt)) if op in SHIFTOPS and rng.random() < .7 else draw(rt)
        cases.append(("random", op, lt, rt, a, b))
    return cases


# designated witnesses (DESIGN.md section 5 + reviewer notes), replayed on every run
WITNESSES = [
    ("mul", "int64", "int64", 9223372036854775807, 3),
    ("shl", "int8", "int32", 1, 257),
    ("shl", "int8", "int8", 77, 2),
    ("shl", "int8", "uint8", 64, 255),
    ("tmod", "int8", "int8", -128, -1),
    ("tdiv", "int8", "int8", -128, -1),
    ("unm", "int64", None, -9223372036854775808, None),
    ("shl", "int8", "int8", -1, -8),
    ("shr", "uint8", "uint8", 64, 255),
    ("tdiv", "int32", "uint32", -128, 2),
    ("tmod", "int64", "uint64", -7, 2),
    ("tdiv", "int64", "int64", -9223372036854775808, -1),      # still rejected: the run time is undefined there
    ("shl", "uint64", "uint64", 82, 18446744073709551615),     # still wrong at run time (known finding)
]


def load_corpus():
    out = []
    p = os.path.join(vlib.VERIF, "corpus", ID, "cases.txt")
    if os.path.exists(p):
        for line in vlib.read(p).split("\n"):
            w = line.split()
            if not w or line.startswith("#"):
                continue
            if len(w) == 5:
                out.append(("corpus", w[0], w[1], w[2], int(w[3]), int(w[4])))
            elif len(w) == 3:
                out.append(("corpus", w[0], w[1], None, int(w[2]), None))
    return out


def run_parallel(cmd, lines, jobs, env=None):
    n = len(lines)
    chunk = (n + jobs - 1) // jobs
    parts = [lines[k * chunk:(k + 1) * chunk] for k in range(jobs)]
    parts = [p for p in parts if p]
    results = [None] * len(parts)
    e = dict(os.environ)
    if env:
        e.update(env)

    def work(ix, part):
        p = subprocess.Popen(cmd, stdin=subprocess.PIPE, stdout=subprocess.PIPE, stderr=subprocess.PIPE, text=True, errors="replace", env=e)
        o, err = p.communicate("\n".join(part) + "\n")
        results[ix] = (o, err, p.returncode)

    ths = [threading.Thread(target=work, args=(ix, part)) for ix, part in enumerate(parts)]
    for t in ths:
        t.start()
    for t in ths:
        t.join()
    outs = []
    for part, (o, err, rc) in zip(parts, results):
        ls = o.split("\n")
        if ls and ls[-1] == "":
            ls.pop()
        if rc != 0 or len(ls) != len(part):
            raise RuntimeError("%s: rc=%s, %d lines for %d cases; stderr: %s" % (cmd[-1], rc, len(ls), len(part), err[-500:]))
        outs += ls
    return outs


def parse_fold_impl(line):
    """fold.lua output -> ('T', typename, value) | ('B', bool) | ('E', msg) | ('F', text)"""
    w = line.split(" ", 2)
    if w[0] == "T":
        if w[1] == "boolean":
            return ("B", w[2] == "true")
        if w[2].startswith("f:") or w[1].startswith("float"):
            return ("F", w[1], w[2])
        return ("T", w[1], int(w[2]))
    if w[0] == "E":
        return ("E", line[2:])
    return ("X", line)


def parse_rt_impl(line):
    w = line.split()
    if w[0] == "V":
        if w[1] == "boolean":
            return ("B", w[2] == "1")
        if w[1].startswith("float"):
            return ("F", w[1], w[2])
        return ("V", w[1], int(w[2]))
    if w[0] == "P":
        msg = " ".join(w[3:])
        if w[1] == "sig" and w[2] == "6" and msg == "division by zero":
            return ("P", 4)
        return ("X", " ".join(w[1:3]))       # crash (SIGFPE ...): undefined at the C level
    return ("X", line)


def classify(op, lt, rt, a, b, F, R, E):
    """Name of the divergence class of an input on which the implementation behaves exactly as the
    model of the unchanged code predicts (cause-based; used as the violation key)."""
    T = R[1] if R[0] == "V" else None
    if F[0] == "E" and E is not None:
        return "fold-rejects-min-by-minus-one:" + op
    if T and E is not None and not isinstance(E, bool) and R[2] != wrap(T, E):
        if op in SHIFTOPS:
            if b >= (1 << 63):
                return "cbuiltins.nelua_%s_:count-parameter-is-int64:%s:%s" % (op, lt, rt)
            return "runtime-shift-count-narrowed:" + op
        return "runtime-mixed-signedness-in-plain-C-operator:" + op
    if op in CMPOPS:
        return "comparison:" + op
    if F[0] == "T" and not inrange(F[1], F[2]):
        return "fold-value-outside-its-type(wrap_value beyond one wrap):" + op
    if op in SHIFTOPS:
        return "fold-shift-on-160-bit-value-wrapped-before-promotion:" + op
    return "fold-baked-value-differs:" + op


def same_ity(name, bits_sgn):
    return TYPES[name] == bits_sgn


def correspond(ctx):
    if not TYPES:
        load_types(ctx)
    exe = getattr(ctx, "driver_exe", None) or build_driver(ctx)[0]
    mdriver = vlib.ocaml_build(ID)
    interp = vlib.ensure_interp()
    cases = [("witness",) + w for w in WITNESSES] + load_corpus() + gen_cases(ctx)
    fold_in, rt_in, mf_in, mr_in = [], [], [], []
    for (_, op, lt, rt, a, b) in cases:
        if rt is None:
            fold_in.append("un %s %s %d" % (op, lt, a))
            rt_in.append("un %s %s %d" % (op, lt, a))
            mf_in.append("foldun %s %s %s" % (op, tb(lt), hx(a)))
            mr_in.append("rtun %s %s %s" % (op, tb(lt), hx(a)))
        else:
            fold_in.append("bin %s %s %s %d %d" % (op, lt, rt, a, b))
            rt_in.append("bin %s %s %s %d %d" % (op, lt, rt, a, b))
            mf_in.append("fold %s %s %s %s %s 0 0" % (op, tb(lt), tb(rt), hx(a), hx(b)))
            mr_in.append("rt %s %s %s %s %s" % (op, tb(lt), tb(rt), hx(a), hx(b)))
    jobs = 8 if ctx.thorough else 4
    fold_out = run_parallel([interp, os.path.join(vlib.VERIF, "harness", ID, "fold.lua")], fold_in, jobs, env=vlib.lua_env())
    rt_out = run_parallel(["bash", "-c", "ulimit -c 0; exec '%s'" % exe], rt_in, jobs)
    m_out = run_parallel([mdriver], mf_in + mr_in, 2)
    mf_out, mr_out = m_out[:len(cases)], m_out[len(cases):]

    dist, per_op, kinds = {}, {}, {}
    nontrivial = set()
    n_oracle = n_mismatch = n_rt_undefined = n_outside = 0
    per_key = {}
    outside = {}

    def violation(key, summary, detail, failing=True, kind="oracle"):
        per_key[key] = per_key.get(key, 0) + 1
        if per_key[key] == 1:
            ctx.violation(key, kind, summary, detail=detail, failing_input=failing)

    # ---- literal emission of every folded (type, value): what is actually baked into the C code
    folded = [parse_fold_impl(fl) for fl in fold_out]
    lit_cases = sorted({(F[1], F[2]) for F in folded if F[0] == "T"})
    extra = []
    for t in ITYPES:
        lo, hi = rng_of(t)
        for v in (lo, lo + 1, -1, 0, 1, hi - 1, hi, lo - 1, hi + 1, 2 * hi + 1, 2 * hi + 2, 2 * lo - 1, 3 * hi, 3 * lo, -204, 308, 2147483647, 2147483648, -2147483648, -2147483649, 4294967295, 4294967296):
            extra.append((t, v))
    lit_all = sorted(set(lit_cases + extra))
    lit_in = ["lit %s %d" % (t, v) for t, v in lit_all]
    conv_in = ["conv %s int64 %d" % (t, v) for t, v in lit_all if -(1 << 63) <= v < (1 << 63)]
    lit_m = ["baked %s %s" % (tb(t), hx(v)) for t, v in lit_all] + ["conv %s %s" % (tb(t), hx(v)) for t, v in lit_all if -(1 << 63) <= v < (1 << 63)]
    lo_out = run_parallel([interp, os.path.join(vlib.VERIF, "harness", ID, "fold.lua")], lit_in + conv_in, 2, env=vlib.lua_env())
    lm_out = run_parallel([mdriver], lit_m, 1)
    baked_impl = {}
    for (t, v), o in zip(lit_all, lo_out):
        txt = o[2:] if o.startswith("L ") else None
        try:
            baked_impl[(t, v)] = (eval(re.sub(r"(?<=[0-9a-fA-F])[uUlL]+\b", "", txt)), txt)
        except Exception:
            baked_impl[(t, v)] = (None, txt)

    for (stream, op, lt, rt, a, b), fl, rl, mfl, mrl in zip(cases, fold_out, rt_out, mf_out, mr_out):
        dist[stream] = dist.get(stream, 0) + 1
        per_op[op] = per_op.get(op, 0) + 1
        text = "%s %s %s %d %d" % (op, lt, rt, a, b) if rt else "%s %s %d" % (op, lt, a)
        if a not in (0, 1) and b not in (0, 1):
            nontrivial.add(text)
        F, R = parse_fold_impl(fl), parse_rt_impl(rl)
        kinds["fold:" + F[0]] = kinds.get("fold:" + F[0], 0) + 1
        kinds["rt:" + R[0]] = kinds.get("rt:" + R[0], 0) + 1
        E = exact(op, lt, a, b)
        replay = {"fold": "echo '%s' | LUA_PATH='%s/lualib/?.lua;;' <nelua-lua> %s/harness/C02/fold.lua" % (fold_in[0] and ("bin " + text if rt else "un " + text), vlib.REPO, vlib.VERIF),
                  "rt": "echo '%s' | %s" % ("bin " + text if rt else "un " + text, exe)}
        # ---- model correspondence (fold side)
        if F[0] == "T":
            mine = "T %s %s" % (tb(F[1]), hx(F[2]))
        elif F[0] == "B":
            mine = "B %d" % (1 if F[1] else 0)
        elif F[0] == "E":
            mine = "E 1" if "divide by zero" in F[1] else ("E 2" if "divide overflow" in F[1] else "E ?")
        else:
            mine = "X"
        fold_model_ok = (mine == mfl)
        # ---- model correspondence (run-time side)
        if R[0] == "V":
            rmine = "V %s %s" % (tb(R[1]), hx(R[2]))
        elif R[0] == "B":
            rmine = "B %d" % (1 if R[1] else 0)
        elif R[0] == "P":
            rmine = "P %x" % R[1]
        else:
            rmine = "UB"       # a crash of the child corresponds to undefined behaviour of the C expression
        rt_model_ok = (rmine == mrl)
        # ---- property oracle
        problems = []
        T = R[1] if R[0] == "V" else None
        if op in CMPOPS:
            if F != ("B", E):
                problems.append("folded comparison is %s, exact is %s" % (F, E))
            if R != ("B", E):
                problems.append("run-time comparison is %s, exact is %s" % (R, E))
        elif E is None:
            if F[0] != "E":
                problems.append("division by zero folds to %s instead of being rejected" % (F,))
            if R[0] == "X":
                n_rt_undefined += 1
            elif R != ("P", 4):
                problems.append("run-time division by zero gives %s" % (R,))
        else:
            if R[0] == "X":
                n_rt_undefined += 1     # e.g. INT_MIN /// -1 at 32/64 bits: C-level undefined, C03's concern
            operands_in_T = T is not None and inrange(T, a) and (b is None or inrange(T, b))
            if R[0] == "V" and operands_in_T and R[2] != wrap(T, E):
                problems.append("run time gives %d, the exact result %d reduced to %s is %d" % (R[2], E, T, wrap(T, E)))
            if F[0] == "E":
                if R[0] != "X":      # rejected although the run time computes a value
                    problems.append("constant expression is rejected (%s) although the exact result is %d and the run time gives %s" % (F[1], E, R))
            elif F[0] == "T" and R[0] == "V":
                tp, v = F[1], F[2]
                bk = baked_impl.get((tp, v), (None, None))[0]
                if operands_in_T:
                    if not inrange(tp, v):
                        problems.append("the folded value %d lies outside its own type %s (any typed use of the constant is rejected at compile time, the run-time value %d needs no check)" % (v, tp, R[2]))
                    if inrange(T, E):
                        if bk != E:
                            problems.append("baked value %s (folded %d, %s) differs from the exact result %d, representable in the run-time result type %s" % (bk, v, tp, E, T))
                    else:
                        carried = inrange(tp, v) and v == E
                        if not carried and bk != R[2]:
                            problems.append("baked value %s (folded %d, %s) is neither the exact result %d carried by a wider/signed type nor the run-time value %d" % (bk, v, tp, E, R[2]))
                else:
                    # an operand is not representable in the run-time result type: outside the property's
                    # quantifier; fold / run-time divergences there are counted, not reported
                    if not ((inrange(tp, v) and v == E) or bk == R[2]):
                        n_outside += 1
                        cl = classify(op, lt, rt, a, b, F, R, E)
                        outside[cl] = outside.get(cl, 0) + 1
                    if stream == "witness" and (R[2] != wrap(T, E) or not ((inrange(tp, v) and v == E) or bk == R[2])):
                        problems.append("(operand not representable in the result type %s: outside the property's quantifier, recorded as a fold/run-time divergence) folded %d (%s), run time %d, exact %d" % (T, v, tp, R[2], E))
        if problems:
            n_oracle += 1
            as_model = fold_model_ok and rt_model_ok
            if stream == "witness":
                key = "witness:" + text
            elif as_model:
                key = classify(op, lt, rt, a, b, F, R, E)
            else:
                key = "case:" + text
            violation(key, "C02 `%s`: %s" % (text, "; ".join(problems)),
                      {"case": text, "fold_implementation": fl, "runtime_implementation": rl, "fold_model": mfl, "runtime_model": mrl,
                       "exact": E if not isinstance(E, bool) else str(E), "behaves_as_model_of_unchanged_code": as_model, "replay": replay})
        else:
            if not fold_model_ok:
                n_mismatch += 1
                if n_mismatch <= 3:
                    violation("model-mismatch:fold:" + op, "fold model no longer corresponds to types.lua on `%s`: model `%s`, implementation `%s` (property oracle satisfied)" % (text, mfl, fl),
                              {"case": text, "model": mfl, "implementation": fl, "no_longer_checks": "correspondence stream C02/fold/" + op}, failing=False, kind="correspondence")
            if not rt_model_ok:
                n_mismatch += 1
                if n_mismatch <= 3:
                    violation("model-mismatch:rt:" + op, "run-time model no longer corresponds to the emitted code on `%s`: model `%s`, implementation `%s` (property oracle satisfied)" % (text, mrl, rl),
                              {"case": text, "model": mrl, "implementation": rl, "no_longer_checks": "correspondence stream C02/rt/" + op}, failing=False, kind="correspondence")

    # ---- literal emission (add_scalar_literal incl. its re-wrap) and constant conversion verdicts
    lit_in = lit_in + conv_in
    n_lit = n_conv = 0
    for inp, o, m in zip(lit_in, lo_out, lm_out):
        w = inp.split()
        if w[0] == "lit":
            n_lit += 1
            t, v = w[1], int(w[2])
            txt = o[2:] if o.startswith("L ") else None
            try:
                val = eval(re.sub(r"(?<=[0-9a-fA-F])[uUlL]+\b", "", txt)) if txt else None
            except Exception:
                val = None
            mv = unhx(m[2:].split()[0]) if m.startswith("V ") else None
            # C type of the emitted literal token (C11 6.4.4.1) against the model of the suffix rule
            if txt:
                toks = re.findall(r"(?:0[xX][0-9a-fA-F]+|\d+)[uUlL]*", txt)
                try:
                    cty = cparse.literal(toks[0])[1] if toks else None
                except cparse.Unsupported:
                    cty = None
                mty = m.split()[2:4] if m.startswith("V ") and len(m.split()) >= 4 else None
                if cty is not None and mty is not None and [str(cty[0]), "1" if cty[1] else "0"] != mty:
                    n_mismatch += 1
                    violation("model-mismatch:literal-ctype", "add_scalar_literal(%d, %s) prints `%s`, a C constant of type %s%d; the model of the suffix rule says %s%s" %
                              (v, t, txt, "int" if cty[1] else "uint", cty[0], "int" if mty[1] == "1" else "uint", mty[0]),
                              {"case": inp, "implementation": o, "model": m, "no_longer_checks": "correspondence stream C02/literal C type"}, failing=False, kind="correspondence")
            if val is None or val != mv:
                n_mismatch += 1
                violation("model-mismatch:literal", "add_scalar_literal(%d, %s) prints `%s` (= %s), model bakes %s" % (v, t, txt, val, mv),
                          {"case": inp, "implementation": o, "model": m}, failing=False, kind="correspondence")
            # property: a value that is baked for type t must be the two's complement reduction of the value
            if val is not None and wrap(t, val) != wrap(t, v):
                key = "literal-rewrap-not-modular" if val == mv else "case:" + inp
                violation(key, "C02 `%s`: the C literal `%s` (= %d) baked for the constant %d of type %s is not its reduction %d into the type" % (inp, txt, val, v, t, wrap(t, v)),
                          {"case": inp, "implementation": o, "model": m, "oracle": wrap(t, v)})
        else:
            n_conv += 1
            t, v = w[1], int(w[3])
            acc = o.startswith("OK")
            if acc != inrange(t, v):
                violation("case:" + inp, "C02 `%s`: constant conversion is %s although the value is %s the range of %s (the run-time check fires exactly outside the range)" %
                          (inp, "accepted" if acc else "rejected", "in" if inrange(t, v) else "outside", t),
                          {"case": inp, "implementation": o})
            elif (m == "OK") != acc:
                n_mismatch += 1
                violation("model-mismatch:conv", "conv model differs on `%s`" % inp, {"case": inp, "implementation": o, "model": m}, failing=False, kind="correspondence")

    pstats = probe_stream(ctx, mdriver, violation)
    extra_probe_stream(ctx, mdriver, violation, pstats)
    # ---- untyped literals through the fold API (types.promote_type_for_attrs): model vs types.lua
    ul_in, ul_m = [], []
    for op in ("add", "sub", "mul", "idiv", "mod", "tdiv", "tmod", "bor", "bxor", "band"):
        for t in ITYPES:
            L = lattice(t)
            for _ in range(ctx.scale(6, 40)):
                a = ctx.rng.choice(L)
                l = ctx.rng.choice([1, 2, 3, -1, -2, 127, 128, 255, 256, 300, -129, 32768, 65536, 70000, 2147483648, 4294967296, -2147483649, 9223372036854775807])
                if op in DIVOPS and (l == 0 or a == 0):
                    continue
                ul_in.append("bin %s %s int64 %d %d 0 1" % (op, t, a, l)); ul_m.append("fold %s %s %s %s %s 0 1" % (op, tb(t), tb("int64"), hx(a), hx(l)))
                ul_in.append("bin %s int64 %s %d %d 1 0" % (op, t, l, a)); ul_m.append("fold %s %s %s %s %s 1 0" % (op, tb("int64"), tb(t), hx(l), hx(a)))
    ul_o = run_parallel([interp, os.path.join(vlib.VERIF, "harness", ID, "fold.lua")], ul_in, 2, env=vlib.lua_env())
    ul_mo = run_parallel([mdriver], ul_m, 1)
    n_untyped = 0
    for inp, o, m in zip(ul_in, ul_o, ul_mo):
        n_untyped += 1
        F = parse_fold_impl(o)
        mine = "T %s %s" % (tb(F[1]), hx(F[2])) if F[0] == "T" else ("E 1" if F[0] == "E" and "divide by zero" in F[1] else ("E 2" if F[0] == "E" and "divide overflow" in F[1] else "X"))
        if mine != m:
            n_mismatch += 1
            violation("model-mismatch:fold-untyped", "fold model (untyped literal rule) differs from types.lua on `%s`: model `%s`, implementation `%s`" % (inp, m, o),
                      {"case": inp, "model": m, "implementation": o, "no_longer_checks": "correspondence stream C02/fold-untyped"}, failing=False, kind="correspondence")
    pstats["untyped_fold_cases"] = n_untyped
    return {
        "evaluations": len(cases) + len(lit_in) + pstats["probes"],
        "distinct_nontrivial": len(nontrivial),
        "rule": "cases = designated witnesses + corpus + (19 binary + 2 unary operators) x 100 type pairs x boundary-lattice value pairs (corners always, rest sampled; shift counts -10..10, around 8/16/32/64/128/160/256 and the type limits) + dense 8-bit + random wide streams; each case is run through the compiler's fold functions (types.lua via its Lua API), through the compiled run-time driver, through the extracted model (fold and run-time) and the exact-integer oracle; literal emission and constant-conversion verdicts on every folded (type, value); non-trivial = operands not in {0,1}",
        "samples": [c[1:] for c in cases[:3]] + [c[1:] for c in cases[-3:]],
        "distribution": {"streams": dist, "per_op": per_op, "outcomes": kinds, "literal_cases": n_lit, "conversion_cases": n_conv,
                         "runtime_undefined_at_C_level": n_rt_undefined,
                         "divergences_outside_the_quantifier": outside, "probe_programs": pstats},
        "oracle_failures": n_oracle,
        "oracle_failures_by_key": per_key,
        "model_mismatches": n_mismatch,
        "traces_validated_against_impl": 2 * len(cases) + len(lit_in),
        "unproved": UNPROVED,
    }


# --------------------------------------------------------------------------- end-to-end probe programs

PROBE_HEADER = '''-- GENERATED by checks/C02.py: constant expression vs the same expression on operands hidden
-- behind <noinline> functions (r), and the two half-constant forms (h1: right operand constant,
-- h2: left operand constant).  One line per probe:
--   P <k> <folded type> <folded value (attr.value)> | <type> <baked c> | <type> <r> | <type> <h1> | <type> <h2>
local function printf(fmt: cstring, ...: cvarargs): cint <cimport,cinclude'<stdio.h>',nodecl> end
local function outv(v: auto) <noinline>
  ## if v.type.is_boolean then
    local one: cint = 0
    if v then one = 1 end
    printf(" boolean %d", one)
  ## elseif v.type.is_float then
    printf(" %s %a", #[v.type.name]#, (@float64)(v))
  ## elseif v.type.is_unsigned then
    printf(" %s %llu", #[v.type.name]#, (@culonglong)(v))
  ## else
    printf(" %s %lld", #[v.type.name]#, (@clonglong)(v))
  ## end
end
'''


def lit(v):
    if isinstance(v, float):
        if v != v:
            return "(0.0/0.0)"
        if v in (float("inf"), float("-inf")):
            return "(%s1.0/0.0)" % ("-" if v < 0 else "")
        return "(%s)" % v.hex()
    return "%d" % v


FLOAT_OPS = ["add", "sub", "mul", "div", "idiv", "tdiv", "mod", "tmod", "pow", "lt", "le", "eq", "ne", "unm"]
OPSYM.update({"div": "/", "pow": "^"})


def _f32(x):
    import struct
    try:
        return struct.unpack("<f", struct.pack("<f", x))[0]
    except OverflowError:
        return float("inf") if x > 0 else float("-inf")


def predict_float_fold(op, lt, rt, a, b):
    """What the compiler's fold bakes for a float operation, by the unchanged code: the operation on
    Lua doubles (types.lua make_float_binary_opfunc / make_integral_binary_op), then - for a float32
    result - the 9-digit decimal literal rounded by the C compiler.  None when not predictable."""
    import math
    try:
        x, y = float(a), (float(b) if b is not None else None)
        def fdiv(p, q):
            if q == 0:
                if p == 0 or p != p:
                    return float("nan")
                neg = (p < 0) != (math.copysign(1.0, q) < 0)
                return float("-inf") if neg else float("inf")
            return p / q
        if op == "tdiv" and not lt.startswith("float") and y == 0 and x == x:
            # IntegralType.tdiv: `if bn.iszero(b) then return bn.tonumber(a) / 0 end` - the sign of a zero divisor is dropped
            v = float("nan") if x == 0 else (float("inf") if x > 0 else float("-inf"))
        elif op in ("tdiv", "tmod") and not lt.startswith("float") and x == int(x) and y == int(y) and y != 0 and abs(x) != float("inf") and abs(y) != float("inf"):
            # IntegralType.tdiv/tmod -> bint.tdivmod: integer-valued float operands are computed as big integers
            ia, ib = int(x), int(y)
            q = abs(ia) // abs(ib)
            q = -q if (ia < 0) != (ib < 0) else q
            r = abs(ia) % abs(ib)
            r = -r if ia < 0 else r
            v = float(q if op == "tdiv" else r)      # an integer zero has no sign
        elif op == "add": v = x + y
        elif op == "sub": v = x - y
        elif op == "mul": v = x * y
        elif op == "div": v = fdiv(x, y)
        elif op == "idiv":
            v = fdiv(x, y)
            v = float(math.floor(v)) if v == v and abs(v) != float("inf") else v
        elif op == "tdiv":
            q = fdiv(x, y)
            v = q if (q == 0 or q != q or abs(q) == float("inf")) else math.copysign(float(math.floor(abs(q))), q)
        elif op == "mod":
            if y == 0 or abs(x) == float("inf") or x != x or y != y: return None
            if abs(y) == float("inf"): return None
            v = math.fmod(x, y)
            if v * y < 0: v += y
        elif op == "tmod":
            if y == 0 or abs(x) == float("inf") or x != x or y != y: return None
            r = math.fmod(abs(x), abs(y)) if abs(y) != float("inf") else abs(x)
            v = -r if x < 0 else r
        elif op == "pow": v = math.pow(x, y)
        elif op == "unm": v = -x
        else: return None
    except (OverflowError, ValueError, ZeroDivisionError):
        return None
    res32 = ("float32" in (lt, rt)) and "float64" not in (lt, rt)
    if res32 and v == v and abs(v) != float("inf"):
        v = _f32(float("%.9g" % v))
    return v


def predict_float32_rt(op, lt, rt, a, b):
    """Run-time value of a float32-result + - * / by the unchanged emitter: both operands converted to float32, one correctly
    rounded float32 operation (a double operation on float32 operands rounded to float32 is the same value).  None otherwise."""
    if op not in ("add", "sub", "mul", "div") or "float64" in (lt, rt) or "float32" not in (lt, rt):
        return None
    try:
        x, y = _f32(float(a)), _f32(float(b))
        if op == "div" and y == 0:
            return None
        return _f32({"add": x + y, "sub": x - y, "mul": x * y, "div": (x / y) if y != 0 else 0.0}[op])
    except (OverflowError, ValueError, TypeError):
        return None


def float_key(op, lt, rt, a, b, const_val, text, run_val=None):
    """Key of a float divergence: designated witnesses by exact input; otherwise a key naming the code
    site, operator and operand types, and only when the baked constant is what the unchanged code is
    predicted to bake (float32 folded in double precision / sign of zero of %%%); else the exact input."""
    if (op, lt, rt, repr(a), repr(b)) in [(w[0], w[1], w[2], repr(w[3]), repr(w[4])) for w in FLOAT_WITNESSES]:
        return "case:float:" + text
    pred = predict_float_fold(op, lt, rt, a, b)
    same = pred is not None and const_val is not None and (pred == const_val or (pred != pred and const_val != const_val))
    if same and op == "tdiv" and not lt.startswith("float") and isinstance(b, float) and b == 0:
        return "types.lua:IntegralType.tdiv:sign-of-zero-divisor-dropped:%s:%s" % (lt, rt)
    if same and op in ("tdiv", "tmod") and not lt.startswith("float") and const_val == 0:
        return "types.lua:IntegralType.%s:integer-valued-float-operands-lose-sign-of-zero:%s:%s" % (op, lt, rt)
    # the float32 cause applies to float32 RESULTS only (float64 x float32 is computed in double on both sides), and for
    # + - * / the run-time side must be what the unchanged emitter computes as well
    rp = predict_float32_rt(op, lt, rt, a, b) if rt else None
    rt_ok = rp is None or run_val is None or rp == run_val or (rp != rp and run_val != run_val)
    if same and rt_ok and "float32" in (lt, rt or "") and "float64" not in (lt, rt or ""):
        return "types.lua:float-binary-op:float32-folded-in-double:%s:%s:%s" % (op, lt, rt)
    if same and op == "tmod" and isinstance(a, float) and a == 0 and str(a).startswith("-"):
        return "types.lua:FloatType.tmod:sign-of-zero:%s:%s" % (lt, rt)
    return "case:float:" + text


FLOAT_WITNESSES = [("tdiv", "int32", "float32", -7, _f32(0.1)), ("sub", "float32", "int8", _f32(1 / 3.0), 1),
                   ("tmod", "float64", "int8", -0.0, -128), ("pow", "float32", "int32", -2.5, 2147483647),
                   ("tmod", "int32", "float64", -7, -1.0), ("tdiv", "uint8", "float64", 255, -9223372036854775807),
                   ("tdiv", "uint8", "float32", 1, -0.0)]
# witnesses of the float defects repaired by 5e677f6 (must pass)
FLOAT_FIXED_WITNESSES = [("idiv", "float64", "uint8", 4, 0), ("add", "float64", "float64", 9223372036854775807, 1),
                         ("tdiv", "float64", "float64", -1.0, 2.0), ("mul", "float64", "float64", 4611686018427387904, 4)]


def _float_special_grid():
    """Fixed grid, every run: the libm-backed folded float operators (`^` -> pow, `%` `%%%` -> fmod, `//` `///` -> floor/trunc
    of the quotient, `/`) on IEEE special values x special right operands.  The fold runs in the compiler's own Lua VM
    (luai_numpow, luai_nummod, ... of src/lua, rebuilt from the repository under test on every run), the run time in libm:
    results are compared as printed by %a, i.e. bit for bit up to the NaN payload/sign (sign of zero and infinity included)."""
    inf, nan = float("inf"), float("nan")
    bases = [inf, -inf, 0.0, -0.0, nan, 1.0, -1.0, 2.25, -8.0, 0.5, -0.5, 1e300, 5e-324]
    exps = [0.5, -0.5, 2.0, -2.0, -1.0, 0.0, -0.0, inf, -inf, nan, 1 / 3.0, 3.0, 1.0, 1.5]
    divs = [inf, -inf, 0.0, -0.0, nan, 1.0, -1.0, 3.0, -0.5]
    out = []
    for a in bases:
        for b in exps:
            out.append(("pow", "float64", "float64", a, b))
    for op in ("mod", "tmod", "idiv", "tdiv", "div"):
        for a in bases[:11]:
            for b in divs:
                out.append((op, "float64", "float64", a, b))
    # float32 and integer operands of `^` (the fold still runs Lua's double `^`)
    for a in (inf, -inf, 0.0, -0.0, nan, -8.0, 2.25):
        for b in (0.5, 2.0, -1.0, inf, 3.0):
            out.append(("pow", "float32", "float32", a, b))
            out.append(("pow", "float32", "float64", a, b))
    for (t, a) in (("int32", -7), ("int32", 0), ("int8", -128), ("uint8", 4), ("int64", -9223372036854775808)):
        for b in (0.5, -0.5, -1.0, 0.0, inf, -inf, nan, 1 / 3.0):
            out.append(("pow", t, "float64", a, b))
    for a in (inf, -inf, 0.0, -0.0, nan, -1.0):
        out.append(("unm", "float64", None, a, None))
    return out


FLOAT_SPECIAL_GRID = _float_special_grid()


def float_candidates(rng, n):
    import struct
    f32 = lambda x: struct.unpack("<f", struct.pack("<f", x))[0]
    vals64 = [0.0, -0.0, 1.0, -1.0, 0.5, -0.5, 1.5, -2.5, 3.0, 7.0, -7.0, 1e10, 2.0 ** 53, 2.0 ** 53 + 2, 2.0 ** 63, -2.0 ** 63, 1e300, 1e-300, 0.1, 1 / 3.0,
              # integer-valued literals (kept as big integers by the analyzer)
              1, -1, 2, 4, 10, 9223372036854775807, -9223372036854775807, 4611686018427387904, 3037000500]
    vals32 = [f32(x) for x in [0.0, -0.0, 1.0, -1.0, 0.5, 1.5, -2.5, 3.0, 7.0, 1e10, 2.0 ** 24, 2.0 ** 24 + 2, 0.1, 1 / 3.0, 3e38]]
    ints = {"int8": [-128, -1, 0, 1, 3, 127], "int32": [-2147483648, -7, 0, 2, 2147483647], "int64": [-9223372036854775808, -3, 0, 5, 9007199254740993, 9223372036854775807],
            "uint8": [0, 1, 200, 255], "uint64": [0, 3, 18446744073709551615]}
    # designated: an integer-valued float constant divided by an integer zero (the fold runs the
    # Lua integer operator and the compiler dies with a traceback)
    out = list(FLOAT_FIXED_WITNESSES) + list(FLOAT_WITNESSES) + list(FLOAT_SPECIAL_GRID)
    n += len(FLOAT_SPECIAL_GRID)
    types = ["float64", "float32"] + list(ints)
    while len(out) < n:
        op = rng.choice(FLOAT_OPS)
        lt = rng.choice(types)
        if op == "unm":
            if lt.startswith("float"):
                out.append((op, lt, None, rng.choice(vals64 if lt == "float64" else vals32), None))
            continue
        rt = rng.choice(types)
        if not (lt.startswith("float") or rt.startswith("float") or op in ("div", "pow")):
            continue
        def draw(t):
            return rng.choice(vals64 if t == "float64" else vals32 if t == "float32" else ints[t])
        a, b = draw(lt), draw(rt)
        if op in ("idiv", "tdiv", "mod", "tmod", "div") and b == 0 and not (lt.startswith("float") or rt.startswith("float")):
            continue
        out.append((op, lt, rt, a, b))
    return out


def probe_text(k, op, lt, rt, a, b):
    sym = OPSYM[op]
    if isinstance(a, float) or isinstance(b, float) or op in ("div", "pow"):
        A = "local A: %s <comptime> = %s\n" % (lt, lit(a))
        if rt is None:
            return ("do\n  %s  local c <comptime> = %s(A)\n  printf(\"P %d %%s %%s |\", #[c.type.name]#, #[tostring(c.value)]#)\n  outv(c) printf(\" |\")\n"
                    "  local r = %s(id_%s(A))\n  outv(r) printf(\" | - - | - -\\n\")\nend\n") % (A, sym, k, sym, lt)
        B = "local B: %s <comptime> = %s\n" % (rt, lit(b))
        return ("do\n  %s  %s  local c <comptime> = A %s B\n  printf(\"P %d %%s %%s |\", #[c.type.name]#, #[tostring(c.value)]#)\n  outv(c) printf(\" |\")\n"
                "  local r = id_%s(A) %s id_%s(B)\n  outv(r) printf(\" |\")\n  local h1 = id_%s(A) %s B\n  outv(h1) printf(\" |\")\n"
                "  local h2 = A %s id_%s(B)\n  outv(h2) printf(\"\\n\")\nend\n") % (A, B, sym, k, lt, sym, rt, lt, sym, sym, rt)
    if rt is None:
        return ("do\n  local A: %s <comptime> = %d\n  local c <comptime> = %s(A)\n"
                "  printf(\"P %d %%s %%s |\", #[c.type.name]#, #[tostring(c.value)]#)\n  outv(c) printf(\" |\")\n"
                "  local r = %s(id_%s(A))\n  outv(r) printf(\" | - - | - -\\n\")\nend\n") % (lt, a, sym, k, sym, lt)
    return ("do\n  local A: %s <comptime> = %d\n  local B: %s <comptime> = %d\n  local c <comptime> = A %s B\n"
            "  printf(\"P %d %%s %%s |\", #[c.type.name]#, #[tostring(c.value)]#)\n  outv(c) printf(\" |\")\n"
            "  local r = id_%s(A) %s id_%s(B)\n  outv(r) printf(\" |\")\n"
            "  local h1 = id_%s(A) %s B\n  outv(h1) printf(\" |\")\n"
            "  local h2 = A %s id_%s(B)\n  outv(h2) printf(\"\\n\")\nend\n") % (lt, a, rt, b, sym, k, lt, sym, rt, lt, sym, sym, rt)


def probe_program(probes):
    ids = "".join("local function id_%s(x: %s): %s <noinline> return x end\n" % (t, t, t) for t in ITYPES + ["float32", "float64"])
    return PROBE_HEADER + ids + "".join(probe_text(k, *p) for k, p in enumerate(probes))


def analyze_ok(src_text, path):
    vlib.write_if_changed(path, src_text)
    rc, out, err = vlib.nelua(["--analyze", path], timeout=300)
    return rc == 0, (out + err)


def bisect_rejected(probes, workdir, limit=6):
    """indices of probes the analyzer rejects (recursive halving with --analyze)."""
    found = []

    def rec(idx):
        if len(found) >= limit or not idx:
            return
        ok, _ = analyze_ok(probe_program([probes[i] for i in idx]), os.path.join(workdir, "bisect.nelua"))
        if ok:
            return
        if len(idx) == 1:
            found.append(idx[0])
            return
        h = len(idx) // 2
        rec(idx[:h])
        rec(idx[h:])

    rec(list(range(len(probes))))
    return found


# half-constant forms always probed: 64 bit constants in [2^31,2^32) and [2^63,2^64) (and small ones)
# against run-time operands of at most 32 bits, for + - * (the C literal of the constant may be a
# 32 bit one: the operation must still be done in the result type), plus the repaired witnesses
def _half_constant_witnesses():
    out = []
    consts = {"uint64": [2147483648, 2147483653, 4294967295, 4294967294, 9223372036854775808, 9223372036854775813, 18446744073709551615, 5],
              "usize": [4294967295, 18446744073709551615],
              "int64": [2147483648, 4294967295, -2147483649, -4294967296, 9223372036854775807, -9223372036854775808, -65],
              "isize": [4294967295, -65]}
    small = {"uint32": [3, 4294967295], "uint16": [3, 65535], "uint8": [3, 255], "int32": [-10, 3, 2147483647], "int16": [-2, 127], "int8": [-63, 5]}
    for op in ("add", "sub", "mul"):
        for ct, cvals in consts.items():
            for st, svals in small.items():
                for c in cvals:
                    for v in svals[:2]:
                        out.append((op, st, ct, v, c))      # right operand constant (h1), left constant via h2 of the mirrored probe
                        out.append((op, ct, st, c, v))
    import random
    random.Random(7).shuffle(out)
    return out[:160] + [("add", "uint32", "uint64", 3, 4294967295), ("mul", "uint32", "uint64", 3, 4294967295), ("add", "int32", "uint64", -10, 5),
                        ("sub", "isize", "uint32", -65, 128), ("tdiv", "int16", "uint64", -2, 32767), ("bor", "isize", "uint32", -256, 4294967295)]


HALF_CONSTANT_WITNESSES = _half_constant_witnesses()


# nested expressions: the inner result is consumed directly by the outer operator (n) vs stored first (s)
def _nested_probes():
    out = []
    vals = {"int8": [(127, 1), (-128, -1), (100, 27), (5, 3)], "uint8": [(200, 100), (100, 200), (255, 1), (5, 3)],
            "int16": [(32767, 1), (-32768, -1)], "uint16": [(65535, 1), (1, 2)], "int32": [(2147483647, 1), (5, 3)], "uint32": [(4294967295, 1), (1, 2)]}
    for t, pairs in vals.items():
        for (a, b) in pairs:
            for o1 in ("add", "sub", "mul"):
                out.append((o1, "gt", t, t, t, a, b, 0))
                out.append((o1, "idiv", t, t, t, a, b, 2))
                out.append((o1, "lt", t, t, "uint8" if TYPES_SIGNED.get(t, True) else "int8", a, b, 200 if TYPES_SIGNED.get(t, True) else -1))
    # mixed signedness /// and %%% on types narrower than int (repaired by 8eb30df)
    for (t1, t2, a, b) in (("int8", "uint8", -128, 255), ("int16", "uint16", -32768, 65535), ("int8", "uint8", -7, 2), ("uint8", "int8", 200, -1)):
        for o1 in ("tdiv", "tmod"):
            out.append((o1, "gt", t1, t2, "int8", a, b, 0))
            out.append((o1, "idiv", t1, t2, "int8", a, b, 2))
    # unary-free controls on wide types and bitwise / shift inner operators
    for (o1, t, a, b) in (("bor", "uint8", 200, 100), ("bxor", "int8", -128, 127), ("shl", "uint8", 200, 1), ("idiv", "int8", -128, -1), ("tdiv", "int8", -128, -1)):
        out.append((o1, "gt", t, t, t, a, b, 0))
        out.append((o1, "add", t, t, t, a, b, 100))
    out = [pr + (0,) for pr in out]
    # COMPILE-TIME counts (last field 1: the count is written as a bare literal): the emitter takes its shift fast paths
    # (cbuiltins.operators.shl/shr/asr); t2 only names the type the literal takes when the helper is used after all
    for (o1, t, a, b) in (("shl", "uint8", 200, 1), ("shl", "uint8", 255, 7), ("shl", "uint8", 1, 7), ("shl", "uint16", 65535, 4), ("shl", "uint16", 40000, 1),
                          ("shl", "uint32", 4294967295, 1), ("shl", "uint64", 18446744073709551615, 1), ("shl", "int8", 100, 1), ("shl", "int8", -128, 1),
                          ("shl", "int16", 32767, 1), ("shl", "int32", 2147483647, 1), ("shl", "int64", 9223372036854775807, 1),
                          ("shr", "uint8", 200, 1), ("shr", "uint16", 65535, 15), ("shr", "uint32", 4294967295, 31), ("shr", "int8", -128, 1), ("shr", "int32", -5, 1),
                          ("asr", "int8", -128, 1), ("asr", "uint8", 200, 1), ("asr", "int32", -5, 1), ("asr", "int16", -32768, 15), ("asr", "int64", -9223372036854775808, 63),
                          ("shl", "uint8", 200, 8), ("shl", "uint8", 200, -1), ("asr", "int8", -128, 9), ("shr", "uint16", 65535, 16)):
        m = {"int8": 127, "int16": 32767, "int32": 2147483647, "int64": 9223372036854775807, "uint8": 255, "uint16": 65535, "uint32": 4294967295, "uint64": 18446744073709551615}[t]
        out.append((o1, "gt", t, "int64", t, a, b, m, 1))
        out.append((o1, "idiv", t, "int64", t, a, b, 2, 1))
        out.append((o1, "add", t, "int64", t, a, b, 100, 1))
        out.append((o1, "eq", t, "int64", "int64", a, b, a * 2 if -2**63 <= a * 2 < 2**63 else 0, 1))
    return out


TYPES_SIGNED = {"int8": True, "int16": True, "int32": True, "uint8": False, "uint16": False, "uint32": False}
NESTED_PROBES = _nested_probes()

# untyped literals on the right (`A op 300`) and on the left (`300 op A`)
def _untyped_probes():
    out = []
    for t, avals in (("int8", [5, -128, 127]), ("uint8", [200, 0]), ("int16", [-32768, 300]), ("int32", [2147483647, -7]), ("uint32", [4294967295]),
                     ("int64", [9223372036854775807, -1]), ("uint64", [18446744073709551615, 5])):
        for a in avals:
            for op in ("add", "sub", "mul", "idiv", "mod", "band", "bor", "lt", "eq"):
                for lit_ in (1, 2, 300, -1, 70000, 4294967296, -129):
                    if op in ("idiv", "mod") and lit_ == 0:
                        continue
                    out.append((op, t, a, lit_, "r"))
                    if op in ("add", "sub", "mul", "lt"):
                        out.append((op, t, a, lit_, "l"))
    return out


UNTYPED_PROBES = _untyped_probes()


def nested_show(o1, o2, t1, t2, t3, a, b, c, k1):
    cnt = ("(%d)" % b if b < 0 else "%d" % b) if k1 else "%s(%d)" % (t2, b)
    return "(%s(%d) %s %s) %s %s(%d)" % (t1, a, OPSYM[o1], cnt, OPSYM[o2], t3, c)


def nested_text(k, o1, o2, t1, t2, t3, a, b, c, k1):
    s1, s2 = OPSYM[o1], OPSYM[o2]
    if k1:
        cnt = "(%d)" % b if b < 0 else "%d" % b
        return ("do\n  local n = (id_%s(%d) %s %s) %s id_%s(%d)\n  local t = id_%s(%d) %s %s\n  local s = t %s id_%s(%d)\n"
                "  printf(\"P %d nested - |\") outv(n) printf(\" |\") outv(s) printf(\" | - - | - -\\n\")\nend\n") % (
                    t1, a, s1, cnt, s2, t3, c, t1, a, s1, cnt, s2, t3, c, k)
    return ("do\n  local n = (id_%s(%d) %s id_%s(%d)) %s id_%s(%d)\n  local t = id_%s(%d) %s id_%s(%d)\n  local s = t %s id_%s(%d)\n"
            "  printf(\"P %d nested - |\") outv(n) printf(\" |\") outv(s) printf(\" | - - | - -\\n\")\nend\n") % (
                t1, a, s1, t2, b, s2, t3, c, t1, a, s1, t2, b, s2, t3, c, k)


def untyped_text(k, op, t, a, l, side):
    sym = OPSYM[op]
    lit_ = "(%d)" % l if l < 0 else "%d" % l
    ce = ("A %s %s" % (sym, lit_)) if side == "r" else ("%s %s A" % (lit_, sym))
    re_ = ("id_%s(A) %s %s" % (t, sym, lit_)) if side == "r" else ("%s %s id_%s(A)" % (lit_, sym, t))
    return ("do\n  local A: %s <comptime> = %d\n  local c <comptime> = %s\n  printf(\"P %d %%s %%s |\", #[c.type.name]#, #[tostring(c.value)]#)\n"
            "  outv(c) printf(\" |\")\n  local r = %s\n  outv(r) printf(\" | - - | - -\\n\")\nend\n") % (t, a, ce, k, re_)


def extra_probe_stream(ctx, mdriver, violation, stats):
    """Nested-expression and untyped-literal probes (fixed lists), one program each."""
    work = os.path.join(ctx.work, "probes")
    os.makedirs(work, exist_ok=True)
    ids = "".join("local function id_%s(x: %s): %s <noinline> return x end\n" % (t, t, t) for t in ITYPES)
    # ---- nested
    src = os.path.join(work, "nested.nelua")
    exe = os.path.join(work, "nested")
    vlib.write_if_changed(src, PROBE_HEADER + ids + "".join(nested_text(k, *p) for k, p in enumerate(NESTED_PROBES)))
    rc, out, err = vlib.nelua_build(src, exe, cache_dir=os.path.join(work, "cache_nested_%d" % ctx.seed), extra=["--no-cache"])
    if rc != 0:
        violation("nested-probe-program-does-not-compile", "nested probe program rejected: %s" % (out + err)[-400:], {}, failing=False, kind="harness")
    else:
        rc, out, err = vlib.sh(["bash", "-c", "ulimit -c 0; exec '%s'" % exe], timeout=120)
        lines = {int(l.split()[1]): l for l in out.split("\n") if l.startswith("P ")}
        m_in = ["rtnest %s %s %s %s %s %s %s %s %d" % (o1, o2, tb(t1), tb(t2), tb(t3), hx(a), hx(b), hx(c), k1) for (o1, o2, t1, t2, t3, a, b, c, k1) in NESTED_PROBES]
        m_out = run_parallel([mdriver], m_in, 1)
        def canon_model(x):
            w = x.split()
            if w[0] == "B": return ["boolean", w[1]]
            if w[0] == "V": return [[n for n in ITYPES if TYPES[n] == (int(w[1]), w[2] == "1")][0], str(unhx(w[3]))]
            return ["?", x]
        for k, (pr, mo) in enumerate(zip(NESTED_PROBES, m_out)):
            if k not in lines:
                violation("nested-probe-missing", "nested probe %d printed nothing: %s" % (k, err[-200:]), {}, failing=False, kind="harness")
                continue
            stats["nested_probes"] = stats.get("nested_probes", 0) + 1
            text = nested_show(*pr)
            parts = [x.split() for x in lines[k].split("|")]
            n, st = parts[1], parts[2]
            mn, ms = [canon_model(x.strip()) for x in mo.split("|")]
            # the model's value type for a V result names the type by ity; compare values (and type up to ity)
            def same(impl, mod):
                return impl[1] == mod[1] and (impl[0] == mod[0] or (impl[0] in TYPES and mod[0] in TYPES and TYPES[impl[0]] == TYPES[mod[0]]))
            if not same(n, mn) or not same(st, ms):
                violation("model-mismatch:nested", "nested model differs on `%s`: implementation nested %s stored %s, model nested %s stored %s" % (text, n, st, mn, ms),
                          {"case": text, "line": lines[k], "model": mo}, failing=False, kind="correspondence")
            if n != st:
                stats["nested_divergences"] = stats.get("nested_divergences", 0) + 1
                violation("nested:" + text, "C02 `%s`: consumed directly by the outer operator the result is %s %s, stored in a variable of its type first it is %s %s (the inner operator is computed in C int and not cast back to its type)" %
                          (text, n[0], n[1], st[0], st[1]), {"case": text, "line": lines[k], "replay": "see harness of checks/C02.py:nested_text"})
    # ---- untyped literals
    src = os.path.join(work, "untyped.nelua")
    exe = os.path.join(work, "untyped")
    m_in = []
    for (op, t, a, l, side) in UNTYPED_PROBES:
        if side == "r":
            m_in.append("fold %s %s %s %s %s 0 1" % (op, tb(t), tb("int64"), hx(a), hx(l)))
        else:
            m_in.append("fold %s %s %s %s %s 1 0" % (op, tb("int64"), tb(t), hx(l), hx(a)))
    m_out = run_parallel([mdriver], m_in, 1)
    keep = []
    for pr, mo in zip(UNTYPED_PROBES, m_out):
        w = mo.split()
        if w[0] == "T":
            bits, sg, v = int(w[1]), w[2] == "1", unhx(w[3])
            lo, hi = (-(1 << (bits - 1)), (1 << (bits - 1)) - 1) if sg else (0, (1 << bits) - 1)
            if lo <= v <= hi:
                keep.append((pr, mo))
        elif w[0] == "B":
            keep.append((pr, mo))
    vlib.write_if_changed(src, PROBE_HEADER + ids + "".join(untyped_text(k, *p) for k, (p, _) in enumerate(keep)))
    rc, out, err = vlib.nelua_build(src, exe, cache_dir=os.path.join(work, "cache_untyped_%d" % ctx.seed), extra=["--no-cache"])
    if rc != 0:
        violation("untyped-probe-program-does-not-compile", "untyped-literal probe program rejected: %s" % re.sub(r"\s+", " ", out + err)[-500:], {}, failing=False, kind="harness")
        return
    rc, out, err = vlib.sh(["bash", "-c", "ulimit -c 0; exec '%s'" % exe], timeout=120)
    lines = {int(l.split()[1]): l for l in out.split("\n") if l.startswith("P ")}
    for k, ((op, t, a, l, side), mo) in enumerate(keep):
        if k not in lines:
            violation("untyped-probe-missing", "untyped probe %d printed nothing: %s" % (k, err[-200:]), {}, failing=False, kind="harness")
            continue
        stats["untyped_probes"] = stats.get("untyped_probes", 0) + 1
        text = ("%s(%d) %s %d" % (t, a, OPSYM[op], l)) if side == "r" else ("%d %s %s(%d)" % (l, OPSYM[op], t, a))
        parts = [x.split() for x in lines[k].split("|")]
        ctype, craw, r = parts[0][2], parts[0][3], parts[2]
        x, y = (a, l) if side == "r" else (l, a)
        E = exact(op, t if side == "r" else "int64", x, y)
        if mo.startswith("T "):
            w = mo.split()
            if TYPES.get(ctype) != (int(w[1]), w[2] == "1") or int(craw) != unhx(w[3]):
                violation("model-mismatch:untyped-fold", "fold of `%s` (untyped literal) is (%s, %s), model says %s" % (text, ctype, craw, mo),
                          {"case": text, "line": lines[k], "model": mo}, failing=False, kind="correspondence")
            # property: run time (operation type = the typed operand's type promoted for the literal) vs fold
            T = r[0]
            if T in TYPES and E is not None and not isinstance(E, bool):
                if inrange(T, a) and inrange(T, l) and int(r[1]) != wrap(T, E):
                    violation("case:untyped:" + text, "C02 `%s`: run time gives %s %s, the exact result %d reduced to %s is %d" % (text, r[0], r[1], E, T, wrap(T, E)),
                              {"case": text, "line": lines[k]})
                if inrange(T, E) and inrange(T, a) and inrange(T, l) and int(craw) != E:
                    violation("case:untyped:" + text, "C02 `%s`: folded %s (%s), exact result %d representable in the run-time result type %s" % (text, craw, ctype, E, T),
                              {"case": text, "line": lines[k]})
        elif mo.startswith("B "):
            if ctype != "boolean" or (craw == "true") != E or (r[1] == "1") != E:
                violation("case:untyped:" + text, "C02 `%s`: folded %s, run time %s, exact %s" % (text, craw, r[1], E), {"case": text, "line": lines[k]})


def probe_stream(ctx, mdriver, violation):
    """Generate, compile (real compiler) and run probe programs; compare with fold/rt model and oracle."""
    rng = ctx.rng
    nprog = ctx.scale(3, 24)
    per = 400
    cand = []
    # candidates: lattice values for every op and type pair (sampled), never crashing at run time
    ops = [o for o in BINOPS]
    while len(cand) < nprog * per * 3:
        op = rng.choice(ops + UNOPS)
        lt = rng.choice(ITYPES)
        if op in UNOPS:
            cand.append((op, lt, None, rng.choice(lattice(lt)), None))
            continue
        rt = rng.choice(ITYPES)
        a = rng.choice(lattice(lt))
        b = rng.choice(counts(rt) if op in SHIFTOPS else lattice(rt))
        if op in DIVOPS and b == 0:
            continue
        if op in ("tdiv", "tmod") and b == -1:
            continue          # INT_MIN /// -1 traps at run time for 32/64-bit operands
        cand.append((op, lt, rt, a, b))
    # ask the model which constants can be printed (folded value inside its own type)
    m_in = [("fold %s %s %s %s %s 0 0" % (op, tb(lt), tb(rt), hx(a), hx(b))) if rt else ("foldun %s %s %s" % (op, tb(lt), hx(a)))
            for (op, lt, rt, a, b) in cand]
    m_out = run_parallel([mdriver], m_in, 2)
    probes, expect_reject = [], []
    for c, mo in zip(cand, m_out):
        w = mo.split()
        if w[0] == "T":
            bits, sg, v = int(w[1]), w[2] == "1", unhx(w[3])
            lo, hi = (-(1 << (bits - 1)), (1 << (bits - 1)) - 1) if sg else (0, (1 << bits) - 1)
            if lo <= v <= hi:
                probes.append((c, mo))
            else:
                expect_reject.append(c)
        elif w[0] == "B":
            probes.append((c, mo))
    probes = probes[:nprog * per - len(HALF_CONSTANT_WITNESSES)]
    hw_in = ["fold %s %s %s %s %s 0 0" % (op, tb(lt), tb(rt), hx(a), hx(b)) for (op, lt, rt, a, b) in HALF_CONSTANT_WITNESSES]
    probes = list(zip(HALF_CONSTANT_WITNESSES, run_parallel([mdriver], hw_in, 1))) + probes
    nfloat = ctx.scale(300, 2400)
    fl = [(c, "F") for c in float_candidates(rng, nfloat)]
    probes += fl
    nprog = (len(probes) + per - 1) // per
    work = os.path.join(ctx.work, "probes")
    os.makedirs(work, exist_ok=True)
    stats = {"programs": 0, "probes": 0, "unexpected_rejections": 0, "half_constant_divergences": {}, "expected_rejections_confirmed": 0}

    def run_program(ix):
        chunk = probes[ix * per:(ix + 1) * per]
        if not chunk:
            return None
        src = os.path.join(work, "probe%d.nelua" % ix)
        exe = os.path.join(work, "probe%d" % ix)
        vlib.write_if_changed(src, probe_program([c for c, _ in chunk]))
        rc, out, err = vlib.nelua_build(src, exe, cache_dir=os.path.join(work, "cache%d_%d" % (ix, ctx.seed)), extra=["--no-cache"])
        if rc != 0:
            return (chunk, None, out + err)
        rc, out, err = vlib.sh(["bash", "-c", "ulimit -c 0; exec '%s'" % exe], timeout=120)
        return (chunk, out, err if rc != 0 else "")

    results = [None] * nprog
    ths = []
    sem = threading.Semaphore(4)

    def worker(ix):
        with sem:
            results[ix] = run_program(ix)

    for ix in range(nprog):
        t = threading.Thread(target=worker, args=(ix,))
        t.start()
        ths.append(t)
    for t in ths:
        t.join()
    for ix, res in enumerate(results):
        if res is None:
            continue
        chunk, out, err = res
        stats["programs"] += 1
        if out is None:
            bad = bisect_rejected([c for c, _ in chunk], work)
            stats["unexpected_rejections"] += len(bad)
            if not bad:
                violation("probe-program-does-not-compile", "probe program %d is rejected as a whole but no single probe is: %s" % (ix, err[-400:]),
                          {"stderr": err[-2000:]}, failing=False, kind="harness")
            for bi in bad:
                op, lt, rt, a, b = chunk[bi][0]
                text = "%s %s %s %d %d" % (op, lt, rt, a, b) if rt else "%s %s %d" % (op, lt, a)
                ok, msg = analyze_ok(probe_program([chunk[bi][0]]), os.path.join(work, "single.nelua"))
                key = "probe-rejected:" + text
                if "stack traceback" in msg and "types.lua" in msg and "divide by zero" in msg or "attempt to perform 'n%%0'" in msg:
                    key = "float:fold-crashes-on-division-by-zero:" + op
                violation(key, "C02 probe `%s` (constant expression, run-time form and half-constant forms) is rejected by the compiler although the model folds it to %s: %s" %
                          (text, chunk[bi][1], re.sub(r"\s+", " ", msg)[-300:]),
                          {"case": text, "model_fold": chunk[bi][1], "compiler_output": msg[-1500:], "replay": "nelua --analyze on the program printed by checks/C02.py:probe_program([%r])" % (chunk[bi][0],)})
            continue
        lines = {int(l.split()[1]): l for l in out.split("\n") if l.startswith("P ")}
        if err or len(lines) != len(chunk):
            violation("probe-program-crashed", "probe program %d printed %d of %d probes: %s" % (ix, len(lines), len(chunk), err[-300:]), {"stderr": err[-1500:]}, failing=False, kind="harness")
        for k, (c, mo) in enumerate(chunk):
            if k not in lines:
                continue
            stats["probes"] += 1
            op, lt, rt, a, b = c
            text = "%s %s %s %s %s" % (op, lt, rt, lit(a), lit(b)) if rt else "%s %s %s" % (op, lt, lit(a))
            parts = [p.split() for p in lines[k].split("|")]
            if mo == "F":
                stats["float_probes"] = stats.get("float_probes", 0) + 1
                bk, r, h1, h2 = parts[1], parts[2], parts[3], parts[4]
                canon = lambda x: [x[0], "nan" if "nan" in x[1] else x[1]]
                for name, x in (("constant", bk), ("right-operand-constant", h1), ("left-operand-constant", h2)):
                    if x[0] == "-":
                        continue
                    if canon(x) != canon(r):
                        try:
                            cv = float("nan") if "nan" in bk[1] else (float("inf") if bk[1] == "inf" else float("-inf") if bk[1] == "-inf" else float.fromhex(bk[1]))
                        except ValueError:
                            cv = None
                        try:
                            rv = float("nan") if "nan" in r[1] else (float("inf") if r[1] == "inf" else float("-inf") if r[1] == "-inf" else float.fromhex(r[1]))
                        except ValueError:
                            rv = None
                        cls = float_key(op, lt, rt, a, b, cv, text + ":" + name, rv) if name == "constant" else "case:float:" + text + ":" + name
                        stats["float_divergences"] = stats.get("float_divergences", {})
                        stats["float_divergences"][cls] = stats["float_divergences"].get(cls, 0) + 1
                        violation(cls, "C02 (floats, correspondence only) `%s`: %s form gives %s %s, all-run-time form gives %s %s (folded attr.value %s %s)" %
                                  (text, name, x[0], x[1], r[0], r[1], parts[0][2], parts[0][3]),
                                  {"case": text, "line": lines[k], "replay": "compile and run checks/C02.py:probe_program([%r])" % (c,)})
                continue
            ctype, craw = parts[0][2], parts[0][3]
            baked, r, h1, h2 = parts[1], parts[2], parts[3], parts[4]
            # (1) the compiler pipeline folds exactly as the API-level fold predicted by the model
            if mo.startswith("T "):
                w = mo.split()
                if TYPES.get(ctype) != (int(w[1]), w[2] == "1") or int(craw) != unhx(w[3]):
                    violation("model-mismatch:probe-fold", "end-to-end fold of `%s` is (%s, %s), model says %s" % (text, ctype, craw, mo),
                              {"case": text, "line": lines[k], "model": mo}, failing=False, kind="correspondence")
                if baked[0] != ctype or int(baked[1]) != int(craw):
                    violation("case:probe-baked:" + text, "C02 `%s`: the constant (%s, %s) is printed by the compiled program as (%s, %s)" % (text, ctype, craw, baked[0], baked[1]),
                              {"case": text, "line": lines[k]})
            elif mo.startswith("B "):
                if ctype != "boolean" or (craw == "true") != (mo == "B 1"):
                    violation("model-mismatch:probe-fold", "end-to-end fold of `%s` is (%s, %s), model says %s" % (text, ctype, craw, mo),
                              {"case": text, "line": lines[k], "model": mo}, failing=False, kind="correspondence")
            # (2) half-constant forms must compute what the all-run-time form computes
            for name, h in (("right-operand-constant", h1), ("left-operand-constant", h2)):
                if h[0] == "-":
                    continue
                if h != r:
                    E = exact(op, lt, a, b)
                    T = r[0]
                    in_q = T in TYPES and inrange(T, a) and inrange(T, b)
                    cls = "half-constant:%s:%s" % (name, op)
                    stats["half_constant_divergences"][cls] = stats["half_constant_divergences"].get(cls, 0) + 1
                    if in_q or T == "boolean":
                        violation(cls, "C02 `%s` with the %s baked as a literal gives %s %s, with both operands at run time %s %s (exact %s)" %
                                  (text, name.replace("-", " "), h[0], h[1], r[0], r[1], E),
                                  {"case": text, "line": lines[k], "exact": str(E),
                                   "replay": "compile and run the program printed by checks/C02.py:probe_program([%r])" % (c,)})
    # (3) a few of the constants the model says lie outside their own type: typed use must be rejected
    for c in expect_reject[:ctx.scale(4, 20)]:
        op, lt, rt, a, b = c
        text = "%s %s %s %d %d" % (op, lt, rt, a, b) if rt else "%s %s %d" % (op, lt, a)
        ok, msg = analyze_ok(probe_program([c]), os.path.join(work, "reject.nelua"))
        if ok:
            violation("model-mismatch:probe-reject", "the model says the folded constant of `%s` lies outside its type (typed use rejected), the compiler accepts the probe" % text,
                      {"case": text}, failing=False, kind="correspondence")
        else:
            stats["expected_rejections_confirmed"] += 1
    return stats
