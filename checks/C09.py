"""C09 - build modes and optimisation never change the meaning of a check-free program.

(T) cflags_base/_release/_devel of cdefs.lua (gcc, clang, inheritance resolved) and the
    `release => pragmas.nochecks` rule of configer.lua are scraped into coq/C09/Gen.v;
(C) differential builds: every program of {repository tests that exit 0, examples, generated programs of
    the shared subset} is built as default / --release / -P nochecks / -P nodce / --cflags -O0|-O1|-O3 /
    --cc clang; stdout and exit status must equal the default build's.  The DCE model is run next to
    the real Symbol:is_used on random symbol graphs (harness/C09/isused.lua)."""
import os
import re
import sys
import json
import concurrent.futures as cf

import vlib

sys.path.insert(0, os.path.join(vlib.VERIF, "harness", "C01"))
import scrape  # noqa: E402
import progs   # noqa: E402

ID = "C09"
ALLOWED_AXIOMS = []
TRUSTED_BASE = [
    "coqc 8.16.1 kernel (vm_compute used for flag membership facts; no native_compute)",
    "no axioms: every theorem of coq/C09/Properties.v is 'Closed under the global context'",
    "translators: harness/C01/scrape.py (owned by C01, shared): scrape_cflags (regex scrape of compilers_flags.<cc> in cdefs.lua with tabler.updatecopy inheritance), scrape_div_guard, scrape_vardecl_policy (which emitter receives which statement of visitors.VarDecl); in checks/C09.py: the regex for `conf.pragmas.nochecks = true` under `conf.maximum_performance or conf.release` in configer.lua, the conjuncts of VarDecl's branch for dropped variables, the early return of visitors.FuncDef",
    "cross-property files: coq/C09/{CSem,Helpers,ProofsBase,ProofsDiv}.v are COPIES of coq/C03 and coq/C09/Order.v is a COPY of coq/C01/Order.v, rewritten by checks/C01.py:sync_shared during gen (coq/C09/VarDecl.v is the source copied to coq/C01); checks/C09.py imports checks/C01.py (sync_shared, write_modules) and harness/C01/{scrape,progs,vardecl}.py and runs harness/C03/ubdrv.nelua: a change there changes this check",
    "extraction: Require Extraction + ExtrOcamlBasic only; ocaml/zutil.ml + coq/C09/driver.ml",
    "harnesses: harness/C09/isused.lua (drives the real nelua.symbol module), harness/C09/chkdrv.nelua and harness/C03/ubdrv.nelua (probes built with checks on / off), harness/C09/wrapdrv.nelua (wrap-dependent idioms, 7 compiler/optimisation configurations), harness/C01/progs.py and vardecl.py (program generators), `nelua --verbose` for the compile command, the real compiler with gcc 12 / clang 14",
    "modelled rather than verified: coq/C09/CSem.v, Helpers.v (shared with C01/C03), Model.v (Symbol:is_used, emission condition, configuration flags: the selection `base; release | devel` of ccompiler.get_compiler_cflags is hard-coded in cflags_of and compared with the real command line for 2 compilers x 4 configurations on every run), VarDecl.v (two emitters), Order.v",
]
ASSUMPTIONS = [
    "what the C optimiser does with the emitted C is not modelled: only sampled by the differential builds (testing)",
    "the usedby graph is final when the C generator queries is_used (no cached `used = false` from an earlier query)",
    "C dialect assumptions of coq/C03/CSem.v; the dialect is the one the scraped base flags select (-fwrapv): user --cflags that undo it (-fno-wrapv, -ftrapv) are outside the statement",
    "the sign of a printed NaN is not compared between configurations (unspecified by IEEE 754, differs between gcc and clang constant folding)",
    "C leaves the order of the operands of an operator and of call arguments to the compiler: programs whose result depends on it differ between gcc and clang (C09_compiler_independent_refuted, known finding); the generated programs avoid reading a variable next to a call that writes it",
]
# clauses of the statement that no theorem covers (testing only, or nothing)
UNPROVED = [
    "no program-level theorem: there is no program syntax/semantics in coq/C09; the helper, DCE, declaration-order and flag theorems are not composed into `same output for every program`",
    "-O0/-O1/-O2/-O3 and gcc vs clang (the C optimiser): differential builds only (quick: 2 fixed + 4 random repository programs, 3 corpus programs, 6 generated programs x 7 configurations)",
    "checks other than idiv/imod/bounds/deref/integer narrowing/library check(): nelua_assert_string2cstring, the shift helpers' checks, `check` calls inside the standard library: builds only",
    "`the unchecked program performs the same memory accesses`: not stated",
    "float -> integer narrowing: both modes undefined outside the target range (C09_narrow_f2i_pass_same_refuted; finding recorded and replayed under UBSan by C03)",
    "the edge `emitted C of d references s  =>  s in usedby(d)` of the DCE graph is not modelled (the is_used theorems are about the graph the analyzer built)",
    "VarDecl.v models the order of the effects of a declaration only: must_declare_at_runtime / must_define_at_runtime / `not defined` branches, the require branch and visitors.Assign are not modelled (vardecl stream and builds only)",
    "expressions whose functions write variables: order of unsequenced operands is compiler-dependent (refuted); the positive theorem for write-free functions is C01_order_preserved_partial in coq/C01, not restated here",
    "maximum_performance, debug, sanitize, shared/static library configurations and user --cflags are not in cflags_of",
    "compilers outside the entries deriving from gcc and the generic `cc` entry used with a GNU C compiler: tcc, c2m, nvcc (exempt by name) and a non-GNU compiler reached through the generic entry are not modelled",
]
THEOREM_CLASSES = {
    "C09_idiv_checked_eq_unchecked": "tripwire",      # content = the scraped position of the b == -1 line; also satisfied by two undefined runs
    "C09_imod_checked_eq_unchecked": "tripwire",
    "C09_unchecked_min_neg1": "main",
    "C09_checks_pass_same_value": "main",
    "C09_narrow_f2i_pass_same_refuted": "refutation",
    "C09_narrow_f2i_pass_same_partial": "main",
    "C09_narrow_checked_eq_unchecked": "definitional",
    "C09_bounds_deref_check_eq_unchecked": "definitional",
    "C09_bounds_pass_iff_in_bounds": "main",
    "C09_is_used_is_reachability": "main",
    "C09_is_used_fuel_adequate": "main",
    "C09_dce_sound": "corollary",
    "C09_dce_keeps_roots": "corollary",
    "C09_emitted_iff_nodce_or_reachable": "main",
    "C09_unused_initializer_evaluated": "main",
    "C09_dead_initializer_kept_whatever_attr": "tripwire",
    "C09_vardecl_order": "main",                      # full strength since /repo d685d37 (was _refuted)
    "C09_vardecl_order_iff_policy": "tripwire",       # every placement: DCE-independent iff dropped initializers go to defemitter
    "C09_vardecl_effects_partial": "corollary",       # every placement: permutation, single effect
    "C09_compiler_independent_refuted": "refutation",
    "C09_base_flags_always": "main",
    "C09_gcc_derived_entries_wrap": "tripwire",       # scraped: effective base flags of every compilers_flags entry deriving from gcc (family computed)
    "C09_generic_cc_wraps": "main",                   # full strength since /repo b8b86ad (was _refuted); depends on the scraped generic_cc_gets_gnu_base
    "C09_generic_cc_wraps_needed": "tripwire",        # every value of the scraped facts: the generic entry wraps only through that rule
    "C09_release_config": "main",
    "C09_plain_ops_defined_with_base_flags": "main",
    "C09_fwrapv_needed": "corollary",
}
MANIFEST_ENTRY = {
    "text": "proof, partial: theorems cover (a) the run-time checks removed by nochecks/release - a passing idiv/imod/bounds/deref/integer-narrowing/check() leaves the same value with the check removed (float narrowing refuted), (b) dead code elimination - Symbol:is_used is reachability along usedby, fuel adequate, emitted = nodce or reachable, the initializer of a dropped variable is still evaluated, and the ORDER of a declaration's effects is independent of DCE (full strength since /repo d685d37; for every placement of the statements: iff dropped initializers go to defemitter), (c) the flag tables: base flags in every configuration (for every compilers_flags entry deriving from gcc, and for a GNU C compiler selected through the generic `cc` entry since /repo b8b86ad), release => nochecks, -O2 -DNDEBUG; + - * unary minus defined under the base flags.  Rest on differential testing only: the whole-program statement `same output in every build mode`, every -O level, gcc vs clang, all other checks.",
    "note": "no axioms; tie: scraped cdefs.lua/configer.lua/cbuiltins.lua/cgenerator.lua facts in Gen.v, extracted model run against the real Symbol:is_used, against the emitted helpers in checked and nochecks builds, against the real compile command line, and against default / -P nodce builds of generated declarations; depends on files of C01 and C03 (coq/C03/{CSem,Helpers,ProofsBase,ProofsDiv}.v and coq/C01/Order.v copied by checks/C01.py:sync_shared, harness/C01/{scrape,progs,vardecl}.py, harness/C03/ubdrv.nelua)",
    "technique": "Coq theorems about an executable Gallina model + generated parameters + behavioural correspondence of the extracted model; differential builds",
}

FWRAPV_EXEMPT = {"nvcc": "CUDA driver: host compiler options go through -Xcompiler, its entry sets cflags_base = \"\" itself; not a C compiler of the statement"}
FLAG_TABLE = {}
FLAG_CODES = {"-fwrapv": 1, "-fno-strict-aliasing": 2, "-O2": 3, "-DNDEBUG": 4, "-g": 5}


def gen(ctx):
    from checks import C01
    C01.sync_shared(ID)
    fl = scrape.scrape_cflags(vlib.repo_read("lualib/nelua/cdefs.lua"))
    cfg = vlib.repo_read("lualib/nelua/configer.lua")
    m = re.search(r"if\s+conf\.maximum_performance\s+or\s+conf\.release\s+then[^\n]*\n\s*conf\.pragmas\.nochecks\s*=\s*(true|false)", cfg)
    if not m:
        raise RuntimeError("configer.lua: the release => nochecks rule was not found")
    rel_nochecks = m.group(1) == "true"
    codes = dict(FLAG_CODES)

    def enc(s):
        out = []
        for f in s.split():
            if f not in codes:
                codes[f] = 100 + len(codes)
            out.append(codes[f])
        return "[" + "; ".join("%d%%nat" % c for c in out) + "]"
    lines = [
        "(* GENERATED by checks/C09.py from /repo (cdefs.lua, configer.lua) - do not edit *)",
        "From Coq Require Import List Bool.",
        "Import ListNotations.",
    ]
    for name, code in FLAG_CODES.items():
        lines.append("Definition F%s : nat := %d.  (* %s *)" % (re.sub(r"\W", "_", name), code, name))
    scraped = {}
    for cc in ("gcc", "clang"):
        for k in ("cflags_base", "cflags_release", "cflags_devel"):
            v = fl[cc].get(k, "")
            scraped["%s.%s" % (cc, k)] = v
            lines.append("Definition %s_%s : list nat := %s.  (* %s *)" % (cc, k, enc(v), v))
    lines.append("Definition gcc_base_has_fwrapv : bool := %s." % ("true" if "-fwrapv" in fl["gcc"]["cflags_base"].split() else "false"))
    lines.append("Definition clang_base_has_fwrapv : bool := %s." % ("true" if "-fwrapv" in fl["clang"]["cflags_base"].split() else "false"))
    # every entry of compilers_flags that derives from gcc (computed from the tabler.updatecopy / alias chain), except
    # the ones named in FWRAPV_EXEMPT with the reason; a new entry deriving from gcc joins the family by itself
    entries = scrape.scrape_compiler_entries(vlib.repo_read("lualib/nelua/cdefs.lua"))
    fam = [e for e in entries if e["derives_from_gcc"] and e["name"] not in FWRAPV_EXEMPT]
    if not any(e["name"] == "gcc" for e in fam) or not any(e["name"] == "clang" for e in fam):
        raise RuntimeError("cdefs.lua: gcc / clang are not among the entries deriving from gcc: %s" % [e["name"] for e in entries])
    lines.append("(* effective cflags_base (inheritance and aliases resolved) contains -fwrapv, for every entry of compilers_flags deriving")
    lines.append("   from gcc: %s (exempt: %s) *)" % (", ".join(e["name"] for e in fam), "; ".join("%s - %s" % kv for kv in FWRAPV_EXEMPT.items())))
    lines.append("Definition gcc_derived_base_has_fwrapv : list bool := [%s]." % "; ".join("true" if "-fwrapv" in e["cflags_base"].split() else "false" for e in fam))
    gen_cc = [e for e in entries if e["name"] == "cc"]
    if not gen_cc:
        raise RuntimeError("cdefs.lua: the generic `cc` entry was not found")
    fallback = scrape.scrape_generic_cc_fallback(vlib.repo_read("lualib/nelua/ccompiler.lua"))
    lines.append("(* the generic entry `cc` (selected by --cc cc, CC=cc and for any name no other entry matches): its own cflags_base")
    lines.append("   contains -fwrapv / ccompiler.get_compiler_cflags gives it gcc's base flags when the compiler is GNU C or clang *)")
    lines.append("Definition generic_cc_base_has_fwrapv : bool := %s." % ("true" if "-fwrapv" in gen_cc[0]["cflags_base"].split() else "false"))
    lines.append("Definition generic_cc_gets_gnu_base : bool := %s." % ("true" if fallback else "false"))
    scraped["compiler_entries"] = entries
    scraped["generic_cc_gets_gnu_base"] = fallback
    lines.append("Definition release_implies_nochecks : bool := %s." % ("true" if rel_nochecks else "false"))
    guard = scrape.scrape_div_guard(vlib.repo_read("lualib/nelua/cbuiltins.lua"))
    lines.append("(* cbuiltins.nelua_idiv_/nelua_imod_: the `b == -1` line is emitted before `if checked then` *)")
    lines.append("Definition idiv_guard_first : bool := %s." % ("true" if guard["idiv"] else "false"))
    lines.append("Definition imod_guard_first : bool := %s." % ("true" if guard["imod"] else "false"))
    scraped["div_guard_first"] = guard
    # cgenerator.visitors.VarDecl: the condition under which a variable is declared, and the condition of the
    # branch that still emits the initializer of a variable dropped by dead code elimination
    cg = vlib.repo_read("lualib/nelua/cgenerator.lua")
    m = re.search(r"function visitors\.VarDecl\(context, node, emitter\)(.*?)\nend\n", cg, re.S)
    if not m:
        raise RuntimeError("cgenerator.lua: visitors.VarDecl not found")
    body = m.group(1)
    m1 = re.search(r"\n    if varattr:must_declare_at_runtime\(\) and \(context\.pragmas\.nodce or varattr:is_used\(true\)\) then", body)
    if not m1:
        raise RuntimeError("cgenerator.lua: VarDecl emission condition `must_declare_at_runtime() and (nodce or is_used(true))` not found")
    m2 = re.search(r"\n    elseif (.*?) then", body[m1.end():], re.S)
    if not m2:
        raise RuntimeError("cgenerator.lua: VarDecl branch for eliminated variables not found")
    ATOMS = {"not vartype.is_comptime": 1, "valnode": 2, "not valnode.attr.comptime": 3, "not lastcallindex": 4,
             "valnode.attr.sideeffect": 5}
    atoms, unknown = [], []
    for a in re.split(r"\band\b", m2.group(1)):
        a = " ".join(a.split())
        if a in ATOMS:
            atoms.append(ATOMS[a])
        else:
            unknown.append(a)
            atoms.append(100 + len(unknown))
    lines.append("(* cgenerator.visitors.VarDecl, branch taken for a variable dropped by DCE: the conjuncts of its condition")
    lines.append("   1 = not vartype.is_comptime, 2 = valnode, 3 = not valnode.attr.comptime, 4 = not lastcallindex,")
    lines.append("   5 = valnode.attr.sideeffect, >= 100 = a conjunct the model does not know: %s *)" % (unknown or "none"))
    lines.append("Definition dead_init_cond_atoms : list nat := [%s]." % "; ".join("%d%%nat" % a for a in atoms))
    fd = re.search(r"if not context\.pragmas\.nodce and not attr:is_used\(true\) then\s*\n\s*return", cg)
    lines.append("(* visitors.FuncDef returns early exactly when `not nodce and not is_used(true)` *)")
    lines.append("Definition funcdef_dce_condition_found : bool := %s." % ("true" if fd else "false"))
    pol = scrape.scrape_vardecl_policy(cg)
    lines.insert(3, "From C09 Require Import VarDecl.")
    lines.append("(* cgenerator.visitors.VarDecl: does the bare initializer of a variable dropped by dead code elimination /")
    lines.append("   the `_asgnret = call` statement of a trailing multiple-return call go to `defemitter` (appended last)? *)")
    lines.append("Definition vardecl_policy : vd_policy := mk_vdp %s %s." % ("true" if pol["dead_in_def"] else "false", "true" if pol["asgnret_in_def"] else "false"))
    scraped["vardecl_policy"] = pol
    scraped["vardecl_dead_init_condition"] = " ".join(m2.group(1).split())
    scraped["vardecl_dead_init_unknown_conjuncts"] = unknown
    lines.append("")
    vlib.write_if_changed(os.path.join(vlib.coq_dir(ID), "Gen.v"), "\n".join(lines))
    scraped["release_implies_nochecks"] = rel_nochecks
    scraped["flag_codes"] = codes
    global FLAG_TABLE
    FLAG_TABLE = dict(codes)
    return scraped


# ---------------------------------------------------------------------------
# correspondence
# ---------------------------------------------------------------------------
CONFIGS = [
    ("release", ["--release"]),
    ("nochecks", ["-P", "nochecks"]),
    ("nodce", ["-P", "nodce"]),
    ("O0", ["--cflags=-O0"]),
    ("O1", ["--cflags=-O1"]),
    ("O3", ["--cflags=-O3"]),
    ("clang", ["--cc", "clang"]),
]
THOROUGH_CONFIGS = [
    ("clang-release", ["--cc", "clang", "--release"]),
    ("release-nodce", ["--release", "-P", "nodce"]),
    ("clang-O3", ["--cc", "clang", "--cflags=-O3"]),
]
# repository programs that need things outside the compiler (other binaries, SDL, threads, timing) or print
# addresses / times
SKIP = {"all_test.nelua", "libmylib.nelua", "libmylib_static.nelua", "mylib_test.nelua", "mylib_static_test.nelua",
        "myclib_test.nelua", "require_itself.nelua", "require_test_dep.nelua", "threads_test.nelua",
        "snakesdl.nelua", "snakesdl_nldecl.nelua", "condots.nelua", "dsl2.nelua", "gameoflife.nelua", "os_test.nelua"}


def canon_out(text):
    return re.sub(r"-nan\b", "nan", text)


def stream_isused(ctx, driver, interp, cov):
    rng = ctx.rng
    lines, mlines = [], []
    for _ in range(ctx.scale(1500, 40000)):
        n = rng.choice([1, 2, 3, 5, 8, 12, 20])
        roots = [i for i in range(n) if rng.random() < rng.choice([0.05, 0.2])]
        shape = rng.choice(["sparse", "dense", "chain", "cycle"])
        edges = {}
        for s in range(n):
            if shape == "chain":
                us = [s + 1] if s + 1 < n else []
            elif shape == "cycle":
                us = [(s + 1) % n] + ([rng.randrange(n)] if rng.random() < .2 else [])
            else:
                k = rng.randint(0, 2 if shape == "sparse" else min(n, 5))
                us = [rng.randrange(n) for _ in range(k)]
            if us:
                edges[s] = us
        target = rng.randrange(n)
        body = "r %s e %s" % (" ".join(map(str, roots)), " ".join("%d:%s" % (s, ",".join(map(str, us))) for s, us in edges.items()))
        lines.append("%d %s" % (target, body))
        mlines.append("isused %d %d %s" % (n + 2, target, body))
    rc, mout, merr = vlib.sh([driver], input="\n".join(mlines) + "\n", timeout=600)
    rc2, iout, ierr = vlib.run_lua(os.path.join(vlib.VERIF, "harness", ID, "isused.lua"), input="\n".join(lines) + "\n", interp=interp, timeout=600)
    ml, il = mout.split("\n"), iout.split("\n")
    if rc or rc2 or len(il) < len(lines):
        ctx.violation("harness-run:isused", "harness", "isused drivers failed: %s %s" % (merr[-300:], ierr[-500:]), failing_input=False)
        return 0, 0, []
    n_oracle = n_mm = n_used = 0

    def reach(line):
        w = line.split()
        target, mode, roots, ub = int(w[0]), None, set(), {}
        for x in w[1:]:
            if x in ("r", "e"):
                mode = x
            elif mode == "r":
                roots.add(int(x))
            else:
                s, us = x.split(":")
                ub[int(s)] = [int(u) for u in us.split(",") if u]
        seen, todo = set(), [target]
        while todo:
            s = todo.pop()
            if s in seen:
                continue
            seen.add(s)
            if s in roots:
                return True
            todo += ub.get(s, [])
        return False
    for line, m, i in zip(lines, ml, il):
        exp = "1" if reach(line) else "0"     # the theorem's right-hand side: reachability of a root along usedby
        n_used += exp == "1"
        if i != exp:
            n_oracle += 1
            if n_oracle <= 3:
                ctx.violation("isused:%s" % line, "oracle",
                              "Symbol:is_used answers %s on the graph `%s`, reachability of a root says %s" % (i, line, exp),
                              detail={"replay": "echo '%s' | nelua-lua harness/C09/isused.lua" % line})
        elif m != i:
            n_mm += 1
            if n_mm <= 3:
                ctx.violation("model-mismatch:isused", "correspondence", "graph `%s`: model %s, Symbol:is_used %s" % (line, m, i),
                              detail={"no_longer_checks": "correspondence stream C09/isused"}, failing_input=False)
    cov["isused"] = {"graphs": len(lines), "used": n_used, "oracle_failures": n_oracle, "model_mismatches": n_mm}
    return len(lines), len(set(lines)), lines[:1]


def build_and_run(args):
    src, out, extra, cwd, runargs = args
    cache = out + ".cache"
    rc, o, e = vlib.nelua(["--no-cache", "--cache-dir", cache, "-b", "-o", out] + list(extra) + [src], cwd=cwd, timeout=600)
    if rc != 0:
        return ("build", rc, "", (o + e)[-1500:])
    # run in a private directory: some repository tests create files in the current directory
    rundir = out + ".rundir"
    os.makedirs(rundir, exist_ok=True)
    rc, o, e = vlib.sh([out] + runargs, cwd=rundir, timeout=120, mem_mb=4000, max_out=64 * 1024 * 1024)
    return ("run", rc, o, e[-800:])


def stream_builds(ctx, interp, cov):
    rng = ctx.rng
    d = os.path.join(ctx.work, "builds")
    os.makedirs(d, exist_ok=True)
    cands = []
    for sub in ("tests", "examples"):
        root = os.path.join(vlib.REPO, sub)
        for f in sorted(os.listdir(root)):
            if f.endswith(".nelua") and f not in SKIP:
                cands.append((sub + "/" + f, os.path.join(root, f), root))
    if not ctx.thorough:
        keep = [c for c in cands if os.path.basename(c[1]) in ("fibonacci.nelua", "record_inheretance.nelua")]
        rest = [c for c in cands if c not in keep]
        cands = keep + rng.sample(rest, 4)
    # corpus programs (always), e.g. the overflow-sensitive one whose meaning depends on -fwrapv
    cdir = os.path.join(vlib.VERIF, "corpus", ID)
    for f in sorted(os.listdir(cdir)) if os.path.isdir(cdir) else []:
        if f.endswith(".nelua"):
            cands.append(("corpus/C09/" + f, os.path.join(cdir, f), cdir))
    # generated programs (the C01 generator)
    from checks import C01
    C01.write_modules(d)
    import random
    for i in range(ctx.scale(6, 60)):
        seed = rng.getrandbits(40)
        n, l, st = progs.gen_program(random.Random(seed), rng.choice([25, 40]), "modx" if rng.random() < .3 else None)
        f = os.path.join(d, "gen%d.nelua" % i)
        open(f, "w").write(n)
        cands.append(("generated:seed:%d" % seed, f, d))
    configs = CONFIGS + (THOROUGH_CONFIGS if ctx.thorough else [])
    # default builds first (twice the run, to drop programs whose output is not deterministic)
    base = {}
    jobs = [(src, os.path.join(d, "b%d-default" % i), [], cwd, []) for i, (name, src, cwd) in enumerate(cands)]
    with cf.ThreadPoolExecutor(max_workers=4) as ex:
        res = list(ex.map(build_and_run, jobs))
    usable = []
    skipped = {}
    for i, ((name, src, cwd), r) in enumerate(zip(cands, res)):
        if r[0] == "run" and (r[1] in (124, 125) or "OUTPUT LIMIT" in r[3] or "MemoryError" in r[3]):
            # the default build itself exceeds the time / memory / output budget: unusable program (for a generated
            # one: generator defect); not compared
            skipped[name] = "default build exceeds the resource budget (rc=%s)" % r[1]
            continue
        if r[0] != "run" or r[1] != 0:
            skipped[name] = "default build: %s rc=%s" % (r[0], r[1])
            continue
        r2 = vlib.sh([os.path.join(d, "b%d-default" % i)], cwd=os.path.join(d, "b%d-default.rundir" % i), timeout=120, mem_mb=4000, max_out=64 * 1024 * 1024)
        if r2[0] != 0 or r2[1] != r[2]:
            skipped[name] = "output not deterministic"
            continue
        base[i] = r
        usable.append(i)
    jobs, meta = [], []
    for i in usable:
        name, src, cwd = cands[i]
        for cname, extra in configs:
            jobs.append((src, os.path.join(d, "b%d-%s" % (i, cname)), extra, cwd, []))
            meta.append((i, cname, extra))
    n_fail = 0
    per_cfg = {}
    with cf.ThreadPoolExecutor(max_workers=4) as ex:
        for (i, cname, extra), r in zip(meta, ex.map(build_and_run, jobs)):
            name, src, cwd = cands[i]
            per_cfg[cname] = per_cfg.get(cname, 0) + 1
            b = base[i]
            # the sign of a NaN is unspecified for most IEEE operations and differs between compilers: not compared
            if r[0] != "run" or r[1] != b[1] or canon_out(r[2]) != canon_out(b[2]):
                n_fail += 1
                if n_fail <= 5:
                    if r[0] == "build":
                        what = "does not build: %s" % r[3].strip().split("\n")[-1][:300]
                    elif r[1] != b[1]:
                        what = "exits with %s instead of %s (%s)" % (r[1], b[1], r[3].strip().split("\n")[-1][:200])
                    else:
                        x, y = r[2].split("\n"), b[2].split("\n")
                        k = next((j for j, (p, q) in enumerate(zip(x, y)) if p != q), min(len(x), len(y)))
                        what = "prints %r where the default build prints %r (line %d)" % (x[k] if k < len(x) else None, y[k] if k < len(y) else None, k + 1)
                    ctx.violation("build:%s:%s" % (name, cname), "oracle",
                                  "%s built with `%s` %s" % (name, " ".join(extra), what),
                                  detail={"program": name, "config": extra, "stderr": r[3],
                                          "source": vlib.read(src)[:6000] if name.startswith("generated") else src,
                                          "replay": "nelua %s %s  vs  nelua %s" % (" ".join(extra), src, src)})
    cov["builds"] = {"programs": [cands[i][0] for i in usable], "skipped": skipped, "configs": [c for c, _ in configs],
                     "builds_compared": len(jobs), "per_config": per_cfg, "failures": n_fail}
    return len(jobs), len(usable) * len(configs), [cands[i][0] for i in usable[:2]]



# ---------------------------------------------------------------------------
# the helper models executed against the compiler, in both build modes
# ---------------------------------------------------------------------------
M64 = 1 << 64
ITY = {"i8": (8, True), "i16": (16, True), "i32": (32, True), "i64": (64, True),
       "u8": (8, False), "u16": (16, False), "u32": (32, False), "u64": (64, False)}
NELUA_TY = {"int8": "i8", "int16": "i16", "int32": "i32", "int64": "i64", "uint8": "u8", "uint16": "u16", "uint32": "u32", "uint64": "u64"}
CHK_INDEX_TYPES = ["int64", "uint64", "int8", "uint8", "int32"]                 # harness/C09/chkdrv.nelua
CHK_PAIRS = [("int64", "int8"), ("int64", "uint8"), ("int64", "int32"), ("int64", "uint32"), ("int64", "uint64"),
             ("uint64", "int64"), ("int32", "uint16"), ("uint32", "int16")]
UBDRV_TYPES = ["i8", "i16", "i32", "i64"]                                       # harness/C03/ubdrv.nelua, type index 1..4


def hexs(v):
    return ("-%x" % -v) if v < 0 else "%x" % v


def wrap_to(t, v):
    bits, signed = ITY[t]
    v %= 1 << bits
    return v - (1 << bits) if signed and v >= 1 << (bits - 1) else v


def to64(v):
    v %= M64
    return v - M64 if v >= 1 << 63 else v


def lattice(t):
    bits, signed = ITY[t]
    lo, hi = (-(1 << (bits - 1)), (1 << (bits - 1)) - 1) if signed else (0, (1 << bits) - 1)
    L = {lo, lo + 1, hi, hi - 1, 0, 1, 2, 3, 7, hi // 2, hi // 2 + 1}
    if signed:
        L |= {-1, -2, -3, -7, lo // 2}
    return sorted(x for x in L if lo <= x <= hi)


def outcome_text(o):
    """model outcome -> what the program prints ('panic' / 'ub' stay)"""
    if o.startswith("v:"):
        h = o[2:]
        return str(-int(h[1:], 16) if h.startswith("-") else int(h, 16))
    return o


def stream_checks(ctx, driver, cov):
    """idiv_helper / imod_helper / h_bounds / h_narrow_int against the emitted helpers, checks on (default build)
    and off (-P nochecks).  A case the model says stops the program is run on its own and must die with the
    run-time error; a case the model says is undefined without the check is not executed (counted)."""
    rng = ctx.rng
    d = os.path.join(ctx.work, "checks")
    os.makedirs(d, exist_ok=True)
    srcs = {"ubdrv": os.path.join(vlib.VERIF, "harness", "C03", "ubdrv.nelua"),
            "chkdrv": os.path.join(vlib.VERIF, "harness", ID, "chkdrv.nelua")}
    jobs = []
    for prog, src in srcs.items():
        for mode, extra in (("checked", []), ("nochecks", ["-P", "nochecks"])):
            jobs.append((prog, mode, src, os.path.join(d, "%s-%s" % (prog, mode)), extra))
    jobs.append(("chkdrv", "release", srcs["chkdrv"], os.path.join(d, "chkdrv-release"), ["--release"]))

    def build(j):
        prog, mode, src, out, extra = j
        rc, o, e = vlib.nelua(["--no-cache", "--cache-dir", out + ".cache", "-b", "-o", out] + extra + [src], timeout=600)
        return (prog, mode), (rc, out, (o + e)[-800:])
    with cf.ThreadPoolExecutor(max_workers=4) as ex:
        exes = dict(ex.map(build, jobs))
    for k, (rc, out, log) in exes.items():
        if rc != 0:
            ctx.violation("harness-run:checks:%s-%s" % k, "harness", "probe does not build: %s" % log, failing_input=False)
            return 0, 0, []
    # cases: (program, input line, model line, description, panic text)
    cases = []
    for ti, t in enumerate(UBDRV_TYPES):
        L = lattice(t)
        extra = [(rng.choice(L), rng.choice(L)) for _ in range(4)] + \
                [(wrap_to(t, rng.getrandbits(64)), wrap_to(t, rng.getrandbits(rng.choice([3, 8, 64])))) for _ in range(ctx.scale(20, 400))]
        for a, b in [(a, b) for a in L for b in L] + extra:
            for op, name in ((4, "idiv"), (5, "imod")):
                cases.append(("ubdrv", "%d %d %d %d" % (ti + 1, op, a, b), "pair %s %s %s %s" % (name, t, hexs(a), hexs(b)),
                              "%s %s %d %d" % (t, name, a, b), "division by zero"))
    IDX = [-(1 << 63), -(1 << 31) - 1, -129, -128, -2, -1, 0, 1, 5, 6, 7, 8, 127, 128, 255, 256, 263, (1 << 31), (1 << 32) + 3, (1 << 63) - 1]
    for ti, tn in enumerate(CHK_INDEX_TYPES):
        t = NELUA_TY[tn]
        for a in IDX:
            i = wrap_to(t, a)          # the probe casts the int64 it reads to the index type (no check)
            cases.append(("chkdrv", "1 %d %d" % (ti + 1, a), "bounds %s %s %s" % (t, hexs(i), hexs(7)),
                          "bounds %s index %d of 7" % (t, i), "out of bounds"))
    for pi, (sn, dn) in enumerate(CHK_PAIRS):
        st, dt = NELUA_TY[sn], NELUA_TY[dn]
        for x in sorted(set(lattice(st)) | {wrap_to(st, v) for v in lattice(dt)} | {wrap_to(st, rng.getrandbits(64)) for _ in range(6)}):
            cases.append(("chkdrv", "2 %d %d" % (pi + 1, to64(x)), "narrow %s %s %s" % (st, dt, hexs(x)),
                          "narrow %s -> %s of %d" % (st, dt, x), "narrow casting"))
    rc, mout, merr = vlib.sh([driver], input="\n".join(c[2] for c in cases) + "\n", timeout=600)
    ml = mout.split("\n")
    if rc != 0 or len(ml) < len(cases):
        ctx.violation("harness-run:checks-model", "harness", "model driver failed: %s" % merr[-300:], failing_input=False)
        return 0, 0, []
    n_mm = [0]
    stat = {"cases": len(cases), "checked_values": 0, "checked_stops": 0, "unchecked_values": 0, "unchecked_undefined_not_run": 0, "pass_same_value": 0}

    def mismatch(what):
        n_mm[0] += 1
        if n_mm[0] <= 4:
            ctx.violation("model-mismatch:checks", "correspondence", what, detail={"no_longer_checks": "correspondence stream C09/checks"}, failing_input=False)

    for mode, col in (("checked", 0), ("nochecks", 1)):
        for prog in ("ubdrv", "chkdrv"):
            exe = exes[(prog, mode)][1]
            sel = [(c, ml[k].split()) for k, c in enumerate(cases) if c[0] == prog]
            batch = [(c, m) for c, m in sel if len(m) == 2 and m[col].startswith("v:")]
            if col == 1:
                # the unchecked bounds helper returns the index, the access that follows it is undefined out of
                # bounds: only the in-bounds indices (C09_bounds_pass_iff_in_bounds) are executed without the check
                oob = [(c, m) for c, m in batch if c[2].startswith("bounds") and not m[0].startswith("v:")]
                stat["unchecked_undefined_not_run"] += len(oob)
                batch = [x for x in batch if x not in oob]
            rc, o, e = vlib.sh([exe], input="\n".join(c[1] for c, _ in batch) + "\n", timeout=300)
            ol = o.split("\n")
            if rc != 0 or len(ol) < len(batch):
                mismatch("%s build of %s stops (rc %s, %s) on a batch of cases the model says return a value" % (mode, prog, rc, e.strip()[-200:]))
                continue
            for (c, m), line in zip(batch, ol):
                stat["checked_values" if col == 0 else "unchecked_values"] += 1
                if line.strip() != outcome_text(m[col]):
                    mismatch("%s [%s]: the emitted code prints %s, the model says %s" % (c[3], mode, line.strip(), outcome_text(m[col])))
                elif col == 1 and m[0].startswith("v:"):
                    stat["pass_same_value"] += m[0] == m[1]
                    if m[0] != m[1]:
                        mismatch("%s: the model's checked and unchecked values differ (%s, %s): theorem C09_checks_pass_same_value" % (c[3], m[0], m[1]))
            if col == 0:
                stops = [(c, m) for c, m in sel if len(m) == 2 and m[0] == "panic"]

                def run1(cm):
                    return vlib.sh([exe], input=cm[0][1] + "\n", timeout=60)
                with cf.ThreadPoolExecutor(max_workers=4) as ex:
                    for (c, m), r in zip(stops, ex.map(run1, stops)):
                        stat["checked_stops"] += 1
                        if r[0] == 0 or c[4] not in r[2]:
                            mismatch("%s [checked]: the model says the check stops the program; rc %s stdout %r stderr %r" % (c[3], r[0], r[1][:80], r[2][-120:]))
            else:
                stat["unchecked_undefined_not_run"] += sum(1 for c, m in sel if len(m) == 2 and m[1] == "ub")
            bad = [(c, m) for c, m in sel if len(m) != 2 or not (m[col].startswith("v:") or m[col] in ("panic", "ub"))]
            for c, m in bad[:2]:
                mismatch("model output for `%s`: %r" % (c[2], m))
    # release => nochecks (configer.lua): a narrowing that fails with checks on wraps in a --release build
    rc, mo, me = vlib.sh([driver], input="cflags gcc release\n", timeout=60)
    rel_nochecks = "nochecks=1" in mo
    r = vlib.sh([exes[("chkdrv", "release")][1]], input="2 1 128\n", timeout=60)
    stat["release_narrow_128_to_int8"] = {"rc": r[0], "stdout": r[1].strip(), "model_nochecks": rel_nochecks}
    if (r[0] == 0 and r[1].strip() == "-128") != rel_nochecks:
        mismatch("--release build narrowing 128 to int8: rc %s stdout %r; the model says release %s nochecks" % (r[0], r[1].strip(), "implies" if rel_nochecks else "does not imply"))
    stat["model_mismatches"] = n_mm[0]
    cov["checks"] = stat
    return len(cases) * 2, len(set(c[2] for c in cases)), [cases[0][3], cases[-1][3]]


W_GENERIC_CC = "wrap: `x + 1 > x` on int32 a = 2147483647: --cc cc vs default (gcc)"
GENERIC_CC_CONFIGS = [("cc", ["--cc", "cc"]), ("cc --release", ["--cc", "cc", "--release"])]
WRAP_CONFIGS = [("gcc", []), ("gcc --release", ["--release"]), ("gcc -O3", ["--cflags=-O3"]),
                ("clang", ["--cc", "clang"]), ("clang --release", ["--cc", "clang", "--release"]),
                ("clang -O1", ["--cc", "clang", "--cflags=-O1"]), ("clang -O3", ["--cc", "clang", "--cflags=-O3"])]
WRAP_IDIOMS = ["x + 1 > x", "x - 1 < x", "a + b > a", "saturating add (after-the-fact overflow test)", "a * 2 /// 2 == a", "a * b >= a",
               "a < 0 and -a < 0", "abs(a) >= 0", "how many of a+1, a+2, a+3 are > a"]


def stream_wrap(ctx, driver, cov):
    """wrap-dependent idioms (harness/C09/wrapdrv.nelua) on operands at the type limits, built by both compilers at every
    optimisation level: every build must print what the default build prints (the property), and the default build
    must print the wrapping result of the model (op_add / op_sub / op_mul / op_unm in the dialect of the scraped base
    flags) wherever the model says the operation is defined"""
    rng = ctx.rng
    d = os.path.join(ctx.work, "wrap")
    os.makedirs(d, exist_ok=True)
    src = os.path.join(vlib.VERIF, "harness", ID, "wrapdrv.nelua")
    cases = []
    for ti, t in ((1, "i32"), (2, "i64")):
        bits = ITY[t][0]
        lo, hi = -(1 << (bits - 1)), (1 << (bits - 1)) - 1
        A = [lo, lo + 1, lo + 2, lo // 2, lo // 2 - 1, -84, -2, -1, 0, 1, 2, 5, hi // 2, hi // 2 + 1, hi - 84, hi - 2, hi - 1, hi]
        B = [lo, -84, -2, -1, 0, 1, 2, 3, 84, hi]
        cases += [(ti, t, a, b) for a in A for b in B]          # (contains the designated witness i32 2147483647 1)
        cases += [(ti, t, wrap_to(t, rng.getrandbits(64)), wrap_to(t, rng.getrandbits(rng.choice([3, 16, 64])))) for _ in range(ctx.scale(60, 1500))]

    def build(cfg):
        name, extra = cfg
        out = os.path.join(d, "wrap-" + name.replace(" ", "").replace("-", "_"))
        rc, o, e = vlib.nelua(["--no-cache", "--cache-dir", out + ".cache", "-b", "-o", out] + extra + [src], timeout=600)
        return name, rc, out, (o + e)[-600:]
    with cf.ThreadPoolExecutor(max_workers=4) as ex:
        import shutil
        have_cc = shutil.which("cc") is not None
        built = list(ex.map(build, WRAP_CONFIGS + (GENERIC_CC_CONFIGS if have_cc else [])))
    generic = {n for n, _ in GENERIC_CC_CONFIGS}
    cc_wraps = vlib.sh([driver], input="ccwraps\n", timeout=60)[1].strip() == "1"
    itext = "\n".join("%d %d %d" % (ti, a, b) for ti, t, a, b in cases) + "\n"
    outs = {}
    for name, rc, out, log in built:
        if rc != 0:
            ctx.violation("harness-run:wrap:%s" % name, "harness", "wrap probe does not build (%s): %s" % (name, log), failing_input=False)
            continue
        r = vlib.sh([out], input=itext, timeout=120)
        if r[0] != 0:
            ctx.violation("wrap-run:%s" % name, "oracle", "wrap probe built with `%s` exits with %s: %s" % (name, r[0], r[2][-200:]))
            continue
        outs[name] = [x.split("\t") for x in r[1].split("\n")]
    base = outs.get("gcc")
    n_diff = n_mm = n_undef = n_cc = 0
    if base and len(base) >= len(cases):
        # 1. the property: no configuration changes the output
        for name, lines in outs.items():
            if name == "gcc":
                continue
            for k, c in enumerate(cases):
                if k < len(lines) and lines[k] != base[k] and name in generic and not cc_wraps:
                    # only when the scraped facts say the generic `cc` entry does not wrap (not the case since /repo b8b86ad,
                    # theorem C09_generic_cc_wraps): the former finding, reported on its designated witness only
                    n_cc += 1
                    if name == "cc" and (c[1], c[2]) == ("i32", 2147483647) and c[3] == 1 and lines[k][0] != base[k][0]:
                        ctx.violation(W_GENERIC_CC, "oracle", "`x + 1 > x` on int32 a = 2147483647: built with `--cc cc` it is %s, with the default compiler entry (gcc) %s" % (lines[k][0], base[k][0]),
                                      detail={"probe": "harness/C09/wrapdrv.nelua", "input_line": "1 2147483647 1",
                                              "replay": "nelua --cc cc --verbose <file> (no -fwrapv in the command); echo '1 2147483647 1' | <harness/C09/wrapdrv.nelua built with --cc cc>  vs  <built with no option>"})
                    continue
                if k >= len(lines) or lines[k] != base[k]:
                    n_diff += 1
                    if n_diff <= 4:
                        got = lines[k] if k < len(lines) else []
                        j = next((i for i in range(len(WRAP_IDIOMS)) if i >= len(got) or i >= len(base[k]) or got[i] != base[k][i]), 0)
                        ctx.violation("wrap:%s:%s %d %d" % (name, c[1], c[2], c[3]), "oracle",
                                      "`%s` on %s operands a = %d, b = %d: the build `%s` gives %s, the default build %s" %
                                      (WRAP_IDIOMS[j], c[1], c[2], c[3], name, got[j] if j < len(got) else None, base[k][j] if j < len(base[k]) else None),
                                      detail={"probe": "harness/C09/wrapdrv.nelua", "input_line": "%d %d %d" % (c[0], c[2], c[3]), "default": base[k], "other": got,
                                              "replay": "echo '%d %d %d' | <harness/C09/wrapdrv.nelua built with %s>  vs  <built with no option>" % (c[0], c[2], c[3], name)})
        # 2. the default build against the model's wrapping semantics
        q = []
        for ti, t, a, b in cases:
            q += ["arith add %s %s 1" % (t, hexs(a)), "arith sub %s %s 1" % (t, hexs(a)), "arith add %s %s %s" % (t, hexs(a), hexs(b)),
                  "arith mul %s %s 2" % (t, hexs(a)), "arith mul %s %s %s" % (t, hexs(a), hexs(b)), "arith unm %s %s 0" % (t, hexs(a))]
        rc, mo, me = vlib.sh([driver], input="\n".join(q) + "\n", timeout=300)
        ml = mo.split("\n")
        tf = lambda x: "true" if x else "false"

        def val(m):
            return None if not m.startswith("v:") else (-int(m[3:], 16) if m[2] == "-" else int(m[2:], 16))
        extra_q, slots = [], []
        pre = []
        for k, (ti, t, a, b) in enumerate(cases):
            inc, dec, ab, dbl, mul, neg = [val(m) for m in ml[6 * k:6 * k + 6]]
            pre.append((inc, dec, ab, dbl, mul, neg))
            # second round: a*2 /// 2, and the chain a+1, a+2, a+3
            if dbl is not None:
                extra_q.append("arith tdiv %s %s 2" % (t, hexs(dbl)))
                slots.append((k, "half"))
        rc, mo2, me2 = vlib.sh([driver], input="\n".join(extra_q) + "\n", timeout=300) if extra_q else (0, "", "")
        half = {}
        for (k, _), m in zip(slots, mo2.split("\n")):
            half[k] = val(m)
        for k, (ti, t, a, b) in enumerate(cases):
            bits = ITY[t][0]
            lo, hi = -(1 << (bits - 1)), (1 << (bits - 1)) - 1
            inc, dec, ab, dbl, mul, neg = pre[k]
            exp = [None] * 9
            if inc is not None:
                exp[0] = tf(inc > a)
            if dec is not None:
                exp[1] = tf(dec < a)
            if ab is not None:
                exp[2] = tf(ab > a)
                exp[3] = str(hi if (b > 0 and ab < a) else lo if (b < 0 and ab > a) else ab)
            if dbl is not None and half.get(k) is not None:
                exp[4] = tf(half[k] == a)
            if mul is not None:
                exp[5] = tf(mul >= a)
            if neg is not None:
                exp[6] = tf(a < 0 and neg < 0)
                exp[7] = tf((neg if a < 0 else a) >= 0)
            if inc is not None and a + 3 <= hi:
                exp[8] = "3"        # no wrap within three increments (the wrapping chains are compared differentially only)
            for j, e in enumerate(exp):
                if e is None:
                    n_undef += 1
                elif j < len(base[k]) and base[k][j] != e:
                    n_mm += 1
                    if n_mm <= 3:
                        ctx.violation("model-mismatch:wrap", "correspondence",
                                      "`%s` on %s operands a = %d, b = %d: the default build gives %s, the model's wrapping semantics %s" % (WRAP_IDIOMS[j], t, a, b, base[k][j], e),
                                      detail={"no_longer_checks": "correspondence stream C09/wrap"}, failing_input=False)
    elif base is not None:
        ctx.violation("harness-run:wrap-output", "harness", "wrap probe printed %d lines for %d cases" % (len(base), len(cases)), failing_input=False)
    cov["wrap"] = {"cases": len(cases), "configurations": [n for n in outs], "idioms": WRAP_IDIOMS, "differences_between_configurations": n_diff,
                   "generic_cc_entry": {"cc_on_path": have_cc, "model_says_it_wraps": cc_wraps, "differences_while_the_model_says_it_does_not_wrap": n_cc},
                   "model_mismatches": n_mm, "values_the_model_leaves_undefined": n_undef}
    return len(cases) * len(outs), len(set(cases)), ["%s %d %d" % c[1:] for c in cases[:2]]


CFLAG_CONFIGS = [("default", []), ("release", ["--release"]), ("nochecks", ["-P", "nochecks"]), ("nodce", ["-P", "nodce"])]


def stream_cflags(ctx, driver, cov):
    """cflags_of against the command line the real compiler driver runs (nelua --verbose prints it)"""
    d = os.path.join(ctx.work, "cflags")
    os.makedirs(d, exist_ok=True)
    src = os.path.join(d, "p.nelua")
    open(src, "w").write("print(1)\n")
    names = {v: k for k, v in FLAG_TABLE.items()}
    jobs = [(cc, cname, extra) for cc in ("gcc", "clang") for cname, extra in CFLAG_CONFIGS]

    def run(j):
        cc, cname, extra = j
        out = os.path.join(d, "p-%s-%s" % (cc, cname))
        return vlib.nelua(["--verbose", "--no-cache", "--cache-dir", out + ".cache", "--cc", cc, "-b", "-o", out] + extra + [src], timeout=300)
    rc, mo, me = vlib.sh([driver], input="\n".join("cflags %s %s" % (cc, cname) for cc, cname, _ in jobs) + "\n", timeout=60)
    ml = mo.split("\n")
    res, n_mm = {}, 0
    with cf.ThreadPoolExecutor(max_workers=4) as ex:
        for k, ((cc, cname, extra), (rc, o, e)) in enumerate(zip(jobs, ex.map(run, jobs))):
            cmd = [l for l in (o + e).split("\n") if l.startswith(cc + " ") and " -o " in l and "p-%s-%s" % (cc, cname) in l]
            if rc != 0 or not cmd:
                ctx.violation("harness-run:cflags:%s-%s" % (cc, cname), "harness", "no compile command in the --verbose output (rc %s): %s" % (rc, (o + e)[-300:]), failing_input=False)
                continue
            toks = cmd[-1].split()
            real = [t for t in toks[1:] if t.startswith("-") and t not in ("-x", "-o", "-Wno-unused-command-line-argument")]
            model = [names.get(int(c), "?%s" % c) for c in ml[k].split()[1:]]
            res["%s %s" % (cc, cname)] = " ".join(real)
            if real != model:
                n_mm += 1
                ctx.violation("model-mismatch:cflags", "correspondence",
                              "%s, configuration %s: the compiler driver passes `%s`, cflags_of says `%s`" % (cc, cname, " ".join(real), " ".join(model)),
                              detail={"command": cmd[-1], "no_longer_checks": "correspondence stream C09/cflags"}, failing_input=False)
    cov["cflags"] = {"command_lines": res, "model_mismatches": n_mm}
    return len(jobs)


def stream_vardecl(ctx, driver, cov):
    """multi-variable declarations whose values print when evaluated: default build and -P nodce against the
    effect order of coq/C09/VarDecl.v (placement of the statements scraped from cgenerator.lua)"""
    import random
    import vardecl
    rng = random.Random(ctx.rng.getrandbits(40))
    d = os.path.join(ctx.work, "vardecl")
    os.makedirs(d, exist_ok=True)
    per = 60
    nb = ctx.scale(1, 8)
    n_cases = n_mm = n_pred = n_same = 0
    sample = []
    for bi in range(nb):
        cases = [vardecl.gen_case(rng) for _ in range(per)]
        ntext, _ = vardecl.batch_programs(cases)
        src = os.path.join(d, "vd%d.nelua" % bi)
        open(src, "w").write(ntext)
        rc, mo, me = vlib.sh([driver], input="\n".join(vardecl.model_line(c) for c in cases) + "\n", timeout=120)
        ml = [vardecl.parse_model(x) for x in mo.strip().split("\n")]
        with cf.ThreadPoolExecutor(max_workers=2) as ex:
            r = list(ex.map(build_and_run, [(src, os.path.join(d, "vd%d-default" % bi), [], d, []),
                                            (src, os.path.join(d, "vd%d-nodce" % bi), ["-P", "nodce"], d, [])]))
        if any(x[0] != "run" or x[1] != 0 for x in r) or len(ml) != len(cases):
            ctx.violation("harness-run:vardecl", "harness", "vardecl batch failed: %s" % [x[:2] + (x[3][-200:],) for x in r], failing_input=False)
            continue
        outs = {"dce": vardecl.parse_output(r[0][2], len(cases)), "nodce": vardecl.parse_output(r[1][2], len(cases))}
        for k, c in enumerate(cases):
            n_cases += 1
            m = ml[k]
            line = vardecl.model_line(c)
            if not sample:
                sample.append(line)
            bad = [x for x in ("dce", "nodce") if outs[x][k][0] != m[x]]
            if m["wf"] != "1" or bad:
                n_mm += 1
                if n_mm <= 3:
                    differ = outs["dce"][k][0] != outs["nodce"][k][0]
                    ctx.violation(("vardecl-order:%s" % line) if differ else "model-mismatch:vardecl", "oracle" if differ else "correspondence",
                                  "declaration `%s` (%s): effects run in the order %s by default and %s with -P nodce; the model says %s and %s" %
                                  (line, c["form"], outs["dce"][k][0], outs["nodce"][k][0], m["dce"], m["nodce"]),
                                  detail={"nelua_source": vardecl.programs(c, k)[0], "no_longer_checks": "correspondence stream C09/vardecl"}, failing_input=differ)
            elif outs["dce"][k][1] != outs["nodce"][k][1]:
                ctx.violation("vardecl-values:%s" % line, "oracle", "declaration `%s`: the variables hold %r by default and %r with -P nodce" % (line, outs["dce"][k][1], outs["nodce"][k][1]),
                              detail={"nelua_source": vardecl.programs(c, k)[0]})
            elif m["dce"] != m["nodce"]:
                n_pred += 1         # cannot happen while C09_vardecl_order holds for the scraped placement
                ctx.violation("vardecl-order:%s" % line, "oracle", "declaration `%s`: effects run in the order %s by default and %s with -P nodce" % (line, outs["dce"][k][0], outs["nodce"][k][0]),
                              detail={"nelua_source": vardecl.programs(c, k)[0]})
            else:
                n_same += 1
    cov["vardecl"] = {"declarations": n_cases, "same_order_in_both_modes": n_same,
                      "order_differs_between_modes": n_pred, "model_mismatches": n_mm}
    return n_cases * 2, n_cases, sample


# exact programs on which two configurations of the unchanged tree disagree (known_findings/C09.json)
WITNESS_BUILDS = [
    ("build: show(bump(), bump()) with bump doing g.n = g.n + 1; return g.n: --cc clang vs default (gcc)",
     "local G = @record{n: integer}\nlocal g: G\nlocal function bump(): integer\n  g.n = g.n + 1\n  return g.n\nend\n"
     "local function show(a: integer, b: integer) print(a, b) end\nshow(bump(), bump())\n", ["--cc", "clang"]),
    ("build: print(x + f()) with f assigning the global x: --cc clang vs default (gcc)",
     "global x: integer = 1\nlocal function f(): integer x = 10 return 100 end\nprint(x + f())\n", ["--cc", "clang"]),
    ("build: local a, b = f(), g() with b never read (f and g print): -P nodce vs default",
     "@corpus/C09/witness/vardecl_order.nelua", ["-P", "nodce"]),
]


def stream_witness_builds(ctx, cov):
    d = os.path.join(ctx.work, "witness")
    os.makedirs(d, exist_ok=True)
    res = {}
    for i, (key, src, extra) in enumerate(WITNESS_BUILDS):
        f = os.path.join(d, "w%d.nelua" % i)
        if src.startswith("@"):
            src = vlib.read(os.path.join(vlib.VERIF, src[1:]))
        open(f, "w").write(src)
        a = build_and_run((f, os.path.join(d, "w%d-default" % i), [], d, []))
        b = build_and_run((f, os.path.join(d, "w%d-other" % i), extra, d, []))
        same = a[:3] == b[:3]
        res[key] = "same" if same else "differ"
        if not same:
            ctx.violation(key, "oracle", "default build prints %r (rc %s), `%s` prints %r (rc %s)" % (a[2], a[1], " ".join(extra), b[2], b[1]),
                          detail={"source": src, "replay": "nelua <file> ; nelua %s <file>" % " ".join(extra)})
    cov["witness_builds"] = res
    return len(WITNESS_BUILDS)


def correspond(ctx):
    driver = vlib.ocaml_build(ID)
    interp = vlib.ensure_interp()
    cov = {}
    n1, d1, s1 = stream_isused(ctx, driver, interp, cov)
    n2, d2, s2 = stream_builds(ctx, interp, cov)
    n2 += stream_witness_builds(ctx, cov)
    n3, d3, s3 = stream_checks(ctx, driver, cov)
    n4, d4, s4 = stream_vardecl(ctx, driver, cov)
    n5, d5, s5 = stream_wrap(ctx, driver, cov)
    n2, d2, s2 = n2 + n3 + n4 + n5 + stream_cflags(ctx, driver, cov), d2 + d3 + d4 + d5, s2 + s3 + s4 + s5
    return {
        "evaluations": n1 + n2,
        "distinct_nontrivial": d1 + d2,
        "rule": "isused: random symbol graphs (1..20 symbols; sparse, dense, chain and cycle shapes; 5%/20% roots) on the real Symbol:is_used; builds: repository tests/examples that exit 0 deterministically + generated programs, each built in every configuration and compared with the default build's stdout and exit status; non-trivial = distinct graphs + (program, configuration) pairs",
        "samples": s1 + s2,
        "distribution": cov,
        "traces_validated_against_impl": n1 + n2,
    }
