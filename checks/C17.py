"""C17 - the compiler's big-number arithmetic is exact (bint.lua as instantiated by bn.lua: bint(160), 32-bit limbs).

(T) bits / word size / digit letters scraped into coq/C17/Gen.v (the proofs only use facts about them, a retune re-proves);
(C) the extracted model (coq/C17/Model*.v: every bint function the compiler uses, plus bn.lua's integer literal reader and
    to*int printers) is run against the real module under the interpreter rebuilt from /repo/src on one case file;
oracle = the theorems' right-hand sides evaluated with Python integers (exact arithmetic mod 2^bits)."""
import os
import re
import vlib

ID = "C17"
CLAIM = True
MANIFEST_ENTRY = {
    "text": "proof, partial: every clause of the statement is a Coq theorem over the executable model of bint.lua/bn.lua - "
            "add sub mul inc dec unm, bitwise, comparisons, shifts and rotations by any Lua integer count, bwrap, Lua-integer "
            "conversions, unsigned/truncated/floor division with remainders, ipow (exponent read unsigned, as bint documents; signed "
            "reading proved for exponents >= 0) and upowmod for every modulus, tobase/frombase for bases 2..36 with round trip and the "
            "exact set of accepted strings (any byte string: optional sign + digits of the base, nil otherwise, white space included), "
            "bn.from from the literal TEXT: the two lpegrex patterns as a total splitter characterised by an iff (accepted with "
            "captures (neg,int,frac,exp) exactly for texts of the declared shape), integer literals in bases 2/16 and decimal (exact "
            "below 2^159, a float from there on), a binary/hexadecimal text the pattern refuses is an error, tohexint/tobinint/todecint/todecsci, the conversions of Lua integers / integer-valued floats / "
            "strings and the arithmetic and comparison entry points on such mixed arguments, bint.tonumber, trunc/floor/ceil, byte "
            "buffers; and, on an object-level model, that no public function changes an operand and results are fresh objects "
            "(documented exceptions: tobint/parse without clone, compress, brol/bror by a multiple of the width) - all exact in Z reduced "
            "to 2^160 two's complement; resting on differential testing only: that the hand-written model IS the code (op-by-op "
            "correspondence incl. an aliasing stream and the real lpegrex patterns reached through debug.getupvalue), the fallback "
            "arithmetic on plain Lua numbers, literal texts with a fraction or an exponent (float code, C14: only the split is "
            "proved and corresponded), the Lua VM library functions modelled in Model3/Model4",
    "note": "trusted: Coq 8.16.1 kernel, no axioms (coqchk in thorough); hand-written models coq/C17/Model*.v incl. the Lua VM library "
            "functions (tostring, %x, tonumber(s, base), lower, %w, math.floor/ceil/modf, number comparison, strtod of long decimals, "
            "string.pack/unpack) modelled from the C sources; coq/Base/LuaInt.v (64-bit Lua integers; the interpreter's width is checked "
            "at run time); extraction + OCaml driver, harness/C17/ops.lua, the interpreter rebuilt from /repo/src; scrape of bint(<bits>), "
            "the word-size divisor, BASE_LETTERS and five repair-policy flags (upowmod_mulmod, rot_reduces_count, dec_literal_checked, "
            "frombase_short_guarded, literal_match_checked; each a 3-way classifier new/old/else raise). No cross-property file dependencies (C14 reuses C17's bn_from_dec by reference only).",
    "technique": "machine-checked proof in Coq over an executable model + extracted-model/implementation correspondence",
}
THEOREM_CLASSES = {
    "C17_add_exact": "main", "C17_sub_exact": "main", "C17_mul_exact": "main", "C17_inc_dec_unm_exact": "main",
    "C17_bitwise_exact": "main", "C17_compare_exact": "main", "C17_shift_one_exact": "main", "C17_shl_exact": "main",
    "C17_shr_exact": "main", "C17_bwrap_exact": "main", "C17_rotate_exact": "main", "C17_integer_conv_exact": "main",
    "C17_integer_roundtrip": "corollary", "C17_predicates_exact": "main", "C17_limits_exact": "main", "C17_abs_max_min_exact": "main",
    "C17_udivmod_exact": "main", "C17_tdivmod_exact": "main", "C17_idivmod_exact": "main", "C17_ipow_exact": "main",
    "C17_ipow_signed": "corollary", "C17_upowmod_exact": "main", "C17_tobase_exact": "main", "C17_frombase_exact": "main",
    "C17_frombase_accepts": "main", "C17_text_badbase": "definitional", "C17_text_roundtrip": "main", "C17_literal_exact": "main",
    "C17_intstring_exact": "corollary", "C17_tobint_exact": "main", "C17_fromstring_exact": "main", "C17_mixed_exact": "main",
    "C17_tonumber_exact": "main", "C17_trunc_floor_ceil_exact": "main", "C17_bytes_exact": "main", "C17_todecsci_exact": "corollary",
    "C17_objects_unary": "main", "C17_objects_binary": "main", "C17_objects_shift_rotate": "main", "C17_objects_division": "main",
    "C17_objects_pow_scalar": "main",
    "C17_frombase_uniform": "corollary", "C17_frombase_guard_needed": "refutation",
    "C17_literal_split_partition": "main", "C17_literal_split_complete": "main", "C17_literal_split_exact": "corollary",
    "C17_literal_text_exact": "main", "C17_literal_malformed_exact": "definitional", "C17_literal_malformed_shape": "corollary",
    "C17_literal_match_check_needed": "tripwire",
    "C17_rotate_reduction_needed": "refutation", "C17_upowmod_mulmod_needed": "refutation", "C17_literal_check_needed": "refutation",
}
ALLOWED_AXIOMS = []
TRUSTED_BASE = [
    "coqc 8.16.1 kernel (vm_compute used for parameter facts; no native_compute)",
    "no axioms: every theorem of coq/C17/Properties.v is 'Closed under the global context'",
    "policy discriminators scraped into Gen.v (upowmod_mulmod, rot_reduces_count, dec_literal_checked, frombase_short_guarded, literal_match_checked): the five repaired functions are modelled for both policies, the exact theorems are proved from the fact that the scraped policy is the repaired one and the `_needed` theorems refute the other policy (general-policy refutations with computed witnesses, except C17_literal_match_check_needed, a one-instance tripwire: under the old policy the model answers TOther = not modelled)",
    "translator checks/C17.py:gen (regex scrape of bint(<bits>) in utils/bn.lua, of the word-size default and of the BASE_LETTERS string in thirdparty/bint.lua)",
    "extraction: Require Extraction + ExtrOcamlBasic only (bool,option,unit,list,prod,sumbool,sumor mapped to OCaml; Z/N/positive/nat stay Coq inductives); no Extract Constant of our own",
    "ocaml/zutil.ml + coq/C17/driver.ml (hex text <-> extracted Z), harness/C17/ops.lua (calls bn/bint), OCaml 4.13.1, gcc (interpreter rebuilt from /repo/src)",
    "modelled rather than verified: bint.lua / bn.lua are mirrored by hand in coq/C17/Model.v, Model2.v, Model3.v, Model4.v, Model5.v (bn.from from the text: the two lpegrex literal patterns as a hand-written recursive-descent splitter) and ModelObj.v (object store); the tie is the op-by-op correspondence run on every check",
    "Lua VM library functions used by the text conversions (tostring(integer), string.format('%x'), tonumber(s, base), string.lower, the %w class, math.floor/ceil/modf, number comparison, strtod of a long decimal integer, string.pack/unpack) are modelled in Model3.v / Model4.v from lstrlib.c/lbaselib.c/lobject.c/lmathlib.c/lvm.c; a Lua float is the exact dyadic m*2^e of the double",
]
ASSUMPTIONS = [
    "Lua VM integer semantics as written in coq/Base/LuaInt.v (wrap-around, logical shifts)",
    "correspondence is differential testing over the boundary lattice + random streams, not a proof that model = code",
]

# width parameters; gen() resets them from what it scrapes, so a retuned bint(<bits>) is followed
BITS = 160
WB = 32          # limb width (bint's wordbits)
NL = 5
W = 1 << BITS
M64 = 1 << 64


def set_width(bits, wordbits):
    global BITS, WB, NL, W, KNOWN_REPLAYS
    BITS, WB, NL, W = bits, wordbits, bits // wordbits, 1 << bits
    KNOWN_REPLAYS = known_replays()


def gen(ctx):
    bn = vlib.repo_read("lualib/nelua/utils/bn.lua")
    m = re.search(r"require\s*'nelua\.thirdparty\.bint'\s*\((\d+)\)", bn)
    if not m:
        raise RuntimeError("cannot find bint(<bits>) in bn.lua")
    bits = int(m.group(1))
    bint = vlib.repo_read("lualib/nelua/thirdparty/bint.lua")
    m2 = re.search(r"wordbits\s*=\s*wordbits\s+or\s+\(intbits\s*//\s*(\d+)\)", bint)
    if not m2:
        raise RuntimeError("cannot find the wordbits default in bint.lua")
    script = os.path.join(ctx.work if ctx is not None else vlib.CACHE, "intbits.lua")
    vlib.write_if_changed(script, "local n, i = -1, 0 repeat n, i = n >> 16, i + 16 until n == 0 io.write(i)\n")   # bint.lua's luainteger_bitsize()
    rc, out, err = vlib.run_lua(script)
    if rc != 0 or not out.strip().isdigit():
        raise RuntimeError("cannot determine the Lua integer width: %s" % err[-200:])
    intbits = int(out.strip())
    if intbits != 64:
        raise RuntimeError("coq/Base/LuaInt.v models 64-bit Lua integers, the interpreter has %d" % intbits)
    wordbits = intbits // int(m2.group(1))
    # digit letters of bint.tobase:  BASE_LETTERS[i-1] = ('0123...xyz'):sub(i,i) for i=1,36
    m3 = re.search(r"for i=1,(\d+) do\s*BASE_LETTERS\[i-1\]\s*=\s*\('([^']+)'\):sub\(i,i\)", bint)
    if not m3:
        raise RuntimeError("cannot find the BASE_LETTERS table in bint.lua")
    nletters, letters = int(m3.group(1)), m3.group(2)
    codes = [ord(c) for c in letters[:nletters]]
    # ---- policy discriminators of the three repairs the model mirrors: a revert flips a boolean of Gen.v and the
    # theorems that depend on the repaired policy no longer check (their proofs use the fact lemmas about these) ----
    def fbody(text, head):
        i = text.find(head)
        if i < 0:
            raise RuntimeError("cannot find %r" % head)
        j = text.find("\nend\n", i)
        return text[i:j]
    up = fbody(bint, "function bint.upowmod(")
    if "umulmod(z, x, m)" in up and "umulmod(x, x, m)" in up and "function umulmod(" in bint and "function uaddmod(" in bint:
        upowmod_mulmod = True
    elif re.search(r"bint_umod\(\s*z\s*\*\s*x\s*,\s*m\s*\)", up) and re.search(r"bint_umod\(\s*x\s*\*\s*x\s*,\s*m\s*\)", up):
        upowmod_mulmod = False
    else:
        raise RuntimeError("cannot classify how bint.upowmod multiplies (neither umulmod(..) nor bint_umod(a*b, m))")
    rl, rr = fbody(bint, "function bint.brol("), fbody(bint, "function bint.bror(")
    red = [bool(re.search(r"y\s*=\s*y\s*%\s*BINT_BITS", b)) for b in (rl, rr)]
    old = [("if y > 0 then" in b and "math_mininteger" in b) for b in (rl, rr)]
    if all(red) and not any(old):
        rot_reduces = True
    elif all(old) and not any(red):
        rot_reduces = False
    else:
        raise RuntimeError("cannot classify bint.brol/bror (count reduced modulo BINT_BITS or not)")
    dec_branch = bn[bn.find("else -- should be a decimal number"):]
    dec_branch = dec_branch[:dec_branch.find("return n, 10")]
    if not dec_branch:
        raise RuntimeError("cannot find the decimal branch of bn.from")
    if re.search(r"bn\.todecint\(n\)\s*~=\s*digits", dec_branch) and "v:match('^0*(%d+)$')" in dec_branch:
        dec_checked = True
    elif re.fullmatch(r"else -- should be a decimal number\s*local n = bn\.parse\(v\)\s*assert\(n, 'malformed number'\)\s*", dec_branch):
        dec_checked = False
    else:
        raise RuntimeError("cannot classify the decimal branch of bn.from (range test present or not)")
    asserts = re.findall(r"assert\(([^,()]*(?:\([^()]*\))?[^,()]*),\s*'malformed (binary|hexadecimal) number'\)", bn)
    kinds = sorted(k for _, k in asserts)
    conds = set(c.strip() for c, _ in asserts)
    if kinds == ["binary", "hexadecimal"] and conds == {"neg ~= nil"}:
        lit_checked = True
    elif kinds == ["binary", "hexadecimal"] and conds == {"int"}:
        lit_checked = False
    else:
        raise RuntimeError("cannot classify the assertions after the literal pattern matches of bn.from: %r" % (asserts,))
    fb = fbody(bint, "function bint.frombase(")
    if re.search(r"if\s+#s\s*<\s*step\s+and\s+s:find\('\^\[\+-\]\?%w\+\$'\)\s+then", fb):
        fb_guarded = True
    elif re.search(r"if\s+#s\s*<\s*step\s+then", fb):
        fb_guarded = False
    else:
        raise RuntimeError("cannot classify the short-string fast path of bint.frombase (guarded by '^[+-]?%w+$' or not)")
    cb = lambda b: "true" if b else "false"
    txt = ("(* GENERATED by checks/C17.py from /repo (bn.lua, bint.lua) - do not edit *)\n"
           "From Coq Require Import ZArith List.\n"
           "Definition bint_bits : Z := %d%%Z.\nDefinition word_bits : Z := %d%%Z.\n"
           "Definition base_letters : list Z := (%s nil)%%list.\n"
           "(* upowmod multiplies modulo m through umulmod/uaddmod (true) or as bint_umod(a*b, m) (false) *)\n"
           "Definition upowmod_mulmod : bool := %s.\n"
           "(* brol/bror reduce the count modulo BINT_BITS first (true) or branch on its sign (false) *)\n"
           "Definition rot_reduces_count : bool := %s.\n"
           "(* bn.from's decimal branch tests todecint(n) against the digits read (true) or keeps the parsed value (false) *)\n"
           "Definition dec_literal_checked : bool := %s.\n"
           "(* frombase takes the tonumber fast path only for short strings of the shape ^[+-]?%%w+$ (true) or for every short string (false) *)\n"
           "Definition frombase_short_guarded : bool := %s.\n"
           "(* bn.from asserts on the first capture of the literal pattern, nil exactly on a failed match (true), or on the second result, which is lpeglabel's truthy failure label on a failed match (false) *)\n"
           "Definition literal_match_checked : bool := %s.\n"
           % (bits, wordbits, "".join("%d%%Z :: " % c for c in codes), cb(upowmod_mulmod), cb(rot_reduces), cb(dec_checked), cb(fb_guarded), cb(lit_checked)))
    vlib.write_if_changed(os.path.join(vlib.coq_dir(ID), "Gen.v"), txt)
    set_width(bits, wordbits)
    global FP_SCALE
    fps = {"thirdparty/bint.lua": norm_fp(bint), "utils/bn.lua": norm_fp(bn)}
    changed = [f for f in fps if fps[f] != MODELLED_FP.get(f)]
    FP_SCALE = 5 if changed else 1
    if changed and ctx is not None:
        ctx.note("source text of %s differs from the modelled revision: random budget x%d" % (", ".join(changed), FP_SCALE))
    return {"bint_bits": bits, "word_bits": wordbits, "base_letters": letters[:nletters],
            "upowmod_mulmod": upowmod_mulmod, "rot_reduces_count": rot_reduces, "dec_literal_checked": dec_checked, "frombase_short_guarded": fb_guarded, "literal_match_checked": lit_checked, "fingerprints": fps,
            "changed_since_modelled": changed}


# normalised-text fingerprints (comments and white space removed) of the two files at the time the model was
# written; a different fingerprint is NOT a violation, it multiplies the random budget of the run (DESIGN C17, tie)
MODELLED_FP = {'thirdparty/bint.lua': 'af861fd234e39d92', 'utils/bn.lua': 'acfc9b752a31d570'}
FP_SCALE = 1


def norm_fp(text):
    import hashlib
    text = re.sub(r"--\[\[.*?\]\]", "", text, flags=re.S)
    text = re.sub(r"--[^\n]*", "", text)
    text = re.sub(r"\s+", " ", text)
    return hashlib.sha256(text.encode()).hexdigest()[:16]


def sgn(u):
    return u - W if u >= W // 2 else u


def wrap64s(v):
    v %= M64
    return v - M64 if v >= M64 // 2 else v


def hexs(v):
    return ("-%x" % -v) if v < 0 else "%x" % v


def limbs(u):
    return ",".join("%x" % ((u >> (WB * i)) & ((1 << WB) - 1)) for i in range(NL))


def b2s(b):
    return "true" if b else "false"


DIGITS = "0123456789abcdefghijklmnopqrstuvwxyz"


def to_base(v, base):
    if v == 0:
        return "0"
    neg = v < 0
    v = abs(v)
    out = []
    while v:
        out.append(DIGITS[v % base])
        v //= base
    return ("-" if neg else "") + "".join(reversed(out))


def parse_digits(s, base):
    """documented frombase domain: optional sign, then 1+ alphanumerics, all digits < base; else None"""
    t = s.lower()
    sign = 1
    if t[:1] in ("+", "-"):
        sign = -1 if t[0] == "-" else 1
        t = t[1:]
    if not t:
        return None
    v = 0
    for c in t:
        d = DIGITS.find(c)
        if d < 0 or d >= base:
            return None
        v = v * base + d
    return sign * v


def rot(a, k):
    k %= BITS
    return ((a << k) | (a >> (BITS - k))) % W if k else a


import math
from fractions import Fraction


def float_token(f):
    if f != f: return "f:nan"
    if f in (float("inf"), float("-inf")): return "f:inf" if f > 0 else "f:-inf"
    if f == 0: return "f:0:0:" + f.hex()
    mant, ex = math.frexp(f)
    m = int(mant * (1 << 53)); e = ex - 53
    while m % 2 == 0:
        m //= 2; e += 1
    return "f:%s:%s:%s" % (hexs(m), hexs(e), f.hex())


def val_token(v):
    k, x = v
    if k == "i": return "i:" + hexs(x)
    if k == "b": return "b:%x" % x
    if k == "s": return "s:" + (x.hex() if x else "-")
    return float_token(x)


def num_out(x):
    """canonical text of a Lua number result"""
    if isinstance(x, int): return "i " + hexs(x)
    if x != x: return "flt:nan"
    if x in (float("inf"), float("-inf")): return "flt:inf" if x > 0 else "flt:-inf"
    fr = Fraction(x)
    return "flt=%d/%d" % (fr.numerator, fr.denominator)


def canon_out(s):
    """floats are printed differently by the model (flt:<m>:<e>) and by Lua (flt:<%a>): compare their values"""
    if "flt:" not in s: return s
    out = []
    for t in s.split(" "):
        if t.startswith("flt:"):
            b = t[4:]
            if b in ("nan", "-nan"): t = "flt:nan"
            elif b in ("inf", "-inf"): t = "flt:" + b
            elif b.startswith(("0x", "-0x")):
                fr = Fraction(float.fromhex(b)); t = "flt=%d/%d" % (fr.numerator, fr.denominator)
            else:
                m, e = b.split(":")
                m = -int(m[1:], 16) if m.startswith("-") else int(m, 16)
                e = -int(e[1:], 16) if e.startswith("-") else int(e, 16)
                fr = Fraction(m) * (Fraction(2) ** e); t = "flt=%d/%d" % (fr.numerator, fr.denominator)
        out.append(t)
    return " ".join(out)


def lua_fromstring(t):
    m = re.fullmatch(r"([+-]?)([0-9]+)", t)
    if m: return int(t)
    m = re.fullmatch(r"([+-]?)0[xX]([0-9a-fA-F]+)", t)
    if m: return int(m.group(1) + m.group(2), 16)
    m = re.fullmatch(r"([+-]?)0[bB]([01]+)", t)
    if m: return int(m.group(1) + m.group(2), 2)
    return None


def to_int(v):
    """exact integer a Lua value converts to (bint.tobint), or None"""
    k, x = v
    if k == "i": return x
    if k == "b": return sgn(x)
    if k == "s":
        try:
            return lua_fromstring(x.decode("ascii"))
        except UnicodeDecodeError:
            return None
    if x != x or x in (float("inf"), float("-inf")) or x != math.floor(x): return None
    return int(x) if -2**63 <= x < 2**63 else None


def to_number(v):
    """bint.tonumber: a Lua integer when it fits, else the nearest double"""
    k, x = v
    if k == "b":
        s = sgn(x)
        return s if -2**63 <= s < 2**63 else float(s)
    return x if k in ("i", "f") else None


def in64(z):
    return -2**63 <= z < 2**63


def oracle4(op, args):
    a = args[0]
    b = args[1] if len(args) > 1 else None
    if op in ("split_bin", "split_hex"):
        sp = lit_split(a, BIN_RE if op == "split_bin" else HEX_RE)
        if sp is None: return "nil"
        hx = lambda t: t.hex() if t else "-"
        return "%s %s %s %s" % (b2s(sp[0]), hx(sp[1]), "false" if sp[2] is False else hx(sp[2]), "nil" if sp[3] is None else hx(sp[3]))
    if op == "from_text": return oracle_from_text(a)
    if op == "alias": return oracle_alias(*args)
    if op == "lua_tonumber":
        v = lua_tonumber_base(a, b); return "nil" if v is None else hexs(v)
    if op == "lua_tostring": return str(a)
    if op == "lua_format_x": return "%x" % (a % M64)
    if op == "tobint":
        z = to_int(a); return "nil" if z is None else limbs(z % W)
    if op == "new":
        z = to_int(a); return "!err assert" if z is None else limbs(z % W)
    if op in ("madd", "msub", "mmul"):
        x, y = to_int(a), to_int(b)
        if x is None or y is None: return "fallback"
        return limbs({"madd": x + y, "msub": x - y, "mmul": x * y}[op] % W)
    if op in ("mlt", "mle", "meq"):
        x, y = to_int(a), to_int(b)
        if x is not None and y is not None:
            x, y = sgn(x % W), sgn(y % W)
            return b2s({"mlt": x < y, "mle": x <= y, "meq": x == y}[op])
        if op == "meq":
            if a[0] in "if" and b[0] in "if": return b2s(a[1] == b[1])
            if a[0] == "s" and b[0] == "s": return b2s(a[1] == b[1])
            return "false"
        p, q = to_number(a), to_number(b)
        if p is None or q is None: return None
        return b2s(p < q if op == "mlt" else p <= q)
    if op == "tonumber": return num_out(to_number(("b", a)))
    if op == "trunc":
        k, x = a
        if k == "f":
            if x != x or x in (float("inf"), float("-inf")): return "nil"
            z = int(x)
            return limbs(z % W) if in64(z) else "nil"
        z = to_int(a); return "nil" if z is None else limbs(z % W)
    if op in ("floor", "ceil"):
        k, x = a
        if k == "f":
            if x != x or x in (float("inf"), float("-inf")): return "!err assert"
            z = math.floor(x) if op == "floor" else math.ceil(x)
            return limbs(z % W) if in64(z) else "!err assert"
        z = to_int(a); return "!err assert" if z is None else limbs(z % W)
    nb = BITS // 8
    if op == "fromle": return limbs(int.from_bytes((a + bytes(nb))[:nb], "little"))
    if op == "frombe":
        bs = a[-nb:] if len(a) > nb else bytes(nb - len(a)) + a
        return limbs(int.from_bytes(bs, "big"))
    if op == "tole":
        bs = a.to_bytes(nb, "little")
        if b: bs = bs.rstrip(b"\0") or b"\0"
        return bs.hex()
    if op == "tobe":
        bs = a.to_bytes(nb, "big")
        if b: bs = bs.lstrip(b"\0") or b"\0"
        return bs.hex()
    if op == "todecsci": return to_base(sgn(a), 10) + (".0" if b else "")
    if op == "demotefloat":
        k, x = a
        if k == "f" and x == x and x not in (float("inf"), float("-inf")) and x == math.floor(x):
            return num_out(int(x) if in64(int(x)) else x)
        return num_out(x)
    if op == "canbeintegral":
        k, x = a
        return b2s(k == "i" or (x == x and -2**63 <= x <= 2**63 - 1 and x == math.floor(x)))
    raise KeyError(op)


def lua_tonumber_base(bs, base):
    """l_str2int of lbaselib.c: spaces, sign, alphanumeric digits below the base (wrapping), spaces; else nil"""
    ws = b" \f\n\r\t\v"
    i, n = 0, len(bs)
    while i < n and bs[i:i + 1] in [ws[k:k + 1] for k in range(len(ws))]: i += 1
    neg = False
    if i < n and bs[i:i + 1] in (b"-", b"+"):
        neg = bs[i:i + 1] == b"-"; i += 1
    if i >= n or not chr(bs[i]).isalnum() or bs[i] > 127: return None
    v = 0
    while i < n and bs[i] < 128 and chr(bs[i]).isalnum():
        c = chr(bs[i])
        d = ord(c) - 48 if c.isdigit() else ord(c.upper()) - 55
        if d >= base: return None
        v = (v * base + d) % M64; i += 1
    while i < n and bs[i:i + 1] in [ws[k:k + 1] for k in range(len(ws))]: i += 1
    if i != n: return None
    return wrap64s(-v if neg else v)


ALIAS_FNS = ["tobint", "parse", "tobintc", "new", "abs", "inc", "dec", "max", "min", "add", "sub", "mul", "bnot", "unm", "band", "bor", "bxor",
             "shl", "shr", "bwrap", "brol", "bror", "udivmod", "idivmod", "tdivmod", "ipow", "upowmod", "tobase", "tointeger", "compress"]


def oracle_alias(fname, x, y, n, m):
    """no public function changes its operands; results are new objects, except the documented cases"""
    if fname in ("tobint", "parse", "tobintc", "new"): r = limbs(x)
    elif fname in ("abs", "inc", "dec", "bnot", "unm"): r = oracle(fname, (x,))
    elif fname in ("max", "min", "add", "sub", "mul", "band", "bor", "bxor", "ipow"): r = oracle(fname, (x, y))
    elif fname in ("shl", "shr", "bwrap", "brol", "bror"): r = oracle(fname, (x, n))
    elif fname in ("udivmod", "idivmod", "tdivmod"): r = oracle(fname, (x, y)).replace(" ", "/") if not oracle(fname, (x, y)).startswith("!") else oracle(fname, (x, y))
    elif fname == "upowmod": r = oracle("upowmod", (x, y, m))
    elif fname == "tobase": r = oracle("tobase", (x, n, "n"))
    elif fname == "tointeger": r = "i " + oracle("tointeger", (x,))
    elif fname == "compress":
        r = oracle("compress", (x,)); r = r if r.startswith("i ") else r[2:]
    nres = 0 if (r.startswith("!") or fname in ("tobase", "tointeger") or (fname == "compress" and r.startswith("i "))) else (2 if fname in ("udivmod", "idivmod", "tdivmod") else 1)
    aliased = fname in ("tobint", "parse") or (fname == "compress" and nres == 1) or (fname in ("brol", "bror") and n % BITS == 0)
    flags = ("x" if aliased else "-") * nres
    x2 = (x + 1) % W if aliased else x
    return "R=%s X=%s Y=%s A=%s X2=%s Y2=%s" % (r, limbs(x), limbs(y), flags, limbs(x2), limbs(y))


BIN_RE = re.compile(rb"(-|\+?)0[bB](?:([01]+)(?:(\.)([01]*))?|\.([01]+))(?:[pP]([+-]?[0-9]+))?")
HEX_RE = re.compile(rb"(-|\+?)0[xX](?:([0-9a-fA-F]+)(?:(\.)([0-9a-fA-F]*))?|\.([0-9a-fA-F]+))(?:[pP]([+-]?[0-9]+))?")


def lit_split(t, rx):
    """captures of the lpegrex pattern: (neg, int, frac or False, exp or None), or None when it does not match"""
    m = rx.fullmatch(t)
    if not m: return None
    sign, i1, dot, f1, f2, ex = m.groups()
    if i1 is not None:
        frac = False if dot is None else (f1 if f1 else b"0")
        return (sign == b"-", i1, frac, ex)
    return (sign == b"-", b"0", f2, ex)


def oracle_from_text(t):
    """integer literals are exact; the rest is float code (C14): None = no oracle"""
    for rx, base, marks in ((BIN_RE, 2, b"bB"), (HEX_RE, 16, b"xX")):
        if re.match(rb"[-+]?0[" + marks + rb"]", t):
            sp = lit_split(t, rx)
            if sp is None: return "!err raises"   # 'malformed binary / hexadecimal number' 
            neg, i, frac, ex = sp
            if frac is False and ex is None:
                v = int(i.decode(), base); return limbs((-v if neg else v) % W)
            return "float" if base == 16 else None
    m = re.fullmatch(rb"([+-]?)([0-9]+)", t)
    if m:
        v = int(t.decode())
        if not m.group(1) and v >= W // 2: return "float"
        return limbs(v % W)
    if re.match(rb"-?(inf|nan)", t.lower()): return "float"
    return None


OPS4 = {"split_bin": "S", "split_hex": "S", "from_text": "S", "alias": "KBBIB", "lua_tonumber": "SI", "lua_tostring": "I", "lua_format_x": "I", "tobint": "V", "new": "V", "madd": "VV", "msub": "VV", "mmul": "VV", "mlt": "VV", "mle": "VV", "meq": "VV",
        "tonumber": "B", "trunc": "V", "floor": "V", "ceil": "V", "fromle": "S", "frombe": "S", "tole": "BT", "tobe": "BT",
        "todecsci": "BT", "demotefloat": "V", "canbeintegral": "V"}


def oracle(op, args):
    """The theorems' right-hand sides: exact integers reduced to 160-bit two's complement.
    Returns None where the documented behaviour leaves the result open (then only model = code is checked)."""
    if op in OPS4:
        return oracle4(op, args)
    a = args[0] if args else None
    b = args[1] if len(args) > 1 else None
    if op.endswith("_i"):   # Lua integer operand: converted with sign extension
        return oracle(op[:-2], (a, b % W))
    if op == "add": return limbs((a + b) % W)
    if op == "sub": return limbs((a - b) % W)
    if op == "mul": return limbs((a * b) % W)
    if op == "band": return limbs(a & b)
    if op == "bor": return limbs(a | b)
    if op == "bxor": return limbs(a ^ b)
    if op == "bnot": return limbs((~a) % W)
    if op == "unm": return limbs((-a) % W)
    if op == "inc": return limbs((a + 1) % W)
    if op == "dec": return limbs((a - 1) % W)
    if op == "shlone": return limbs((a << 1) % W)
    if op == "shrone": return limbs(a >> 1)
    if op == "eq": return b2s(a == b)
    if op == "ult": return b2s(a < b)
    if op == "ule": return b2s(a <= b)
    if op == "lt": return b2s(sgn(a) < sgn(b))
    if op == "le": return b2s(sgn(a) <= sgn(b))
    if op == "isneg": return b2s(sgn(a) < 0)
    if op == "touinteger": return hexs(wrap64s(a))
    if op == "tointeger": return hexs(wrap64s(sgn(a)))
    if op == "fromuinteger": return limbs(a % M64)          # a is a signed 64-bit integer here
    if op == "frominteger": return limbs(a % W)
    if op == "shlwords": return limbs((a << (WB * b)) % W)
    if op == "shrwords": return limbs(a >> (WB * b))
    if op in ("shl", "shr"):
        k = b if op == "shl" else -b
        if abs(k) >= BITS:
            return limbs(0)
        return limbs((a << k) % W if k >= 0 else a >> -k)
    if op == "bwrap":
        return limbs(0 if b <= 0 else (a if b >= BITS else a % (1 << b)))
    if op == "brol": return limbs(rot(a, b))
    if op == "bror": return limbs(rot(a, -b))
    if op == "iszero": return b2s(a == 0)
    if op == "isone": return b2s(a == 1)
    if op == "isminusone": return b2s(a == W - 1)
    if op == "iseven": return b2s(a % 2 == 0)
    if op == "isodd": return b2s(a % 2 == 1)
    if op == "mininteger": return limbs(W // 2)
    if op == "maxinteger": return limbs(W // 2 - 1)
    if op == "abs": return limbs(abs(sgn(a)) % W)
    if op == "max": return limbs(max(sgn(a), sgn(b)) % W)
    if op == "min": return limbs(min(sgn(a), sgn(b)) % W)
    if op in ("udivmod", "udiv", "umod"):
        if b == 0: return "!err divzero"
        q, r = a // b, a % b
        return {"udivmod": limbs(q) + " " + limbs(r), "udiv": limbs(q), "umod": limbs(r)}[op]
    if op == "tdivmod":
        x, y = sgn(a), sgn(b)
        if x == -(W // 2) and y == -1: return "!err overflow"
        if y == 0: return "!err divzero"
        q = abs(x) // abs(y)
        if (x < 0) != (y < 0): q = -q
        r = x - q * y
        return limbs(q % W) + " " + limbs(r % W)
    if op in ("idivmod", "idiv", "mod"):
        x, y = sgn(a), sgn(b)
        if y == 0: return "!err divzero"
        q, r = x // y, x % y
        return {"idivmod": limbs(q % W) + " " + limbs(r % W), "idiv": limbs(q % W), "mod": limbs(r % W)}[op]
    if op == "ipow": return limbs(pow(a, b, W))
    if op == "upowmod":
        m = args[2]
        if m == 1: return limbs(0)
        if m == 0: return "!err divzero"
        return limbs(pow(a, b, m))
    if op == "compress":
        x = sgn(a)
        return ("i " + hexs(x)) if -2**63 <= x < 2**63 else ("b " + limbs(a))
    if op == "tobase":
        base, fl = b, args[2]
        if not 2 <= base <= 36: return "nil"
        unsigned = (base != 10) if fl == "n" else (fl == "t")
        return to_base(a if unsigned else sgn(a), base)
    if op == "frombase":
        base = b
        if not 2 <= base <= 36: return "nil"
        try:
            t = a.decode("ascii")
        except UnicodeDecodeError:
            return None
        if any(c.isspace() for c in t): return "nil"   # documented: only alphanumeric and '+-' characters, else nil
        v = parse_digits(t, base)
        return "nil" if v is None else limbs(v % W)
    if op in ("from_bin", "from_hex"):
        v = int(b.decode(), 2 if op == "from_bin" else 16)
        return limbs((-v if a else v) % W)
    if op == "from_dec":
        t = a.decode()
        v = int(t)
        # an unsigned literal that does not fit the signed big-number range is read as a float (like Lua);
        # the repaired reader only tests unsigned digit strings, a signed one still wraps
        if t[0] not in "+-" and v >= W // 2: return "float"
        return limbs(v % W)
    if op in ("tohexint", "tobinint"):
        v = a if b is None else (0 if b <= 0 else (a if b >= BITS else a % (1 << b)))
        return to_base(v, 16 if op == "tohexint" else 2)
    if op == "todecint": return to_base(sgn(a), 10)
    raise KeyError(op)


BIN = ["add", "sub", "mul", "band", "bor", "bxor", "eq", "ult", "ule", "lt", "le", "max", "min"]
DIV = ["udivmod", "udiv", "umod", "tdivmod", "idivmod", "idiv", "mod"]
UN = ["bnot", "unm", "inc", "dec", "shlone", "shrone", "isneg", "touinteger", "tointeger",
      "iszero", "isone", "isminusone", "iseven", "isodd", "abs", "compress", "todecint"]
INT = ["fromuinteger", "frominteger"]
SHIFT = ["shl", "shr", "bwrap"]
ROT = ["brol", "bror"]
# kinds of arguments per op: B bint (hex), I Lua integer (signed hex), N small nat, S bytes, F flag, O optional int
SIG = {}
for _o in BIN + DIV + ["ipow"]: SIG[_o] = "BB"
MIXED = [o for o in BIN + DIV if o not in ("eq", "ult", "ule")]   # second operand given as a Lua integer
for _o in MIXED: SIG[_o + "_i"] = "BI"
for _o in UN: SIG[_o] = "B"
for _o in INT: SIG[_o] = "I"
for _o in SHIFT + ROT: SIG[_o] = "BI"
SIG.update({"shlwords": "BN", "shrwords": "BN", "upowmod": "BBB", "mininteger": "", "maxinteger": "",
            "tobase": "BIF", "frombase": "SI", "from_bin": "TS", "from_hex": "TS", "from_dec": "S",
            "tohexint": "BO", "tobinint": "BO"})
SIG.update(OPS4)

# inputs on which the unchanged code is known to deviate from the property (see known_findings/C17.json);
# they are replayed on every run and reported under exactly these keys
def known_replays():
    """(op, args, exact key) of the inputs on which the unchanged code deviates from the property: none at present"""
    return []


KNOWN_REPLAYS = known_replays()


def lattice():
    L = {0, 1, 2, W - 1, W - 2}
    ks = {8, 16, BITS - 1}
    for j in range(1, NL):
        ks |= {WB * j - 1, WB * j, WB * j + 1}
    for k in sorted(ks):
        for d in (-1, 0, 1):
            L.add(((1 << k) + d) % W)
            L.add((-(1 << k) + d) % W)
    for bits in (8, 16, 32, 64, 128):
        if bits >= BITS: continue
        L.add((1 << bits) - 1); L.add((1 << (bits - 1)) - 1); L.add((-(1 << (bits - 1))) % W)
    return sorted(L)


def limb_patterns(rng, n):
    pats = [(1 << WB) - 1, 1 << (WB - 1), (1 << (WB - 1)) - 1, 1, 0]
    out = []
    for _ in range(n):
        v = 0
        for i in range(NL):
            v |= rng.choice(pats) << (WB * i)
        out.append(v)
    return out


def gen_cases(ctx):
    rng = ctx.rng
    L = lattice()
    cases = []
    dist = {}

    def add(stream, op, *args):
        cases.append((stream, op, tuple(args)))
        dist[stream] = dist.get(stream, 0) + 1

    pats = limb_patterns(rng, 200)

    def draw(kind=None):
        kind = kind or rng.choice(["dense", "sparse", "small", "pattern", "lattice", "short"])
        if kind == "dense": return rng.getrandbits(BITS)
        if kind == "sparse": return (rng.getrandbits(WB) << (WB * rng.randrange(NL))) | (rng.getrandbits(WB) if rng.random() < .3 else 0)
        if kind == "small": return rng.choice([rng.getrandbits(12), (-rng.getrandbits(12)) % W])
        if kind == "lattice": return rng.choice(L)
        if kind == "short":  # random bit length, either sign: exercises findleftbit / denosize / chunk counts
            v = rng.getrandbits(rng.randrange(1, BITS))
            return v if rng.random() < .7 else (-v) % W
        return rng.choice(pats)

    # (i) boundary lattice, full cross product for binary ops (sampled in quick)
    pairs = [(a, b) for a in L for b in L]
    for op in BIN + DIV:
        ps = pairs if ctx.thorough else rng.sample(pairs, 1500 if op in BIN[:11] else 500)
        for a, b in ps:
            add("lattice", op, a, b)
    for op in UN:
        for a in L:
            add("lattice", op, a)
    ints = sorted({0, 1, -1, 2, -2, 2**31, -2**31, 2**32, 2**32 - 1, 2**63 - 1, -2**63, -2**63 + 1, 2**62, 255, -256})
    for op in INT:
        for i in ints:
            add("lattice", op, i)
    add("lattice", "mininteger"); add("lattice", "maxinteger")
    # shifts: every count -(bits+10)..bits+10 and the extreme Lua integers, on a few operands
    counts = list(range(-BITS - 10, BITS + 11)) + [2**31, -2**31, 2**63 - 1, -2**63, -2**63 + 1, 2**32, -2**32, 1 << 40]
    shift_ops = [W - 1, 1, 1 << (BITS - 1), 0x123456789abcdef0123456789abcdef012345678 % W, rng.getrandbits(BITS), rng.choice(pats)]
    for op in SHIFT:
        for c in counts:
            for a in (shift_ops if ctx.thorough else rng.sample(shift_ops, 3)):
                add("counts", op, a, c)
    for op in ROT:   # rotations: every count, like the shifts
        for c in counts:
            for a in (shift_ops if ctx.thorough else rng.sample(shift_ops, 2)):
                add("counts", op, a, c)
    for op in ("shlwords", "shrwords"):
        for n in range(0, 5 if op == "shlwords" else 8):
            for a in shift_ops:
                add("counts", op, a, n)
    # (ii) random streams
    nrand = ctx.scale(4000, 120000) * (FP_SCALE if not ctx.thorough else 1)
    for _ in range(nrand):
        op = rng.choice(BIN + UN + DIV + DIV)
        if SIG[op] == "BB":
            kind = rng.choice(["dense", "sparse", "small", "pattern", "short", "short"])
            add(kind, op, draw(kind), draw(rng.choice([kind, "short", "small"])))
        else:
            kind = rng.choice(["dense", "sparse", "small", "pattern", "short"])
            add(kind, op, draw(kind))
    small_ints = [0, 1, -1, 2, -2, 3, 7, -7, 10, 16, 255, -256, 2**31 - 1, 2**31, -2**31, 2**32, 2**63 - 1, -2**63, -2**63 + 1]
    for _ in range(ctx.scale(1500, 40000)):
        i = rng.choice(small_ints) if rng.random() < .6 else wrap64s(rng.getrandbits(rng.randrange(1, 65)))
        add("mixed", rng.choice(MIXED) + "_i", draw(), i)
    for _ in range(ctx.scale(300, 5000)):
        add("randint", rng.choice(INT), wrap64s(rng.getrandbits(64)) if rng.random() < .7 else wrap64s(rng.getrandbits(20)))
    for _ in range(ctx.scale(600, 20000)):
        op = rng.choice(SHIFT + ROT)
        c = rng.randrange(-BITS, BITS + 1) if rng.random() < .8 else rng.choice([rng.randrange(-400, 400), wrap64s(rng.getrandbits(64))])
        add("randshift", op, draw(), c)
    # powers
    for _ in range(ctx.scale(300, 6000)):
        e = rng.choice([rng.randrange(0, 40), rng.getrandbits(rng.randrange(1, BITS)), draw("lattice")])
        add("pow", "ipow", draw(), e)
    for _ in range(ctx.scale(16, 1200)):   # costly in the extracted model: every product is 2*bits modular additions
        e = rng.choice([rng.randrange(0, 40), rng.getrandbits(rng.randrange(1, BITS if ctx.thorough else 24))])
        m = rng.choice([0, 1, 2, rng.getrandbits(rng.randrange(1, BITS + 1)), (1 << (BITS // 2)) + 1, W - 1, W - 2, (W // 2) + 1, draw()])
        add("pow", "upowmod", draw(), e, m)
    # text: every base, both signs, all flag values
    for base in range(2, 37):
        for fl in ("t", "f", "n"):
            for a in [0, 1, base - 1, base, W - 1, W // 2, W // 2 - 1, 2**63 - 1, 2**63, (-2**63) % W, (-2**63 - 1) % W, 2**64] + \
                     [draw() for _ in range(ctx.scale(4, 60))]:
                add("tobase", "tobase", a, base, fl)
    for base in (0, 1, 37, -5, 2**40):
        add("tobase-badbase", "tobase", 5, base, "n")
        add("frombase-badbase", "frombase", b"101", base)
    for base in range(2, 37):
        vals = [0, 1, base, W - 1, W, W + 5, 2**63 - 1, 2**63, 2**64] + [rng.getrandbits(rng.randrange(1, BITS + 40)) for _ in range(ctx.scale(6, 80))]
        for v in vals:
            s = to_base(v, base)
            if rng.random() < .3: s = s.upper()
            if rng.random() < .2: s = "0" * rng.randrange(1, 70) + s
            sg = rng.choice(["", "", "-", "+"])
            add("frombase", "frombase", (sg + s).encode(), base)
    for _ in range(ctx.scale(300, 4000)):   # malformed / precondition-violating strings: expected outcome is nil
        base = rng.randrange(2, 37)
        n = rng.choice([0, 1, 2, 5, 20, 70])
        s = "".join(rng.choice(DIGITS[:base] + rng.choice(["", DIGITS[base:base + 1], "-", "+", ".", "_"])) for _ in range(n))
        add("frombase-malformed", "frombase", (rng.choice(["", "-", "+", "--"]) + s).encode(), base)
    # white space: nil on both paths (the six witnesses of the repaired defect, /repo 4105672, are in the corpus)
    for t in (b" ", b"1 2", b"+ 1", b"- 1", b" 12" + b"0" * 70, b"0" * 70 + b"12 ", b" " + b"1" * 64, b"\t" + b"f" * 40 + b"\n"):
        for base in (10, 16, 2):
            add("frombase-space", "frombase", t, base)
    for t in (b" 12", b"12 ", b"\t-7\n", b" 1", b"1 "):
        for base in (2, 10, 16, 36):
            add("frombase-space", "frombase", t, base)
    for _ in range(ctx.scale(300, 5000)):
        v = rng.getrandbits(rng.randrange(1, BITS + 40))
        neg = rng.random() < .4
        k = rng.choice(["from_bin", "from_hex", "from_dec"])
        if k == "from_bin": add("literal", k, neg, to_base(v, 2).encode())
        elif k == "from_hex": add("literal", k, neg, rng.choice([to_base(v, 16), to_base(v, 16).upper()]).encode())
        else: add("literal", k, ((rng.choice(["-", "+", ""])) + to_base(v, 10)).encode())
    # ---- literal texts: the lpegrex split and bn.from from the text ----
    def lit_text(kind):
        digs = {"b": "01", "x": "0123456789abcdefABCDEF"}[kind]
        sign = rng.choice(["", "", "-", "+"])
        mark = rng.choice([kind, kind.upper()])
        i = "".join(rng.choice(digs) for _ in range(rng.choice([0, 1, 1, 3, 8, 40, 70])))
        form = rng.random()
        body = i
        if form < .25: body = i + "." + "".join(rng.choice(digs) for _ in range(rng.choice([0, 1, 4])))
        if rng.random() < .25: body += rng.choice("pP") + rng.choice(["", "-", "+"]) + "".join(rng.choice("0123456789") for _ in range(rng.choice([0, 1, 2])))
        if rng.random() < .12: body += rng.choice(["g", "2" if kind == "b" else "z", ".", " ", "p"])
        return (sign + "0" + mark + body).encode()
    for _ in range(ctx.scale(500, 10000)):
        k = rng.choice("bx")
        t = lit_text(k)
        add("literal-text", "split_bin" if k == "b" else "split_hex", t)
        add("literal-text", "from_text", t)
    for t in (b"0x3 ", b"0xzz", b"0x1p", b"0b102", b" 0x3", b"0x 3", b"-0x1p+", b"0x1.8p1 ", b"0x\n", b"0b", b"0x", b"-0b", b"0b.", b"0b.1", b"0b1.", b"0x.8p1", b"0b1p", b"0b1p+", b"0B101", b"+0X1f", b"0b1p3", b"0b1.0", b"inf", b"-inf", b"NaN", b"-nan",
              b"12", b"-12", b"+12", b"0012", b"1.5", b"1e3", b"abc", b"", b"-", str(W // 2).encode(), str(W // 2 - 1).encode(), str(W).encode()):
        add("literal-text", "from_text", t)
        add("literal-text", "split_bin", t); add("literal-text", "split_hex", t)
    for _ in range(ctx.scale(200, 4000)):
        v = rng.getrandbits(rng.randrange(1, BITS + 40))
        add("literal-text", "from_text", (rng.choice(["", "", "-", "+"]) + ("0" * rng.choice([0, 0, 3])) + str(v)).encode())
    # ---- aliasing: operands re-read after the call, identity of the results, results mutated in place ----
    for fname in ALIAS_FNS:
        for _ in range(ctx.scale(6 if fname == "upowmod" else 25, 60 if fname == "upowmod" else 600)):
            x, y = draw(), draw(rng.choice(["small", "short", "dense", "lattice"]))
            if fname in ("brol", "bror"): n = rng.choice([0, BITS, -BITS, 2 * BITS, rng.randrange(-2 * BITS, 2 * BITS), 1, -1])
            elif fname in ("shl", "shr", "bwrap"): n = rng.choice([0, 1, -1, BITS, rng.randrange(-BITS - 5, BITS + 5)])
            elif fname == "tobase": n = rng.randrange(2, 37)
            else: n = 0
            if fname == "ipow": y = rng.choice([0, 1, 2, 3, rng.randrange(0, 50), draw()])
            if fname == "compress" and rng.random() < .5: x = draw("small")
            m = rng.choice([0, 1, 2, draw(), W - 1]) if fname == "upowmod" else 0
            if fname == "upowmod": y = rng.choice([0, 1, rng.randrange(0, 40)])
            add("alias", "alias", fname, x, y, n, m)
    # ---- the Lua VM functions modelled in Model3.v, called directly (tonumber(s, base), tostring, '%x') ----
    for i in ints + [10**18, -10**18, 2**53, 1 << 40]:
        add("luavm", "lua_tostring", i); add("luavm", "lua_format_x", i)
    for _ in range(ctx.scale(200, 4000)):
        i = wrap64s(rng.getrandbits(rng.randrange(1, 65)))
        add("luavm", "lua_tostring", i); add("luavm", "lua_format_x", i)
    for _ in range(ctx.scale(600, 12000)):
        base = rng.randrange(2, 37)
        body = "".join(rng.choice(DIGITS[:base] + DIGITS[:base].upper()) for _ in range(rng.choice([0, 1, 2, 5, 13, 20, 64, 70])))
        if rng.random() < .25 and body:   # a bad character somewhere
            k = rng.randrange(len(body)); body = body[:k] + rng.choice([DIGITS[base:base + 1] or "_", "-", ".", " ", "_", "\t"]) + body[k + 1:]
        t = rng.choice(["", "", " ", "\t\n", "\v\f\r "]) + rng.choice(["", "", "-", "+", "--", "- "]) + body + rng.choice(["", "", " ", "\n\t", " x"])
        add("luavm", "lua_tonumber", t.encode(), base)
    # ---- how types.lua calls the library: Lua integers, floats, strings and bints mixed ----
    floats = [0.0, -0.0, 1.0, -1.0, 2.5, -2.5, 0.5, -0.5, 1e-300, 255.0, -256.0, 2.0**31, 2.0**32, 2.0**52 + 0.5, 2.0**53, 2.0**53 + 2,
              -(2.0**53), 2.0**62, 2.0**63, 2.0**63 - 1024, -(2.0**63), -(2.0**63) - 2048, 2.0**64, 1e19, 1e30, 2.0**159, 2.0**160, 1e300, -1e300,
              float("inf"), float("-inf"), float("nan"), 9007199254740993.0, 123456789.0, 1.0e15 + 0.25]

    def drawf():
        r = rng.random()
        if r < .45: return rng.choice(floats)
        if r < .6: return float(rng.randrange(-2**53, 2**53))
        if r < .75: return rng.randrange(-2**53, 2**53) / rng.choice([2, 4, 1024])
        if r < .9: return float(wrap64s(rng.getrandbits(64)))   # near the int64 range, rounded to a double
        return rng.choice([1, -1]) * 2.0 ** rng.randrange(-60, 200) * (1 + rng.random())

    strs = [b"0", b"12", b"-12", b"+7", b"0x1F", b"-0x1f", b"0X10", b"0b101", b"-0B11", b"", b"-", b"0x", b"0b2", b"12a", b" 12", b"1.5",
            b"1e3", b"0xg", str(W).encode(), str(W // 2).encode(), b"-" + str(W // 2).encode(), b"00012", b"0x" + b"f" * 45]

    def drawv(kinds="ifbs"):
        k = rng.choice(kinds)
        if k == "i": return ("i", rng.choice(small_ints) if rng.random() < .5 else wrap64s(rng.getrandbits(rng.randrange(1, 65))))
        if k == "f": return ("f", drawf())
        if k == "b": return ("b", draw())
        return ("s", rng.choice(strs))

    for f in floats:
        for op in ("tobint", "new", "trunc", "floor", "ceil", "demotefloat", "canbeintegral"):
            add("mixed-values", op, ("f", f))
    for t in strs:
        add("mixed-values", "tobint", ("s", t)); add("mixed-values", "new", ("s", t))
    for _ in range(ctx.scale(600, 12000)):
        op = rng.choice(["tobint", "new", "trunc", "floor", "ceil"])
        add("mixed-values", op, drawv("ifb" if op in ("trunc", "floor", "ceil") else "ifbs"))
    for _ in range(ctx.scale(300, 6000)):
        add("mixed-values", rng.choice(["demotefloat", "canbeintegral"]), drawv("if"))
    for _ in range(ctx.scale(1500, 40000)):
        op = rng.choice(["madd", "msub", "mmul", "mlt", "mle", "meq", "meq"])
        kinds = "ifbs" if op == "meq" else "ifb"
        a, b = drawv(kinds), drawv(kinds)
        if rng.random() < .25:   # equal / neighbouring values of different representation
            z = rng.choice(small_ints + [rng.randrange(-2**53, 2**53)])
            reps = [("i", z), ("b", z % W)] + ([("f", float(z))] if abs(z) <= 2**53 else []) + ([("s", str(z).encode())] if op == "meq" else [])
            a, b = rng.choice(reps), rng.choice(reps)
            if rng.random() < .3 and b[0] in "ib": b = (b[0], (b[1] + 1) % W if b[0] == "b" else wrap64s(b[1] + 1))
        add("mixed-ops", op, a, b)
    tn = [0, 1, W - 1, 2**63 - 1, 2**63, (-2**63) % W, (-2**63 - 1) % W, 2**64, W // 2 - 1, W // 2, 2**63 + 2**10, 2**63 + 2**10 + 1, 2**63 + 3 * 2**10,
          2**100 + 2**47, 2**100 + 2**47 + 1, 2**100 + 3 * 2**47, (2**53 + 1) << 40, ((2**53 + 1) << 40) + 1, (2**54 - 1) << 60]
    for a in tn + [draw() for _ in range(ctx.scale(300, 6000))]:
        add("tonumber", "tonumber", a)
    for a in [0, 1, W - 1, W // 2, 255, 256, 2**64] + [draw() for _ in range(ctx.scale(100, 3000))]:
        for fl in (True, False):
            add("bytes", "tole", a, fl); add("bytes", "tobe", a, fl)
        add("bytes", "todecsci", a, rng.random() < .5)
    for _ in range(ctx.scale(300, 6000)):
        n = rng.choice([0, 1, 3, 4, 19, 20, 21, 40])
        bs = bytes(rng.choice([0, 0, 255, rng.randrange(256)]) for _ in range(n))
        add("bytes", rng.choice(["fromle", "frombe"]), bs)
    # decimal literals around the integer/float boundary of the reader (2^(bits-1)), with leading zeros and signs
    for v in (0, 1, W // 2 - 2, W // 2 - 1, W // 2, W // 2 + 1, W - 1, W, W + 1, 10 ** len(str(W // 2)), 10 ** (len(str(W // 2)) - 1)):
        for pre in ("", "0", "000", "-", "+", "-00"):
            add("literal-boundary", "from_dec", (pre + str(v)).encode())
    for _ in range(ctx.scale(400, 6000)):
        bits = rng.choice([None, None, 8, 16, 32, 64, 128, BITS - 1, BITS, BITS + 1, 0, -1, rng.randrange(0, BITS + 10)])
        add("intstr", rng.choice(["tohexint", "tobinint"]), draw(), bits)
    return cases, dist


def enc(kind, v):
    if kind == "B": return "%x" % v
    if kind == "I": return hexs(v)
    if kind == "N": return "%d" % v
    if kind == "S": return v.hex() if v else "-"
    if kind == "F": return v
    if kind == "T": return "t" if v else "f"
    if kind == "O": return "nil" if v is None else hexs(v)
    if kind == "V": return val_token(v)
    if kind == "K": return v
    raise KeyError(kind)


def fmt(case):
    _, op, args = case
    return " ".join([op] + [enc(k, v) for k, v in zip(SIG[op], args)])


def parse_line(line):
    w = line.split()
    op = w[0]
    args = []
    for k, t in zip(SIG[op], w[1:]):
        if k == "B": args.append(int(t, 16))
        elif k in ("I", "O"):
            args.append(None if t == "nil" else (-int(t[1:], 16) if t.startswith("-") else int(t, 16)))
        elif k == "N": args.append(int(t))
        elif k == "S": args.append(b"" if t == "-" else bytes.fromhex(t))
        elif k == "F": args.append(t)
        elif k == "T": args.append(t == "t")
        elif k == "K": args.append(t)
        elif k == "V":
            kind, rest = t[0], t[2:]
            if kind == "i": args.append(("i", -int(rest[1:], 16) if rest.startswith("-") else int(rest, 16)))
            elif kind == "b": args.append(("b", int(rest, 16)))
            elif kind == "s": args.append(("s", b"" if rest == "-" else bytes.fromhex(rest)))
            else:
                args.append(("f", float("nan") if rest == "nan" else float(rest) if rest in ("inf", "-inf") else float.fromhex(rest.split(":")[2])))
    return ("corpus", op, tuple(args))


def run_sharded(cmd_fn, lines, shards):
    """Run a line-per-case filter over `lines` in `shards` parallel processes; returns (rc, out_lines, err)."""
    from concurrent.futures import ThreadPoolExecutor
    shards = max(1, min(shards, len(lines) // 200 or 1))
    # interleave so that expensive ops (pow, division) spread evenly
    chunks = [lines[k::shards] for k in range(shards)]
    with ThreadPoolExecutor(max_workers=shards) as ex:
        res = list(ex.map(lambda ch: cmd_fn("\n".join(ch) + "\n"), chunks))
    out = [None] * len(lines)
    rc, err = 0, ""
    for k, (r, o, e) in enumerate(res):
        ol = o.split("\n")
        if r != 0 or len(ol) < len(chunks[k]):
            rc = r or 1
            err += e[-300:]
            continue
        for j in range(len(chunks[k])):
            out[k + j * shards] = ol[j]
    return rc, out, err


def run_both(cases, driver, interp):
    lines = [fmt(c) for c in cases]
    shards = min(vlib.NPROC, 12)
    rc1, ml, merr = run_sharded(lambda t: vlib.sh([driver], input=t, timeout=3000), lines, shards)
    script = os.path.join(vlib.VERIF, "harness", ID, "ops.lua")
    rc2, il, ierr = run_sharded(lambda t: vlib.run_lua(script, input=t, interp=interp, timeout=3000), lines, 2)
    return rc1, ml, merr, rc2, il, ierr


def correspond(ctx):
    driver = vlib.ocaml_build(ID)
    interp = vlib.ensure_interp()
    corpus = []
    cp = os.path.join(vlib.VERIF, "corpus", ID, "cases.txt")
    if os.path.exists(cp):
        for line in vlib.read(cp).split("\n"):
            if line.strip() and not line.startswith("#"):
                corpus.append(parse_line(line))
    cases, dist = gen_cases(ctx)
    known = [("known-replay", op, args) for op, args, _ in KNOWN_REPLAYS]
    known_keys = {(op, args): key for op, args, key in KNOWN_REPLAYS}
    cases = corpus + known + cases
    dist["corpus"] = len(corpus)
    dist["known-replay"] = len(known)
    rc1, ml, merr, rc2, il, ierr = run_both(cases, driver, interp)
    if rc1 != 0 or rc2 != 0 or None in ml or None in il:
        ctx.violation("harness-run", "harness", "model driver rc=%s / lua harness rc=%s, lines %d/%d of %d: %s %s" %
                      (rc1, rc2, len(ml), len(il), len(cases), merr[-300:], ierr[-300:]), failing_input=False)
        return {"evaluations": 0}
    nontrivial = set()
    n_oracle_fail = n_model_mismatch = n_no_oracle = 0
    per_op = {}
    outcomes = {}
    shown_per_op = {}
    for c, m, i in zip(cases, ml, il):
        _, op, args = c
        m, i = canon_out(m), canon_out(i)
        per_op[op] = per_op.get(op, 0) + 1
        kind = "error:" + i.split(":")[0][5:] if i.startswith("!err") else ("nil" if i == "nil" else "value")
        outcomes[kind] = outcomes.get(kind, 0) + 1
        exp = oracle(op, args)
        if not any(a in (0, 1) for a in args if isinstance(a, int) and not isinstance(a, bool)):
            nontrivial.add((op, args))
        if exp is None:
            n_no_oracle += 1
        if exp is not None and i != exp:
            n_oracle_fail += 1
            if c[0] == "known-replay" or shown_per_op.get(op, 0) < 3:
                if c[0] != "known-replay":   # designated witnesses of known findings never use up the display budget of an op
                    shown_per_op[op] = shown_per_op.get(op, 0) + 1
                ctx.violation(known_keys[(op, args)] if c[0] == "known-replay" else "bint:%s" % fmt(c), "oracle",
                              "bint %s: implementation returns %s, exact arithmetic mod 2^%d gives %s" % (fmt(c), i, BITS, exp),
                              detail={"case": fmt(c), "implementation": i, "model": m, "oracle": exp,
                                      "replay": "echo '%s' | LUA_PATH='<repo>/lualib/?.lua;;' <nelua-lua> /verif/harness/C17/ops.lua" % fmt(c)})
        if m != i and not (op == "from_text" and m == "other"):
            n_model_mismatch += 1
            if exp is None or i == exp:
                if shown_per_op.get("mm:" + op, 0) < 2:
                    shown_per_op["mm:" + op] = shown_per_op.get("mm:" + op, 0) + 1
                    ctx.violation("model-mismatch:%s" % op, "correspondence",
                                  "model of bint.%s no longer corresponds to the code on %s: model %s, implementation %s (the property oracle agrees with the implementation)" % (op, fmt(c), m, i),
                                  detail={"case": fmt(c), "implementation": i, "model": m, "oracle": exp,
                                          "no_longer_checks": "correspondence stream C17/%s" % op}, failing_input=False)
    return {
        "evaluations": len(cases),
        "distinct_nontrivial": len(nontrivial),
        "rule": "cases = corpus + known-finding replays + boundary lattice (2^k,2^k+-1 at limb/type boundaries, type limits) cross product per binary/division op + every shift count -(bits+10)..bits+10 and extreme Lua integers + every base 2..36 with all flag values + limb-pattern/dense/sparse/small/random-bit-length streams + malformed digit strings; non-trivial = distinct (op,args) with no integer operand in {0,1}",
        "samples": [fmt(c) for c in cases[len(corpus) + len(known):][:3]] + [fmt(c) for c in cases[-3:]],
        "distribution": {"streams": dist, "per_op": per_op, "outcome_kinds": outcomes},
        "oracle_failures": n_oracle_fail,
        "model_mismatches": n_model_mismatch,
        "cases_without_oracle_(model=code_only)": n_no_oracle,
        "traces_validated_against_impl": len(cases),
        "unproved": UNPROVED,
    }


# operations covered by correspondence + oracle only (no theorem in Properties.v yet)
UNPROVED = [
    "that the object-level model (ModelObj.v: which object each public function writes and returns) is the code: aliasing stream of the correspondence run only (operands re-read, raw identity of results, results mutated in place)",
    "ipow with a negative exponent: read as a huge unsigned exponent, as bint documents (theorem C17_ipow_exact says so); no reciprocal semantics",
    "fallback arithmetic on plain Lua numbers (an operand without an exact integer representation: the VM's float/integer arithmetic on bint.tonumber of the operands): the theorem only says which operands are handed to the VM; results are the VM's (property C02)",
    "mlt/mle/meq when an operand is not an integer: the model compares exactly by value (lvm.c), correspondence + oracle only, no theorem",
    "bn.demotefloat, bn.canbeintegral, bn.isnan/isinfinite, trunc/floor/ceil of strings: model + correspondence + oracle only",
    "bn.from fractional / exponent parts and hexadecimal floats: float paths, property C14",
    "Lua VM library functions the conversions rely on (tostring(integer), string.format('%x'), tonumber(s, base), string.lower, %w, math.floor/ceil/modf, number comparison, strtod of a long decimal, string.pack/unpack) are modelled in Model3.v / Model4.v from the C sources, not verified; exercised by the correspondence run",
    "bn.from on literal texts with a fraction or an exponent and on decimal texts that are not plain digit strings: float code (C14); the model returns TOther and only the split (captures) is corresponded",
]
